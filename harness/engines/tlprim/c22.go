package main

import (
	"bytes"
	"compress/gzip"
	"encoding/binary"
	"encoding/json"
	"fmt"
	"io"
	"math"
	"math/rand/v2"
	"strings"
	"time"

	"github.com/gotd/td/bin"
	"github.com/gotd/td/proto"

	"verif/harness/mon"
	"verif/harness/refmodel"
)

// C22: containers, rpc_result, unencrypted messages and gzip_packed decode back
// to what was encoded; gzip decompression never yields more than 10 MiB (and
// fails instead); malformed containers / lengths give errors, not panics.

// strictNegativeCount: a container whose count field is negative is treated as
// malformed input that must be rejected (statement: "malformed containers or
// lengths produce errors").
const strictNegativeCount = true

func framingBound(inputLen int) uint64 {
	// Message structs are 56 bytes for 16 wire bytes and slices grow by doubling:
	// 64x the input covers that with a wide margin; one body buffer of at most
	// 1 MiB may be allocated before the length is compared with the input.
	return 64*uint64(inputLen) + 4*refmodel.MaxContainerBody + 4<<20
}

type c22 struct {
	c     *mon.Ctx
	dirty dirtyBuf
	hist  history
}

// dirtyEncode repeats an Encode into reused dirty buffers (Reset() with spare
// capacity; bin.Pool Get after a dirty Put). check decides on the bytes.
func (m *c22) dirtyEncode(name string, i, need int, enc func(b *bin.Buffer) error, check func(got []byte) string) {
	c := m.c
	for _, variant := range []string{"reset", "pool"} {
		if variant == "pool" && need > 8192 {
			continue
		}
		var b *bin.Buffer
		if variant == "reset" {
			b = m.dirty.reset(need)
		} else {
			b = m.dirty.pooled(need)
		}
		c.Eval(1)
		var err error
		pv, stack := mon.Try(func() { err = enc(b) })
		if pv != nil || err != nil {
			c.Violate("encode|dirty-buffer-failed|"+name, map[string]any{"case": i, "variant": variant, "panic": fmt.Sprint(pv), "stack": stack, "err": fmt.Sprint(err)})
			return
		}
		m.hist.check(c, "Encode of "+name+" into a "+variant+" buffer")
		if why := check(b.Buf); why != "" {
			c.Violate("encode|dirty-buffer-differs-from-reference|"+name, map[string]any{"case": i, "variant": variant, "why": why, "encoded_len": len(b.Buf), "encoded": hx(b.Buf)})
		}
		c.Add("dirty_buffer_encodes", 1)
	}
}

func equalTo(want []byte) func([]byte) string {
	return func(got []byte) string {
		if bytes.Equal(got, want) {
			return ""
		}
		return "bytes differ from the reference encoding " + hx(want)
	}
}

func tailBytes() []byte { return []byte{0xdc, 0xf8, 0xf1, 0x73, 0xff, 0xff, 0xff, 0x7f, 1, 2, 3, 4} }

func (m *c22) randBody(r *rand.Rand, i int) []byte {
	var n int
	switch x := r.IntN(1000); {
	case x == 0:
		n = refmodel.MaxContainerBody
	case x == 1:
		n = refmodel.MaxContainerBody - 1 - r.IntN(8)
	case x == 2:
		n = r.IntN(refmodel.MaxContainerBody)
	case x < 20:
		n = r.IntN(70000)
	case x < 50:
		n = 0
	default:
		n = r.IntN(600)
	}
	b := randBytes(r, n)
	if n >= 4 {
		binary.LittleEndian.PutUint32(b, uint32(i)) // unique per case
	}
	return b
}

func toReal(msgs []refmodel.FrMessage) []proto.Message {
	out := make([]proto.Message, len(msgs))
	for i, x := range msgs {
		out[i] = proto.Message{ID: x.ID, SeqNo: int(x.SeqNo), Bytes: len(x.Body), Body: x.Body}
	}
	return out
}

func sameMessages(real []proto.Message, ref []refmodel.FrMessage) bool {
	if len(real) != len(ref) {
		return false
	}
	for i := range real {
		if real[i].ID != ref[i].ID || real[i].SeqNo != int(ref[i].SeqNo) || real[i].Bytes != len(ref[i].Body) || !bytes.Equal(real[i].Body, ref[i].Body) {
			return false
		}
	}
	return true
}

func (m *c22) randMessages(r *rand.Rand, i int) []refmodel.FrMessage {
	var n int
	switch r.IntN(12) {
	case 0:
		n = 0
	case 1:
		n = 100 + r.IntN(900)
	default:
		n = 1 + r.IntN(8)
	}
	msgs := make([]refmodel.FrMessage, n)
	for j := range msgs {
		body := m.randBody(r, i*1024+j)
		if n > 20 && len(body) > 64 {
			body = body[:r.IntN(64)]
		}
		msgs[j] = refmodel.FrMessage{ID: randInt64(r), SeqNo: randInt32(r), Body: body}
	}
	return msgs
}

// roundTrips: in-process (valid inputs), panic capture by mon.Try.
func (m *c22) roundTrips() {
	c := m.c
	r := c.Rand("c22/roundtrip")
	n := c.N(5000, 200000)
	tail := tailBytes()
	var reuseRes proto.Result
	var reuseUM proto.UnencryptedMessage
	for i := 0; i < n; i++ {
		switch i % 5 {
		case 0: // container
			msgs := m.randMessages(r, i)
			real := proto.MessageContainer{Messages: toReal(msgs)}
			var b bin.Buffer
			var dec proto.MessageContainer
			var encErr, decErr error
			var rb *bin.Buffer
			c.Eval(1)
			pv, stack := mon.Try(func() {
				encErr = real.Encode(&b)
				if encErr != nil {
					return
				}
				rb = &bin.Buffer{Buf: append(append([]byte(nil), b.Buf...), tail...)}
				decErr = dec.Decode(rb)
			})
			total := 0
			for _, x := range msgs {
				total += len(x.Body)
			}
			w := map[string]any{"case": i, "messages": len(msgs), "body_bytes": total, "enc_err": fmt.Sprint(encErr), "dec_err": fmt.Sprint(decErr), "encoded": hx(b.Buf)}
			want := refmodel.FrPutContainer(nil, msgs)
			switch {
			case pv != nil:
				w["panic"], w["stack"] = fmt.Sprint(pv), stack
				c.Violate("panic|container-roundtrip", w)
			case encErr != nil || decErr != nil:
				c.Violate("roundtrip-error|container", w)
			case !bytes.Equal(b.Buf, want):
				w["reference"] = hx(want)
				c.Violate("encoding-differs-from-reference|container", w)
			case !sameMessages(dec.Messages, msgs):
				c.Violate("roundtrip-differs|container", w)
			case !bytes.Equal(rb.Buf, tail):
				w["left"] = rb.Len()
				c.Violate("consumed-not-exactly-encoding|container", w)
			}
			m.hist.check(c, "container round trip")
			if pv == nil && decErr == nil && encErr == nil {
				var bodies [][]byte
				for k := range dec.Messages {
					if k < 4 || len(dec.Messages[k].Body) > 1024 {
						bodies = append(bodies, dec.Messages[k].Body)
					}
				}
				m.hist.keep("container", fmt.Sprintf("MessageContainer.Decode case %d", i), bodies...)
			}
			m.dirtyEncode("container", i, len(want), real.Encode, equalTo(want))
			if len(msgs) > 0 {
				c.Distinct(fmt.Sprintf("rt/container/n=%s/bytes=%s", sizeClass(len(msgs)), sizeClass(total)))
			}
			if i < 10 {
				c.Sample("container-roundtrip", map[string]any{"messages": len(msgs), "body_bytes": total, "encoded_len": len(want)})
			}
		case 1: // single Message
			x := refmodel.FrMessage{ID: randInt64(r), SeqNo: randInt32(r), Body: m.randBody(r, i)}
			real := toReal([]refmodel.FrMessage{x})[0]
			var b bin.Buffer
			var dec proto.Message
			var encErr, decErr error
			var rb *bin.Buffer
			c.Eval(1)
			pv, stack := mon.Try(func() {
				if encErr = real.Encode(&b); encErr != nil {
					return
				}
				rb = &bin.Buffer{Buf: append(append([]byte(nil), b.Buf...), tail...)}
				decErr = dec.Decode(rb)
			})
			w := map[string]any{"case": i, "body_len": len(x.Body), "enc_err": fmt.Sprint(encErr), "dec_err": fmt.Sprint(decErr), "encoded": hx(b.Buf)}
			switch {
			case pv != nil:
				w["panic"], w["stack"] = fmt.Sprint(pv), stack
				c.Violate("panic|message-roundtrip", w)
			case encErr != nil || decErr != nil:
				c.Violate("roundtrip-error|message", w)
			case !bytes.Equal(b.Buf, refmodel.FrPutMessage(nil, x)):
				c.Violate("encoding-differs-from-reference|message", w)
			case !sameMessages([]proto.Message{dec}, []refmodel.FrMessage{x}):
				c.Violate("roundtrip-differs|message", w)
			case !bytes.Equal(rb.Buf, tail):
				c.Violate("consumed-not-exactly-encoding|message", w)
			}
			m.hist.check(c, "message round trip")
			if pv == nil && decErr == nil && encErr == nil {
				m.hist.keep("message", fmt.Sprintf("Message.Decode case %d", i), dec.Body)
			}
			m.dirtyEncode("message", i, 16+len(x.Body), real.Encode, equalTo(refmodel.FrPutMessage(nil, x)))
			c.Distinct(fmt.Sprintf("rt/message/bytes=%s/mod4=%d", sizeClass(len(x.Body)), len(x.Body)%4))
		case 2: // rpc_result, fresh and reused receiver
			id, body := randInt64(r), m.randBody(r, i)
			real := proto.Result{RequestMessageID: id, Result: body}
			var b bin.Buffer
			var fresh proto.Result
			var encErr, e1, e2 error
			var rb1, rb2 *bin.Buffer
			c.Eval(2)
			pv, stack := mon.Try(func() {
				if encErr = real.Encode(&b); encErr != nil {
					return
				}
				rb1 = &bin.Buffer{Buf: append([]byte(nil), b.Buf...)}
				e1 = fresh.Decode(rb1)
				rb2 = &bin.Buffer{Buf: append([]byte(nil), b.Buf...)}
				e2 = reuseRes.Decode(rb2)
			})
			w := map[string]any{"case": i, "body_len": len(body), "enc_err": fmt.Sprint(encErr), "dec_err": fmt.Sprint(e1), "reuse_err": fmt.Sprint(e2), "encoded": hx(b.Buf)}
			switch {
			case pv != nil:
				w["panic"], w["stack"] = fmt.Sprint(pv), stack
				c.Violate("panic|rpc-result-roundtrip", w)
			case encErr != nil || e1 != nil || e2 != nil:
				c.Violate("roundtrip-error|rpc-result", w)
			case !bytes.Equal(b.Buf, refmodel.FrPutResult(nil, id, body)):
				c.Violate("encoding-differs-from-reference|rpc-result", w)
			case fresh.RequestMessageID != id || !bytes.Equal(fresh.Result, body):
				c.Violate("roundtrip-differs|rpc-result", w)
			case reuseRes.RequestMessageID != id || !bytes.Equal(reuseRes.Result, body):
				c.Violate("roundtrip-differs|rpc-result-reused-receiver", w)
			case rb1.Len() != 0 || rb2.Len() != 0:
				c.Violate("under-consumed|rpc-result", w)
			}
			m.hist.check(c, "rpc_result round trip")
			if pv == nil && encErr == nil && e1 == nil {
				m.hist.keep("rpc-result", fmt.Sprintf("Result.Decode (fresh receiver) case %d", i), fresh.Result)
			}
			m.dirtyEncode("rpc-result", i, 12+len(body), real.Encode, equalTo(refmodel.FrPutResult(nil, id, body)))
			c.Distinct(fmt.Sprintf("rt/rpc-result/bytes=%s", sizeClass(len(body))))
		case 3: // unencrypted message
			id, body := randInt64(r), m.randBody(r, i)
			real := proto.UnencryptedMessage{MessageID: id, MessageData: body}
			var b bin.Buffer
			var fresh proto.UnencryptedMessage
			var encErr, e1, e2 error
			var rb1, rb2 *bin.Buffer
			c.Eval(2)
			pv, stack := mon.Try(func() {
				if encErr = real.Encode(&b); encErr != nil {
					return
				}
				rb1 = &bin.Buffer{Buf: append(append([]byte(nil), b.Buf...), tail...)}
				e1 = fresh.Decode(rb1)
				rb2 = &bin.Buffer{Buf: append(append([]byte(nil), b.Buf...), tail...)}
				e2 = reuseUM.Decode(rb2)
			})
			w := map[string]any{"case": i, "body_len": len(body), "enc_err": fmt.Sprint(encErr), "dec_err": fmt.Sprint(e1), "reuse_err": fmt.Sprint(e2), "encoded": hx(b.Buf)}
			switch {
			case pv != nil:
				w["panic"], w["stack"] = fmt.Sprint(pv), stack
				c.Violate("panic|unencrypted-roundtrip", w)
			case encErr != nil || e1 != nil || e2 != nil:
				c.Violate("roundtrip-error|unencrypted", w)
			case !bytes.Equal(b.Buf, refmodel.FrPutUnencrypted(nil, id, body)):
				c.Violate("encoding-differs-from-reference|unencrypted", w)
			case fresh.MessageID != id || !bytes.Equal(fresh.MessageData, body):
				c.Violate("roundtrip-differs|unencrypted", w)
			case reuseUM.MessageID != id || !bytes.Equal(reuseUM.MessageData, body):
				c.Violate("roundtrip-differs|unencrypted-reused-receiver", w)
			case !bytes.Equal(rb1.Buf, tail) || !bytes.Equal(rb2.Buf, tail):
				c.Violate("consumed-not-exactly-encoding|unencrypted", w)
			}
			m.hist.check(c, "unencrypted message round trip")
			if pv == nil && encErr == nil && e1 == nil {
				m.hist.keep("unencrypted", fmt.Sprintf("UnencryptedMessage.Decode (fresh receiver) case %d", i), fresh.MessageData)
			}
			m.dirtyEncode("unencrypted", i, 20+len(body), real.Encode, equalTo(refmodel.FrPutUnencrypted(nil, id, body)))
			c.Distinct(fmt.Sprintf("rt/unencrypted/bytes=%s", sizeClass(len(body))))
		case 4: // gzip_packed, small payloads (the large ones run in the child)
			kinds := []string{"random", "mixed", "text", "zeros"}
			kind := kinds[r.IntN(len(kinds))]
			size := r.IntN(4096)
			if r.IntN(12) == 0 {
				size = r.IntN(300000)
			}
			data := genData(kind, r.Uint64(), size)
			var b bin.Buffer
			var d1, d2 proto.GZIP
			var encErr, e1, e2 error
			var rb1 *bin.Buffer
			c.Eval(2)
			stdWire := refmodel.FrPutGzipPacked(nil, refmodel.GzipStream(data, 1+r.IntN(9)))
			pv, stack := mon.Try(func() {
				if encErr = (proto.GZIP{Data: data}).Encode(&b); encErr != nil {
					return
				}
				rb1 = &bin.Buffer{Buf: append(append([]byte(nil), b.Buf...), tail...)}
				e1 = d1.Decode(rb1)
				e2 = d2.Decode(&bin.Buffer{Buf: stdWire})
			})
			w := map[string]any{"case": i, "kind": kind, "size": size, "enc_err": fmt.Sprint(encErr), "dec_err": fmt.Sprint(e1), "dec_std_err": fmt.Sprint(e2), "encoded_len": b.Len()}
			switch {
			case pv != nil:
				w["panic"], w["stack"] = fmt.Sprint(pv), stack
				c.Violate("panic|gzip-roundtrip", w)
			case encErr != nil || e1 != nil:
				c.Violate("roundtrip-error|gzip", w)
			case e2 != nil:
				c.Violate("gzip-valid-rejected|stdlib-stream", w)
			case !bytes.Equal(d1.Data, data):
				c.Violate("roundtrip-differs|gzip", w)
			case !bytes.Equal(d2.Data, data):
				c.Violate("gzip-success-with-wrong-data|stdlib-stream", w)
			case !bytes.Equal(rb1.Buf, tail):
				c.Violate("consumed-not-exactly-encoding|gzip", w)
			case b.Len()%4 != 0:
				c.Violate("unaligned|gzip", w)
			default:
				// independent reading of what the real encoder produced
				if got, why := stdGunzipPacked(b.Buf); why != "" || !bytes.Equal(got, data) {
					w["reference_reader"] = why
					c.Violate("gzip-encoding-unreadable-by-reference", w)
				}
			}
			m.hist.check(c, "gzip_packed round trip")
			if pv == nil && encErr == nil && e1 == nil && e2 == nil {
				m.hist.keep("gzip", fmt.Sprintf("GZIP.Decode case %d (%s, %d bytes)", i, kind, size), d1.Data, d2.Data)
			}
			// gzip_packed carries a TL string: its padding must be zero bytes also in a reused buffer
			m.dirtyEncode("gzip", i, b.Len(), (proto.GZIP{Data: data}).Encode, func(got []byte) string {
				if len(got)%4 != 0 {
					return "length not a multiple of 4"
				}
				out, why := stdGunzipPacked(got)
				if why != "" {
					return "reference reader: " + why
				}
				if !bytes.Equal(out, data) {
					return "reference reader decompressed different data"
				}
				return ""
			})
			c.Distinct(fmt.Sprintf("rt/gzip/%s/%s", kind, sizeClass(size)))
		}
	}
}

// stdGunzipPacked parses gzip_packed with the reference codec + compress/gzip.
func stdGunzipPacked(wire []byte) ([]byte, string) {
	id, _, st := refmodel.TLUint32(wire)
	if st != refmodel.TLOk || id != refmodel.GzipPackedID {
		return nil, "constructor"
	}
	stream, n, st := refmodel.TLBytes(wire[4:])
	if st != refmodel.TLOk || 4+n != len(wire) {
		return nil, "packed_data string: " + st.String()
	}
	zr, err := gzip.NewReader(bytes.NewReader(stream))
	if err != nil {
		return nil, err.Error()
	}
	out, err := io.ReadAll(zr)
	if err != nil {
		return nil, err.Error()
	}
	return out, ""
}

type hostileCase struct {
	op    byte
	class string
	wire  []byte
	depth int // op 'N'
}

func put32(b []byte, off int, v int32) []byte {
	out := append([]byte(nil), b...)
	binary.LittleEndian.PutUint32(out[off:], uint32(v))
	return out
}

// hostileFraming builds the hostile inputs for the framing decoders.
func (m *c22) hostileFraming() []hostileCase {
	c := m.c
	r := c.Rand("c22/hostile")
	var cases []hostileCase
	add := func(op byte, class string, wire []byte) {
		cases = append(cases, hostileCase{op: op, class: class, wire: wire})
	}
	big := bytes.Repeat([]byte{0xAB}, refmodel.MaxContainerBody+64)
	nBase := c.N(30, 1500)
	for i := 0; i < nBase; i++ {
		// a valid container with a few small messages; remember field offsets
		k := 1 + r.IntN(5)
		msgs := make([]refmodel.FrMessage, k)
		offs := make([]int, k) // offset of each message's `bytes` field
		off := 8
		for j := range msgs {
			msgs[j] = refmodel.FrMessage{ID: randInt64(r), SeqNo: randInt32(r), Body: randBytes(r, 4*r.IntN(12))}
			offs[j] = off + 12
			off += 16 + len(msgs[j].Body)
		}
		valid := refmodel.FrPutContainer(nil, msgs)
		add('C', "valid", valid)
		add('C', "valid+trailing", append(append([]byte(nil), valid...), randBytes(r, 4+r.IntN(40))...))
		for _, cnt := range []int32{-1, math.MinInt32, math.MaxInt32, int32(k + 1), int32(k - 1), 0, 1 << 24, -int32(k)} {
			class := "count-other"
			switch {
			case cnt < 0:
				class = "count-negative"
			case cnt == math.MaxInt32:
				class = "count-maxint32"
			case cnt > int32(k):
				class = "count-too-large"
			case cnt < int32(k):
				class = "count-smaller"
			}
			add('C', class, put32(valid, 4, cnt))
		}
		j := r.IntN(k)
		actual := int32(len(msgs[j].Body))
		lens := []int32{-1, math.MinInt32, refmodel.MaxContainerBody + 1, refmodel.MaxContainerBody + 4, refmodel.MaxContainerBody,
			actual + 4, actual - 4, int32(len(valid)), int32(len(valid) - offs[j] - 4 + 1), 1 << 24}
		// the giant lengths only for every 8th base: a decoder without the 1 MiB
		// limit zeroes gigabytes per case, which must not starve the rest of the batch
		switch i % 8 {
		case 0:
			lens = append(lens, math.MaxInt32)
		case 4:
			lens = append(lens, 1<<30)
		}
		for _, bl := range lens {
			class := "bytes-other"
			switch {
			case bl < 0:
				class = "bytes-negative"
			case bl > refmodel.MaxContainerBody:
				class = "bytes>1MiB"
			case int(bl) > len(valid)-offs[j]-4:
				class = "bytes-beyond-buffer"
			}
			add('C', class, put32(valid, offs[j], bl))
			if i%8 == 0 && i < 200 && bl > refmodel.MaxContainerBody && bl < 1<<24 {
				// enough bytes present: only the limit can reject it
				w := put32(put32(valid, offs[j], bl), 4, int32(j+1)) // the oversized message is the last one
				w = append(w[:offs[j]+4:offs[j]+4], big[:bl]...)
				add('C', "bytes>1MiB-with-data", w)
				add('M', "bytes>1MiB-with-data", w[offs[j]-12:])
			}
			add('M', class, put32(valid, offs[j], bl)[offs[j]-12:])
		}
		for cut := 0; cut < len(valid); cut += 1 + r.IntN(4) {
			add('C', "truncated", valid[:cut])
		}
		for f := 0; f < 6; f++ {
			w := append([]byte(nil), valid...)
			w[r.IntN(len(w))] ^= 1 << r.IntN(8)
			add('C', "bitflip", w)
		}
		add('C', "garbage-after-id", append(refmodel.TLPutUint32(nil, refmodel.MsgContainerID), randBytes(r, r.IntN(64))...))
		add('C', "wrong-id", put32u(valid, 0, refmodel.RPCResultID))
		add('C', "random", randBytes(r, r.IntN(96)))

		// unencrypted message
		body := randBytes(r, r.IntN(64))
		um := refmodel.FrPutUnencrypted(nil, randInt64(r), body)
		add('U', "valid", um)
		dls := []int32{-1, math.MinInt32, int32(len(body) + 1), int32(len(body) + 4), 1 << 24, int32(len(body)) - 1}
		if i%8 == 0 {
			dls = append(dls, math.MaxInt32)
		}
		for _, dl := range dls {
			class := "length-other"
			switch {
			case dl < 0:
				class = "length-negative"
			case int(dl) > len(body):
				class = "length-beyond-buffer"
			}
			add('U', class, put32(um, 16, dl))
		}
		for cut := 0; cut < len(um); cut += 1 + r.IntN(3) {
			add('U', "truncated", um[:cut])
		}
		add('U', "auth-key-id-nonzero", put32(um, r.IntN(5), 1+int32(r.Uint32()>>2)))
		add('U', "random", randBytes(r, r.IntN(48)))

		// rpc_result
		rr := refmodel.FrPutResult(nil, randInt64(r), randBytes(r, r.IntN(64)))
		add('R', "valid", rr)
		for cut := 0; cut < 12 && cut < len(rr); cut++ {
			add('R', "truncated", rr[:cut])
		}
		add('R', "wrong-id", put32u(rr, 0, refmodel.MsgContainerID))
		add('R', "random", randBytes(r, r.IntN(32)))
	}
	// wide containers: many empty messages, up to 1 MiB of wire
	for _, n := range []int{1000, 16384, 65536} {
		msgs := make([]refmodel.FrMessage, n)
		for j := range msgs {
			msgs[j] = refmodel.FrMessage{ID: int64(j), SeqNo: int32(j)}
		}
		w := refmodel.FrPutContainer(nil, msgs)
		add('C', "wide-empty-messages", w)
		add('C', "wide-count-maxint32", put32(w, 4, math.MaxInt32))
	}
	// a container of 1 MiB bodies
	{
		msgs := []refmodel.FrMessage{{ID: 1, SeqNo: 1, Body: big[:refmodel.MaxContainerBody]}, {ID: 2, SeqNo: 3, Body: big[:refmodel.MaxContainerBody]}}
		w := refmodel.FrPutContainer(nil, msgs)
		add('C', "valid-1MiB-bodies", w)
		add('C', "truncated-1MiB-bodies", w[:len(w)-1])
	}
	// nested containers
	// decoding depth d copies 24*d*d/2 bytes (every level re-allocates its body):
	// 16000 -> 3 GB in the quick tier, 40000 -> 19 GB and the maximum 43689 in thorough
	depths := []int{1, 2, 3, 10, 100, 1000, 5000, 16000}
	if !c.Quick() {
		depths = append(depths, 10000, 20000, 30000, 40000, 43000, 43600, 43689)
	}
	for _, d := range depths {
		inner := randBytes(r, 4*r.IntN(8))
		if 24*d+len(inner) > refmodel.MaxContainerBody+24 {
			continue
		}
		w := binary.LittleEndian.AppendUint32(nil, uint32(d))
		cases = append(cases, hostileCase{op: 'N', class: "nested", wire: append(w, inner...), depth: d})
	}
	return cases
}

// refFraming is the reference verdict for a hostile framing input.
func refFraming(hc hostileCase) (st refmodel.FrStatus, n, consumed int, hash uint64, id int64) {
	switch hc.op {
	case 'C':
		msgs, k, st := refmodel.FrContainerDecode(hc.wire)
		return st, len(msgs), k, refmodel.FrMessagesHash(msgs), 0
	case 'M':
		msg, k, st := refmodel.FrMessageDecode(hc.wire)
		if st != refmodel.FrOk {
			return st, 0, 0, 0, 0
		}
		return st, 1, k, refmodel.FrMessagesHash([]refmodel.FrMessage{msg}), msg.ID
	case 'U':
		id, data, k, st := refmodel.FrUnencryptedDecode(hc.wire)
		return st, 1, k, hashBytes(data), id
	case 'R':
		id, res, st := refmodel.FrResultDecode(hc.wire)
		return st, 1, len(hc.wire), hashBytes(res), id
	}
	return "", 0, 0, 0, 0
}

var opName = map[byte]string{'C': "container", 'M': "message", 'U': "unencrypted", 'R': "rpc-result", 'N': "nested-container"}

func (m *c22) runHostileFraming() {
	c := m.c
	cases := m.hostileFraming()
	inputs := make([][]byte, len(cases))
	for i, hc := range cases {
		inputs[i] = append([]byte{hc.op}, hc.wire...)
	}
	outs := mon.RunBatch(c, "c22-framing", "framing", inputs, mon.BatchOpts{MemLimitMB: 3072, MaxProcs: 1, Timeout: 20 * time.Minute})
	if outs == nil {
		return
	}
	maxDepth := 0
	for i, o := range outs {
		hc := cases[i]
		name := opName[hc.op]
		c.Eval(1)
		w := map[string]any{"decoder": name, "class": hc.class, "input_len": len(hc.wire), "input": hx(hc.wire)}
		if hc.op == 'N' {
			w["depth"] = hc.depth
		}
		if o.Class == "missing" {
			continue // RunBatch already marked the run inconclusive
		}
		if o.Class != "ok" {
			w["stderr"] = o.Stderr
			c.Violate(fmt.Sprintf("%s|%s/%s", o.Class, name, hc.class), w)
			continue
		}
		var res frResult
		if err := json.Unmarshal(o.Result, &res); err != nil {
			c.Inconclusive("framing child result: " + err.Error())
			return
		}
		w["err"], w["alloc"] = res.Err, res.Alloc
		if hc.op == 'N' {
			if res.Depth > maxDepth {
				maxDepth = res.Depth
			}
			w["depth_reached"], w["max_alloc"] = res.Depth, res.MaxAlloc
			inner := hc.wire[4:]
			switch {
			case res.Err != "" || res.Depth != hc.depth || !res.BytesOK:
				c.Violate("nested-container-not-decoded-to-depth", w)
			case res.Hash != hashBytes(inner) || res.N != len(inner):
				c.Violate("roundtrip-differs|nested-container-innermost-body", w)
			case res.MaxAlloc > framingBound(24*hc.depth+len(inner)):
				c.Violate("alloc-exceeds-bound|nested-container", w)
			}
			c.Distinct(fmt.Sprintf("hostile/nested/depth=%d", hc.depth))
			continue
		}
		if bound := framingBound(len(hc.wire)); res.Alloc > bound {
			w["bound"] = bound
			c.Violate(fmt.Sprintf("alloc-exceeds-bound|%s/%s", name, hc.class), w)
		}
		if res.Consumed < 0 || res.Consumed > len(hc.wire) {
			c.Violate("consumed-beyond-buffer|"+name, w)
		}
		st, n, consumed, hash, id := refFraming(hc)
		w["reference"] = string(st)
		switch {
		case st == refmodel.FrOk:
			switch {
			case res.Err != "":
				c.Violate(fmt.Sprintf("valid-rejected|%s/%s", name, hc.class), w)
			case res.N != n || res.Hash != hash || !res.BytesOK || (hc.op != 'C' && res.ID != id):
				c.Violate(fmt.Sprintf("decode-differs-from-reference|%s/%s", name, hc.class), w)
			case res.Consumed != consumed:
				w["expected_consumed"] = consumed
				c.Violate(fmt.Sprintf("consumed-wrong|%s/%s", name, hc.class), w)
			}
		case st == refmodel.FrNegativeCount && !strictNegativeCount:
			if res.Err == "" {
				c.Add("negative_count_accepted", 1)
			}
		default:
			if res.Err == "" {
				w["messages"], w["consumed"] = res.N, res.Consumed
				c.Violate(fmt.Sprintf("malformed-accepted|%s/%s", name, st), w)
			}
		}
		c.Distinct(fmt.Sprintf("hostile/%s/%s/%s", name, hc.class, st))
		if i%97 == 0 {
			c.Sample("hostile-framing", map[string]any{"decoder": name, "class": hc.class, "input_len": len(hc.wire), "reference": string(st), "err": res.Err, "alloc": res.Alloc})
		}
	}
	c.Set("nested_container_max_depth_decoded", maxDepth)
	c.Set("hostile_framing_inputs", len(cases))
}

// gzip cases ---------------------------------------------------------------

func (m *c22) gzipSequences() [][]gzSpec {
	c := m.c
	r := c.Rand("c22/gzip")
	small := func(name string) gzSpec {
		return gzSpec{Name: name, Kind: "text", Size: 64 + r.IntN(4000), Seed: r.Uint64(), Level: 6, Encoder: "stdlib"}
	}
	probe := func(name string) gzSpec {
		return gzSpec{Name: name, Kind: "zeros", Size: 16, Seed: 1, Level: 1, Encoder: "stdlib"}
	}
	bomb := func(name string, size int) gzSpec {
		return gzSpec{Name: name, Kind: "zeros", Size: size, Level: 1, Encoder: "stdlib"}
	}
	var seqs [][]gzSpec
	// the very first decode of the process creates the reader: allocation baseline
	seqs = append(seqs, []gzSpec{probe("probe-first"), probe("probe-again")})
	// sizes around the limit, both encoders, compressible and not
	for _, sz := range []int{gzLimit - 1, gzLimit, gzLimit + 1} {
		for _, kind := range []string{"zeros", "random", "mixed"} {
			for _, enc := range []string{"stdlib", "real"} {
				if c.Quick() && kind == "mixed" && (enc == "real" || sz == gzLimit) {
					continue
				}
				seqs = append(seqs, []gzSpec{{Name: "limit", Kind: kind, Size: sz, Seed: r.Uint64(), Level: 1, Encoder: enc}})
			}
		}
	}
	// bombs, each followed and preceded by a valid small object (pooled reader reuse)
	bombs := []int{100 << 20, 11 << 20, 32 << 20}
	if !c.Quick() {
		bombs = append(bombs, 1<<30, 512<<20)
	}
	for i, sz := range bombs {
		seq := []gzSpec{small("small-before-bomb"), bomb("bomb", sz), small("small-after-bomb"), probe("probe-after-bomb")}
		if i > 0 || !c.Quick() {
			seq = append(seq, bomb("bomb-again", sz), small("small-after-bomb"))
		}
		seqs = append(seqs, seq)
	}
	seqs = append(seqs, []gzSpec{small("small-before-bomb"), {Name: "bomb", Kind: "zeros", Size: c.N(24<<20, 64<<20), Level: 9, Encoder: "real"}, small("small-after-bomb")})
	// concatenated members
	seqs = append(seqs,
		[]gzSpec{{Name: "members", Kind: "mixed", Size: 6 << 20, Seed: r.Uint64(), Members: 2, Level: 1, Encoder: "stdlib"}, small("small-after-bomb")},
		[]gzSpec{{Name: "members", Kind: "zeros", Size: 1 << 20, Members: 12, Level: 1, Encoder: "stdlib"}, small("small-after-bomb")},
		[]gzSpec{{Name: "members", Kind: "text", Size: 3 << 20, Seed: r.Uint64(), Members: 3, Level: 1, Encoder: "stdlib"}},
		[]gzSpec{{Name: "members", Kind: "text", Size: 1000, Seed: r.Uint64(), Members: 5, Level: 6, Encoder: "stdlib"}},
	)
	// truncated / corrupted streams, each followed by a valid object
	n := c.N(100, 6000)
	corrupts := []string{"crc", "isize", "magic", "method", "garbage-after", "bitflip"}
	for i := 0; i < n; i++ {
		s := gzSpec{Name: "damaged", Kind: []string{"text", "mixed", "random", "zeros"}[r.IntN(4)], Size: 1 + r.IntN(20000), Seed: r.Uint64(), Level: 1 + r.IntN(9), Encoder: "stdlib"}
		if i%50 == 0 {
			s.Size = 1<<20 + r.IntN(4<<20)
		}
		switch i % 4 {
		case 0:
			s.CutMode, s.CutN = "tail", 1+r.IntN(12)
		case 1:
			s.CutMode, s.CutN = "permille", r.IntN(1000)
		case 2:
			s.Corrupt = corrupts[r.IntN(len(corrupts))]
			s.FlipAt = r.IntN(1000)
		case 3:
			s.TLCut = 1 + r.IntN(40)
		}
		seqs = append(seqs, []gzSpec{s, small("small-after-damaged"), probe("probe-after-damaged")})
	}
	// valid objects of random sizes below the limit
	for i, k := 0, c.N(12, 400); i < k; i++ {
		sz := r.IntN(1 << 20)
		if i%6 == 0 {
			sz = r.IntN(gzLimit - 1)
		}
		enc := []string{"stdlib", "real"}[i%2]
		seqs = append(seqs, []gzSpec{{Name: "valid", Kind: []string{"text", "mixed", "random"}[r.IntN(3)], Size: sz, Seed: r.Uint64(), Level: 1 + r.IntN(9), Encoder: enc}})
	}
	return seqs
}

func (m *c22) runGzip() {
	c := m.c
	seqs := m.gzipSequences()
	inputs := make([][]byte, len(seqs))
	for i, s := range seqs {
		inputs[i], _ = json.Marshal(s)
	}
	outs := mon.RunBatch(c, "c22-gzip", "gzip", inputs, mon.BatchOpts{MemLimitMB: 3072, MaxProcs: 1, Timeout: 25 * time.Minute})
	if outs == nil {
		return
	}
	var firstProbe uint64
	reuse, probes, bombsRejected, cases := 0, 0, 0, 0
	for i, o := range outs {
		specs := seqs[i]
		if o.Class == "missing" {
			continue
		}
		if o.Class != "ok" {
			names := []string{}
			for _, s := range specs {
				names = append(names, s.Name)
			}
			c.Eval(1)
			c.Violate(fmt.Sprintf("%s|gzip/%s", o.Class, strings.Join(names, ">")), map[string]any{"sequence": specs, "stderr": o.Stderr})
			continue
		}
		var results []gzResult
		if err := json.Unmarshal(o.Result, &results); err != nil || len(results) != len(specs) {
			c.Inconclusive(fmt.Sprintf("gzip child result %d: %v %s", i, err, string(o.Result[:min(len(o.Result), 200)])))
			return
		}
		for j, res := range results {
			s := specs[j]
			c.Eval(1)
			cases++
			if res.EncErr != "" {
				c.Inconclusive(fmt.Sprintf("gzip case %s could not be built: %s", s.Name, res.EncErr))
				continue
			}
			w := map[string]any{"spec": s, "sequence_position": j, "result": res}
			members := max(s.Members, 1)
			total := s.Size * members
			damaged := s.CutMode != "" || s.Corrupt != "" || s.TLCut > 0
			if res.Alloc > res.Bound {
				c.Violate("gzip-alloc-exceeds-bound|"+s.Name, w)
			}
			if len(res.HistoryChanged) > 0 {
				c.Violate("history|earlier-decoded-value-changed|gzip", w)
			}
			if res.Err == "" && res.OutLen > gzLimit {
				c.Violate("gzip-output-exceeds-10MiB|"+s.Name, w)
			}
			switch {
			case !damaged && total < gzLimit:
				// must round-trip
				if res.Err != "" {
					c.Violate("gzip-valid-rejected|"+s.Name, w)
				} else if !res.Equal {
					c.Violate("gzip-success-with-wrong-data|"+s.Name, w)
				} else if res.Consumed != res.CompLen {
					c.Violate("consumed-not-exactly-encoding|gzip-"+s.Name, w)
				}
			case !damaged && total == gzLimit:
				// exactly 10 MiB is "not more than 10 MiB": either outcome is allowed,
				// but success must be the data.
				if res.Err == "" && !res.Equal {
					c.Violate("gzip-success-with-wrong-data|"+s.Name, w)
				}
				c.Set("exactly_10MiB_outcome/"+s.Kind+"/"+s.Encoder, map[bool]string{true: "rejected", false: "accepted"}[res.Err != ""])
			case !damaged && total > gzLimit:
				if res.Err == "" {
					if res.Equal || res.OutLen > gzLimit {
						c.Violate("gzip-output-exceeds-10MiB|"+s.Name, w)
					} else {
						c.Violate("gzip-bomb-silently-truncated|"+s.Name, w)
					}
				} else {
					bombsRejected++
				}
			default: // damaged stream
				switch {
				case s.Corrupt == "bitflip":
					// a flipped bit may hit an ignored header field (mtime, xfl, os): accepted data must be intact
					if res.Err == "" && !res.Equal {
						c.Add("bitflip_accepted_with_different_data", 1)
					}
				case res.Err == "":
					tag := s.Corrupt
					if s.CutMode != "" {
						tag = "truncated-stream"
					} else if s.TLCut > 0 {
						tag = "truncated-object"
					}
					c.Violate("malformed-accepted|gzip-"+tag, w)
				}
			}
			if s.Name == "probe-first" {
				firstProbe = res.Alloc
			} else if strings.HasPrefix(s.Name, "probe") {
				probes++
				if firstProbe > 0 && res.Alloc*2 < firstProbe {
					reuse++
				}
			}
			cls := "intact"
			if damaged {
				cls = s.CutMode + s.Corrupt
				if s.TLCut > 0 {
					cls = "tlcut"
				}
			}
			c.Distinct(fmt.Sprintf("gzip/%s/%s/%s/x%d/%s/%s/pos%d", s.Name, s.Kind, sizeClassGz(total), members, s.Encoder, cls, min(j, 3)))
			if s.Name == "bomb" || s.Name == "limit" && s.Kind == "zeros" && s.Encoder == "stdlib" {
				c.Sample("gzip-"+s.Name, map[string]any{"payload_bytes": total, "object_bytes": res.CompLen, "err": res.Err, "bomb_error": res.Bomb, "alloc": res.Alloc, "bound": res.Bound})
			}
		}
	}
	c.Set("gzip_cases", cases)
	c.Set("gzip_sequences", len(seqs))
	c.Set("gzip_over_limit_rejected", bombsRejected)
	c.Set("gzip_probe_first_alloc", firstProbe)
	c.Set("gzip_pooled_reader_reuse_observed", fmt.Sprintf("%d of %d probes allocated < 1/2 of the first decode of the process", reuse, probes))
	if reuse == 0 {
		c.Inconclusive("pooled gzip reader reuse was never observed (no probe decode was cheaper than the first decode of the child)")
	}
	if bombsRejected == 0 {
		c.Inconclusive("no over-limit gzip payload was decoded")
	}
}

func sizeClassGz(n int) string {
	switch {
	case n < gzLimit-1:
		return sizeClass(n)
	case n <= gzLimit+1:
		return sizeClass(n)
	case n <= 16<<20:
		return "10M-16M"
	case n <= 128<<20:
		return "16M-128M"
	default:
		return ">128M"
	}
}

func runC22(c *mon.Ctx) {
	c.Rule("Round trips (real Encode into a fresh buffer AND into reused dirty buffers — non-zero backing array after Reset(), bin.Pool Get after a dirty Put — byte-compared with a spec-transcribed reference encoder, real Decode with a sentinel tail): containers of 0..1000 messages with random ids/seqnos and unique bodies 0..1 MiB (incl. exactly 1 MiB), " +
		"single messages, rpc_result and unencrypted messages (fresh and reused receivers), gzip_packed of random/mixed/text/zero payloads by the real encoder (read back by compress/gzip) and by compress/gzip (read by the real decoder). " +
		"History: the last 8 decoded values (the returned slices + a private copy) are re-compared after every later Encode/Decode (fresh, dirty-reset and pooled buffers); 6 goroutines run round trips of different payloads concurrently with immediate, post-yield and history comparison. " +
		"Child batches (single goroutine, allocation meter around every Decode, crash classification): gzip payloads of 10 MiB-1 / 10 MiB / 10 MiB+1 (zeros, random, mixed; both encoders), bombs of 11 MiB..100 MiB (1 GiB thorough) of zeros, " +
		"concatenated members, truncated streams, corrupt CRC/ISIZE/magic/method, trailing garbage, bit flips, truncated TL object, every damaged or bomb case followed by a valid small object in the same process (pooled reader reuse); " +
		"hostile containers/messages/unencrypted/rpc_result: count -1/minint/2^31-1/+-1, bytes field -1/minint/2^31-1/>1 MiB with and without data/beyond the buffer, truncations, bit flips, wrong ids, 65536 empty messages, 1 MiB bodies, " +
		"nested containers to depth 16000 (thorough: 40000 and the maximum 43689 that the 1 MiB body limit allows); verdict per input from a reference decoder. " +
		"distinct non-trivial = (type, size classes) for round trips, (decoder, input class, reference status) for hostile inputs, (case, payload kind, size class, members, encoder, damage, sequence position) for gzip")
	c.Assume("harness/refmodel/tl_prim.go and tlprim_framing.go transcribe the MTProto serialization text; compress/gzip (standard library) is the reference gzip implementation")
	c.Assume("allocation bounds: gzip Decode <= 4 x (measured cost of io.ReadAll over 10 MiB in the same process) + 4 x input + 4 MiB; framing Decode <= 64 x input + 4 x 1 MiB + 4 MiB")
	c.Assume("a payload of exactly 10 MiB may be accepted or rejected (statement: never MORE than 10 MiB); a bit flip inside a gzip stream may be accepted when the data is intact")
	m := &c22{c: c}
	m.roundTrips()
	m.hist.check(c, "end of round trips")
	c.Set("history_rechecks", m.hist.rechecks)
	m.concurrent()
	c.Set("dirty_pool_reuse", fmt.Sprintf("%d of %d bin.Pool Get calls returned the dirty buffer just Put", m.dirty.PoolReused, m.dirty.PoolGets))
	if m.dirty.PoolReused == 0 {
		c.Inconclusive("bin.Pool never handed back the dirty buffer: pooled-reuse arm not observed")
	}
	m.runHostileFraming()
	m.runGzip()
	if c.DistinctCount() < 40 {
		c.Inconclusive("too few distinct cases observed")
	}
}

func put32u(b []byte, off int, v uint32) []byte { return put32(b, off, int32(v)) }
