// Engine tlprim: monitors for the TL primitive codec (C20, package bin) and for
// the MTProto framing types built on it (C22, package proto: containers,
// rpc_result, unencrypted messages, gzip-packed objects).
package main

import (
	"verif/harness/mon"
)

func main() {
	registerC22Children()
	mon.Main("tlprim", map[string]mon.PropFunc{
		"C20": runC20,
		"C22": runC22,
	})
}
