package main

import (
	"encoding/hex"
	"math/rand/v2"

	"github.com/gotd/td/bin"
)

// dirtyBuf hands out REUSED bin.Buffers: the backing array is pre-filled with
// non-zero bytes, the buffer is Reset() (length 0, ample spare capacity), as
// happens with pooled / recycled buffers in the client. An encoder that extends
// the slice into spare capacity instead of appending zero bytes leaves stale
// bytes in the output; with a fresh buffer that is invisible.
type dirtyBuf struct {
	scratch []byte
	pool    *bin.Pool
	// PoolReused counts pool.Get calls that returned the dirty buffer just Put.
	PoolReused, PoolGets int
}

func (d *dirtyBuf) fill(need int) []byte {
	n := need + 64
	if cap(d.scratch) < n {
		d.scratch = make([]byte, n+n/4)
	}
	s := d.scratch[:n]
	for i := range s {
		s[i] = byte(i*31+0xA7) | 1 // never zero
	}
	return s
}

// reset returns a dirty buffer with capacity for need bytes, after Reset().
func (d *dirtyBuf) reset(need int) *bin.Buffer {
	b := &bin.Buffer{Buf: d.fill(need)}
	b.Reset()
	return b
}

// pooled puts a dirty buffer into a bin.Pool and takes one out again.
func (d *dirtyBuf) pooled(need int) *bin.Buffer {
	if d.pool == nil {
		d.pool = bin.NewPool(0)
	}
	in := &bin.Buffer{Buf: d.fill(need)}
	d.pool.Put(in)
	out := d.pool.Get()
	d.PoolGets++
	if out == in {
		d.PoolReused++
	}
	return out
}

func randBytes(r *rand.Rand, n int) []byte {
	b := make([]byte, n)
	i := 0
	for ; i+8 <= n; i += 8 {
		v := r.Uint64()
		b[i], b[i+1], b[i+2], b[i+3] = byte(v), byte(v>>8), byte(v>>16), byte(v>>24)
		b[i+4], b[i+5], b[i+6], b[i+7] = byte(v>>32), byte(v>>40), byte(v>>48), byte(v>>56)
	}
	for ; i < n; i++ {
		b[i] = byte(r.Uint32())
	}
	return b
}

var extremes64 = []int64{0, 1, -1, 1<<63 - 1, -1 << 63, 0x0102030405060708, 1<<53 - 1, -(1 << 53), 1 << 32, 1<<31 - 1, -1 << 31}

var extremes32 = []int32{0, 1, -1, 1<<31 - 1, -1 << 31, 0x01020304, 253, 254, 255, 256, 1 << 24, 1<<24 - 1, -2}

func randInt64(r *rand.Rand) int64 {
	if r.IntN(4) == 0 {
		return extremes64[r.IntN(len(extremes64))]
	}
	return int64(r.Uint64())
}

func randInt32(r *rand.Rand) int32 {
	if r.IntN(4) == 0 {
		return extremes32[r.IntN(len(extremes32))]
	}
	return int32(r.Uint32())
}

func hx(b []byte) string {
	if len(b) > 96 {
		return hex.EncodeToString(b[:64]) + "..." + hex.EncodeToString(b[len(b)-24:])
	}
	return hex.EncodeToString(b)
}

// sizeClass buckets a length for distinct-case keys.
func sizeClass(n int) string {
	switch {
	case n == 0:
		return "0"
	case n < 4:
		return "1-3"
	case n < 253:
		return "4-252"
	case n == 253:
		return "253"
	case n == 254:
		return "254"
	case n == 255:
		return "255"
	case n < 1024:
		return "256-1023"
	case n < 1<<16:
		return "1K-64K"
	case n < 1<<20:
		return "64K-1M"
	case n == 1<<20:
		return "1M"
	case n < 10<<20-1:
		return "1M-10M"
	case n == 10<<20-1:
		return "10M-1"
	case n == 10<<20:
		return "10M"
	case n == 10<<20+1:
		return "10M+1"
	case n < 1<<24:
		return "10M-16M"
	default:
		return ">=16M"
	}
}
