package main

import (
	"bytes"
	"compress/gzip"
	"encoding/binary"
	"encoding/json"
	"errors"
	"hash/fnv"
	"io"
	"math/rand/v2"

	"github.com/gotd/td/bin"
	"github.com/gotd/td/proto"

	"verif/harness/mon"
	"verif/harness/refmodel"
)

// Child side of C22: every handler runs the real proto.*.Decode on the single
// goroutine of a child process, inside the allocation meter, WITHOUT recover —
// a panic / fatal error kills the child and is classified by the parent.

const gzLimit = 10 << 20 // the documented decompression limit

// frResult is the observable outcome of one framing decode.
type frResult struct {
	Err      string `json:"err"`
	N        int    `json:"n"`         // messages decoded (container) / 1
	Consumed int    `json:"consumed"`  // bytes consumed from the buffer
	Hash     uint64 `json:"hash"`      // digest of the decoded content
	ID       int64  `json:"id"`        // msg id / req_msg_id
	BytesOK  bool   `json:"bytes_ok"`  // every Message.Bytes == len(Body) and within 0..1 MiB
	Alloc    uint64 `json:"alloc"`     // TotalAlloc delta of Decode
	Depth    int    `json:"depth"`     // nested containers: levels decoded
	MaxAlloc uint64 `json:"max_alloc"` // nested containers: largest single Decode
}

func hashBytes(b []byte) uint64 {
	h := fnv.New64a()
	h.Write(b)
	return h.Sum64()
}

func realMessagesHash(msgs []proto.Message) (uint64, bool) {
	ref := make([]refmodel.FrMessage, len(msgs))
	ok := true
	for i, m := range msgs {
		if m.Bytes != len(m.Body) || m.Bytes < 0 || m.Bytes > refmodel.MaxContainerBody || int(int32(m.SeqNo)) != m.SeqNo {
			ok = false
		}
		ref[i] = refmodel.FrMessage{ID: m.ID, SeqNo: int32(m.SeqNo), Body: m.Body}
	}
	return refmodel.FrMessagesHash(ref), ok
}

func errStr(err error) string {
	if err == nil {
		return ""
	}
	if s := err.Error(); s != "" {
		return s
	}
	return "error"
}

// framingChild: input[0] selects the decoder, the rest is the wire input.
func framingChild(input []byte) any {
	op, wire := input[0], input[1:]
	var res frResult
	switch op {
	case 'C':
		var m proto.MessageContainer
		b := &bin.Buffer{Buf: wire}
		var err error
		res.Alloc, _ = mon.MeasureAlloc(func() { err = m.Decode(b) })
		res.Err, res.N, res.Consumed = errStr(err), len(m.Messages), len(wire)-b.Len()
		res.Hash, res.BytesOK = realMessagesHash(m.Messages)
	case 'M':
		var m proto.Message
		b := &bin.Buffer{Buf: wire}
		var err error
		res.Alloc, _ = mon.MeasureAlloc(func() { err = m.Decode(b) })
		res.Err, res.N, res.Consumed, res.ID = errStr(err), 1, len(wire)-b.Len(), m.ID
		if err == nil {
			res.Hash, res.BytesOK = realMessagesHash([]proto.Message{m})
		}
	case 'U':
		var m proto.UnencryptedMessage
		b := &bin.Buffer{Buf: wire}
		var err error
		res.Alloc, _ = mon.MeasureAlloc(func() { err = m.Decode(b) })
		res.Err, res.N, res.Consumed, res.ID = errStr(err), 1, len(wire)-b.Len(), m.MessageID
		res.Hash, res.BytesOK = hashBytes(m.MessageData), true
	case 'R':
		var m proto.Result
		b := &bin.Buffer{Buf: wire}
		var err error
		res.Alloc, _ = mon.MeasureAlloc(func() { err = m.Decode(b) })
		res.Err, res.N, res.Consumed, res.ID = errStr(err), 1, len(wire)-b.Len(), m.RequestMessageID
		res.Hash, res.BytesOK = hashBytes(m.Result), true
	case 'N':
		// nested containers: u32 depth, then the innermost body. Built here (O(depth))
		// because every level is a pure prefix: container id, count 1, msg_id, seqno, bytes.
		depth := int(binary.LittleEndian.Uint32(wire))
		inner := wire[4:]
		cur := buildNested(depth, inner)
		res.BytesOK = true
		for {
			id, _, st := refmodel.TLUint32(cur)
			if st != refmodel.TLOk || id != refmodel.MsgContainerID {
				break
			}
			var m proto.MessageContainer
			b := &bin.Buffer{Buf: cur}
			var err error
			a, _ := mon.MeasureAlloc(func() { err = m.Decode(b) })
			if a > res.MaxAlloc {
				res.MaxAlloc = a
			}
			if err != nil {
				res.Err = errStr(err)
				break
			}
			if len(m.Messages) != 1 || b.Len() != 0 || m.Messages[0].ID != int64(res.Depth+1) || m.Messages[0].Bytes != len(m.Messages[0].Body) {
				res.BytesOK = false
				break
			}
			res.Depth++
			cur = m.Messages[0].Body
		}
		res.Hash = hashBytes(cur)
		res.N = len(cur)
	}
	return res
}

// buildNested returns `depth` containers around inner; level i (1 = outermost)
// carries msg_id i.
func buildNested(depth int, inner []byte) []byte {
	const hdr = 24
	out := make([]byte, 0, depth*hdr+len(inner))
	for i := 1; i <= depth; i++ {
		bodyLen := (depth-i)*hdr + len(inner)
		out = refmodel.TLPutUint32(out, refmodel.MsgContainerID)
		out = refmodel.TLPutInt(out, 1)
		out = refmodel.TLPutLong(out, int64(i))
		out = refmodel.TLPutInt(out, int32(2*i+1))
		out = refmodel.TLPutInt(out, int32(bodyLen))
	}
	return append(out, inner...)
}

// gzSpec describes one gzip_packed input; the child materialises it so that
// 100 MiB payloads never travel through the batch file.
type gzSpec struct {
	Name    string `json:"name"`
	Kind    string `json:"kind"` // zeros | random | mixed | text
	Size    int    `json:"size"` // bytes per member
	Seed    uint64 `json:"seed"`
	Members int    `json:"members"` // gzip members concatenated in the stream (>= 1)
	Level   int    `json:"level"`   // compress/gzip level
	Encoder string `json:"encoder"` // stdlib (reference framing) | real (proto.GZIP.Encode)
	CutMode string `json:"cut_mode,omitempty"` // "" | tail (drop CutN bytes of the stream) | permille (keep len*CutN/1000)
	CutN    int    `json:"cut_n,omitempty"`
	Corrupt string `json:"corrupt,omitempty"` // "" | crc | isize | magic | method | garbage-after | bitflip
	FlipAt  int    `json:"flip_at,omitempty"` // permille position of the flipped bit for bitflip
	TLCut   int    `json:"tl_cut,omitempty"`  // drop this many bytes from the end of the whole TL object
}

type gzResult struct {
	Name     string `json:"name"`
	Err      string `json:"err"`
	Bomb     bool   `json:"bomb"` // error is *proto.DecompressionBombErr
	OutLen   int    `json:"out_len"`
	Equal    bool   `json:"equal"`    // decoded data == the data that was compressed (all members)
	Expected int    `json:"expected"` // length of the original data
	CompLen  int    `json:"comp_len"` // length of the TL object fed to Decode
	Consumed int    `json:"consumed"`
	Alloc    uint64 `json:"alloc"`
	Bound    uint64 `json:"bound"`
	Calib    uint64 `json:"calib"` // allocation cost of io.ReadAll over 10 MiB in this process
	EncErr   string `json:"enc_err,omitempty"`
	// HistoryChanged: earlier decoded Data (kept alive in this process) whose
	// content differs from its digest at decode time, found after this decode.
	HistoryChanged []string `json:"history_changed,omitempty"`
}

type gzKept struct {
	name string
	data []byte
	sum  uint64
}

var gzHistory []gzKept

type zeroReader struct{}

func (zeroReader) Read(p []byte) (int, error) {
	clear(p)
	return len(p), nil
}

func genData(kind string, seed uint64, size int) []byte {
	r := rand.New(rand.NewPCG(seed, 0xC22))
	switch kind {
	case "zeros":
		return make([]byte, size)
	case "random":
		return randBytes(r, size)
	case "text":
		src := []byte("updates.difference new_messages:Vector<Message> other_updates:Vector<Update> chats:Vector<Chat> ")
		out := make([]byte, 0, size+len(src))
		for len(out) < size {
			out = append(out, src[r.IntN(len(src)-8):]...)
		}
		return out[:size]
	default: // mixed: runs of random and repeated bytes
		out := make([]byte, 0, size)
		for len(out) < size {
			n := 1 + r.IntN(8192)
			if n > size-len(out) {
				n = size - len(out)
			}
			if r.IntN(2) == 0 {
				out = append(out, randBytes(r, n)...)
			} else {
				out = append(out, bytes.Repeat([]byte{byte(r.Uint32())}, n)...)
			}
		}
		return out
	}
}

var gzCalib uint64

// calibrate measures what reading exactly the documented limit through
// io.ReadAll costs in this Go runtime (append growth), so the bound follows the
// runtime instead of a hard-coded factor.
func calibrate() uint64 {
	if gzCalib == 0 {
		gzCalib, _ = mon.MeasureAlloc(func() {
			d, _ := io.ReadAll(io.LimitReader(zeroReader{}, gzLimit))
			_ = d
		})
		if gzCalib < gzLimit {
			gzCalib = gzLimit
		}
	}
	return gzCalib
}

func runGz(s gzSpec) gzResult {
	res := gzResult{Name: s.Name, Calib: calibrate()}
	if s.Members < 1 {
		s.Members = 1
	}
	streamZeros := s.Kind == "zeros" && s.Size > 32<<20 && s.Encoder != "real"
	var data []byte
	if !streamZeros {
		data = genData(s.Kind, s.Seed, s.Size)
	}
	res.Expected = s.Size * s.Members
	var wire []byte
	if s.Encoder == "real" {
		var b bin.Buffer
		if err := (proto.GZIP{Data: data}).Encode(&b); err != nil {
			res.EncErr = err.Error()
			return res
		}
		wire = b.Buf
	} else {
		var stream bytes.Buffer
		for i := 0; i < s.Members; i++ {
			w, err := gzip.NewWriterLevel(&stream, s.Level)
			if err != nil {
				res.EncErr = err.Error()
				return res
			}
			if streamZeros {
				_, err = io.CopyN(w, zeroReader{}, int64(s.Size))
			} else {
				_, err = w.Write(data)
			}
			if err == nil {
				err = w.Close()
			}
			if err != nil {
				res.EncErr = err.Error()
				return res
			}
		}
		st := stream.Bytes()
		switch s.CutMode {
		case "tail":
			if s.CutN < len(st) {
				st = st[:len(st)-s.CutN]
			}
		case "permille":
			st = st[:len(st)*s.CutN/1000]
		}
		st = append([]byte(nil), st...)
		switch s.Corrupt {
		case "crc":
			st[len(st)-8] ^= 0x01
		case "isize":
			st[len(st)-4] ^= 0x01
		case "magic":
			st[0] ^= 0x01
		case "method":
			st[2] = 7
		case "garbage-after":
			st = append(st, 0xde, 0xad, 0xbe, 0xef, 1, 2, 3, 4, 5)
		case "bitflip":
			p := len(st) * s.FlipAt / 1000
			if p >= len(st) {
				p = len(st) - 1
			}
			st[p] ^= 1 << (s.Seed % 8)
		}
		if len(st) > refmodel.TLMaxBytes {
			res.EncErr = "stream longer than 2^24-1"
			return res
		}
		wire = refmodel.FrPutGzipPacked(nil, st)
	}
	if s.TLCut > 0 {
		cut := s.TLCut
		if cut >= len(wire) {
			cut = len(wire)/2 + 1
		}
		wire = wire[:len(wire)-cut]
	}
	res.CompLen = len(wire)
	res.Bound = 4*res.Calib + 4*uint64(len(wire)) + 4<<20
	var g proto.GZIP
	b := &bin.Buffer{Buf: wire}
	var err error
	res.Alloc, _ = mon.MeasureAlloc(func() { err = g.Decode(b) })
	res.Err, res.OutLen, res.Consumed = errStr(err), len(g.Data), len(wire)-b.Len()
	keptNow := gzHistory[:0]
	for _, k := range gzHistory {
		if hashBytes(k.data) != k.sum {
			res.HistoryChanged = append(res.HistoryChanged, k.name)
			continue
		}
		keptNow = append(keptNow, k)
	}
	gzHistory = keptNow
	if err == nil && len(g.Data) > 0 && len(g.Data) <= 1<<20 {
		gzHistory = append(gzHistory, gzKept{name: s.Name, data: g.Data, sum: hashBytes(g.Data)})
		if len(gzHistory) > histKeep {
			gzHistory = gzHistory[len(gzHistory)-histKeep:]
		}
	}
	var bomb *proto.DecompressionBombErr
	res.Bomb = errors.As(err, &bomb)
	if err != nil {
		res.OutLen = 0 // data of a failed decode is not "produced"; kept separately below
	}
	if err == nil {
		if len(g.Data) == res.Expected {
			res.Equal = true
			if streamZeros {
				for _, x := range g.Data {
					if x != 0 {
						res.Equal = false
						break
					}
				}
			} else {
				for i := 0; i < s.Members && res.Equal; i++ {
					res.Equal = bytes.Equal(g.Data[i*s.Size:(i+1)*s.Size], data)
				}
			}
		}
	}
	return res
}

// gzipChild: the input is a JSON list of specs decoded IN ORDER in one call, so
// that the pooled gzip reader of the previous decode is reused by the next.
func gzipChild(input []byte) any {
	var specs []gzSpec
	if err := json.Unmarshal(input, &specs); err != nil {
		return map[string]any{"harness_error": err.Error()}
	}
	out := make([]gzResult, 0, len(specs))
	for _, s := range specs {
		out = append(out, runGz(s))
	}
	return out
}

func registerC22Children() {
	mon.RegisterBatch("c22-framing", framingChild)
	mon.RegisterBatch("c22-gzip", gzipChild)
}
