package main

import (
	"bytes"
	"fmt"
	"runtime"
	"sync"

	"github.com/gotd/td/bin"
	"github.com/gotd/td/proto"

	"verif/harness/mon"
)

// History monitor: a value handed out by Decode belongs to the caller. The last
// few decoded values are kept alive (the very slices Decode returned plus a
// private copy taken at that moment) and re-compared after every later
// Encode/Decode: a decoder that returns memory it still owns (pooled scratch
// buffers, reused receivers it keeps a reference to) is caught when the next
// operation overwrites it. Receivers the harness itself reuses (Result /
// UnencryptedMessage decode into `[:0]` of their own field by contract) are
// never put into the history.

type histEntry struct {
	typ, info  string
	live, copy [][]byte
}

type history struct {
	entries  []histEntry
	rechecks int
}

const histKeep = 8

func (h *history) keep(typ, info string, slices ...[]byte) {
	e := histEntry{typ: typ, info: info}
	for _, s := range slices {
		e.live = append(e.live, s)
		e.copy = append(e.copy, append([]byte(nil), s...))
	}
	h.entries = append(h.entries, e)
	if len(h.entries) > histKeep {
		h.entries = h.entries[len(h.entries)-histKeep:]
	}
}

// check re-compares every kept value; a changed one is reported once and dropped.
func (h *history) check(c *mon.Ctx, after string) {
	kept := h.entries[:0]
	for _, e := range h.entries {
		changed := -1
		for i := range e.live {
			if !bytes.Equal(e.live[i], e.copy[i]) {
				changed = i
				break
			}
		}
		h.rechecks++
		if changed < 0 {
			kept = append(kept, e)
			continue
		}
		c.Violate("history|earlier-decoded-value-changed|"+e.typ, map[string]any{
			"decoded_by": e.info, "changed_after": after, "slice_index": changed, "len": len(e.copy[changed]),
			"at_decode_time": hx(e.copy[changed]), "now": hx(e.live[changed]),
		})
	}
	h.entries = kept
}

// concurrent: goroutines doing encode -> decode round trips of different
// payloads at the same time (mtproto handles every incoming message on its own
// goroutine while the writer encodes). Each compares immediately, again after
// yielding, and keeps a private history re-checked after its next operations.
func (m *c22) concurrent() {
	c := m.c
	const workers = 6
	iters := c.N(250, 20000)
	var wg sync.WaitGroup
	var mu sync.Mutex
	done := 0
	for g := 0; g < workers; g++ {
		wg.Add(1)
		go func(g int) {
			defer wg.Done()
			r := c.RandN("c22/concurrent", g)
			var h history
			for i := 0; i < iters; i++ {
				size := 1 + r.IntN(3000)
				if r.IntN(10) == 0 {
					size = 1 + r.IntN(200000)
				}
				payload := genData([]string{"text", "mixed", "random"}[r.IntN(3)], r.Uint64(), size)
				payload[0] = byte(g) // differs between goroutines
				typ := []string{"gzip", "gzip", "container", "rpc-result", "unencrypted"}[r.IntN(5)]
				var got [][]byte
				var want [][]byte
				var err error
				pv, stack := mon.Try(func() {
					var b bin.Buffer
					switch typ {
					case "gzip":
						if err = (proto.GZIP{Data: payload}).Encode(&b); err != nil {
							return
						}
						var d proto.GZIP
						err = d.Decode(&bin.Buffer{Buf: b.Buf})
						got, want = [][]byte{d.Data}, [][]byte{payload}
					case "container":
						half := len(payload) / 2
						in := proto.MessageContainer{Messages: []proto.Message{
							{ID: int64(i), SeqNo: 1, Bytes: half, Body: payload[:half]},
							{ID: int64(i) + 1, SeqNo: 3, Bytes: len(payload) - half, Body: payload[half:]},
						}}
						if err = in.Encode(&b); err != nil {
							return
						}
						var d proto.MessageContainer
						if err = d.Decode(&bin.Buffer{Buf: b.Buf}); err != nil || len(d.Messages) != 2 {
							if err == nil {
								err = fmt.Errorf("decoded %d messages", len(d.Messages))
							}
							return
						}
						got, want = [][]byte{d.Messages[0].Body, d.Messages[1].Body}, [][]byte{payload[:half], payload[half:]}
					case "rpc-result":
						in := proto.Result{RequestMessageID: int64(i), Result: payload}
						if err = in.Encode(&b); err != nil {
							return
						}
						var d proto.Result
						err = d.Decode(&bin.Buffer{Buf: b.Buf})
						got, want = [][]byte{d.Result}, [][]byte{payload}
					case "unencrypted":
						in := proto.UnencryptedMessage{MessageID: int64(i), MessageData: payload}
						if err = in.Encode(&b); err != nil {
							return
						}
						var d proto.UnencryptedMessage
						err = d.Decode(&bin.Buffer{Buf: b.Buf})
						got, want = [][]byte{d.MessageData}, [][]byte{payload}
					}
				})
				c.Eval(1)
				w := map[string]any{"goroutine": g, "iteration": i, "type": typ, "payload_len": len(payload), "err": fmt.Sprint(err)}
				if pv != nil {
					w["panic"], w["stack"] = fmt.Sprint(pv), stack
					c.Violate("panic|concurrent-roundtrip-"+typ, w)
					continue
				}
				if err != nil {
					c.Violate("concurrent|roundtrip-error|"+typ, w)
					continue
				}
				same := func() bool {
					for k := range got {
						if !bytes.Equal(got[k], want[k]) {
							return false
						}
					}
					return true
				}
				if !same() {
					c.Violate("concurrent|roundtrip-differs|"+typ, w)
					continue
				}
				runtime.Gosched()
				if !same() {
					c.Violate("history|earlier-decoded-value-changed|"+typ, w)
					continue
				}
				h.check(c, fmt.Sprintf("goroutine %d: %s round trip", g, typ))
				h.keep(typ, fmt.Sprintf("goroutine %d iteration %d (concurrent arm)", g, i), got...)
			}
			h.check(c, "end of goroutine")
			mu.Lock()
			done += iters
			mu.Unlock()
		}(g)
	}
	wg.Wait()
	c.Set("concurrent_roundtrips", fmt.Sprintf("%d goroutines x %d", workers, iters))
	c.Distinct("concurrent/workers=6")
	if done != workers*iters {
		c.Inconclusive("concurrent arm did not complete")
	}
}
