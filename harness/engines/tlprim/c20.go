package main

import (
	"bytes"
	"fmt"
	"math"
	"math/rand/v2"

	"github.com/gotd/td/bin"

	"verif/harness/mon"
	"verif/harness/refmodel"
)

// C20: every TL primitive encodes 4-byte aligned, equal to the reference
// encoding, decodes back to the same value consuming exactly its encoding, and
// decoding arbitrary bytes as any primitive never panics and errors on short /
// malformed input.

type kind int

const (
	kInt kind = iota
	kInt32
	kUint32
	kID
	kFields
	kLong
	kInt53
	kUint64
	kDouble
	kBool
	kInt128
	kInt128Obj
	kInt256
	kInt256Obj
	kString
	kBytes
	kVector
	numKinds
)

var kindName = [...]string{"int", "int32", "uint32", "id", "fields", "long", "int53", "uint64", "double", "bool",
	"int128", "int128obj", "int256", "int256obj", "string", "bytes", "vector"}

func (k kind) String() string { return kindName[k] }

// val is one primitive value: scalars (incl. bool 0/1, double bits, vector
// count) in u, byte-valued kinds in raw.
type val struct {
	k   kind
	u   uint64
	raw []byte
}

func (v val) eq(o val) bool { return v.k == o.k && v.u == o.u && bytes.Equal(v.raw, o.raw) }

func (v val) witness() map[string]any {
	return map[string]any{"kind": v.k.String(), "u": fmt.Sprintf("%#x", v.u), "raw_len": len(v.raw), "raw": hx(v.raw)}
}

// realPut encodes v with the real bin.Buffer API.
func realPut(b *bin.Buffer, v val) error {
	switch v.k {
	case kInt:
		b.PutInt(int(int32(v.u)))
	case kInt32:
		b.PutInt32(int32(v.u))
	case kUint32:
		b.PutUint32(uint32(v.u))
	case kID:
		b.PutID(uint32(v.u))
	case kFields:
		return bin.Fields(uint32(v.u)).Encode(b)
	case kLong:
		b.PutLong(int64(v.u))
	case kInt53:
		b.PutInt53(int64(v.u))
	case kUint64:
		b.PutUint64(v.u)
	case kDouble:
		b.PutDouble(math.Float64frombits(v.u))
	case kBool:
		b.PutBool(v.u != 0)
	case kInt128:
		var x bin.Int128
		copy(x[:], v.raw)
		b.PutInt128(x)
	case kInt128Obj:
		var x bin.Int128
		copy(x[:], v.raw)
		return b.Encode(x)
	case kInt256:
		var x bin.Int256
		copy(x[:], v.raw)
		b.PutInt256(x)
	case kInt256Obj:
		var x bin.Int256
		copy(x[:], v.raw)
		return b.Encode(x)
	case kString:
		b.PutString(string(v.raw))
	case kBytes:
		b.PutBytes(v.raw)
	case kVector:
		b.PutVectorHeader(int(int32(v.u)))
	}
	return nil
}

// realGet decodes one value of kind k with the real bin.Buffer API.
func realGet(b *bin.Buffer, k kind) (val, error) {
	out := val{k: k}
	var err error
	switch k {
	case kInt:
		var x int
		x, err = b.Int()
		out.u = uint64(uint32(int32(x)))
		if err == nil && int(int32(x)) != x {
			out.u = math.MaxUint64 // out of int32 range: can never equal a reference value
		}
	case kInt32:
		var x int32
		x, err = b.Int32()
		out.u = uint64(uint32(x))
	case kUint32:
		var x uint32
		x, err = b.Uint32()
		out.u = uint64(x)
	case kID:
		var x uint32
		x, err = b.ID()
		out.u = uint64(x)
	case kFields:
		var f bin.Fields
		err = f.Decode(b)
		out.u = uint64(uint32(f))
	case kLong:
		var x int64
		x, err = b.Long()
		out.u = uint64(x)
	case kInt53:
		var x int64
		x, err = b.Int53()
		out.u = uint64(x)
	case kUint64:
		out.u, err = b.Uint64()
	case kDouble:
		var x float64
		x, err = b.Double()
		out.u = math.Float64bits(x)
	case kBool:
		var x bool
		x, err = b.Bool()
		if x {
			out.u = 1
		}
	case kInt128:
		var x bin.Int128
		x, err = b.Int128()
		out.raw = append([]byte(nil), x[:]...)
	case kInt128Obj:
		var x bin.Int128
		err = b.Decode(&x)
		out.raw = append([]byte(nil), x[:]...)
	case kInt256:
		var x bin.Int256
		x, err = b.Int256()
		out.raw = append([]byte(nil), x[:]...)
	case kInt256Obj:
		var x bin.Int256
		err = b.Decode(&x)
		out.raw = append([]byte(nil), x[:]...)
	case kString:
		var s string
		s, err = b.String()
		out.raw = []byte(s)
	case kBytes:
		out.raw, err = b.Bytes()
		if out.raw == nil {
			out.raw = []byte{}
		}
	case kVector:
		var n int
		n, err = b.VectorHeader()
		out.u = uint64(uint32(int32(n)))
		if err == nil && (n < 0 || n > math.MaxInt32) {
			out.u = math.MaxUint64
		}
	}
	if err != nil {
		return val{k: k}, err
	}
	return out, nil
}

// refPut encodes v with the reference codec.
func refPut(dst []byte, v val) []byte {
	switch v.k {
	case kInt, kInt32, kUint32, kID, kFields:
		return refmodel.TLPutUint32(dst, uint32(v.u))
	case kLong, kInt53, kUint64:
		return refmodel.TLPutUint64(dst, v.u)
	case kDouble:
		return refmodel.TLPutDouble(dst, math.Float64frombits(v.u))
	case kBool:
		return refmodel.TLPutBool(dst, v.u != 0)
	case kInt128, kInt128Obj, kInt256, kInt256Obj:
		return refmodel.TLPutRaw(dst, v.raw)
	case kString, kBytes:
		return refmodel.TLPutBytes(dst, v.raw)
	case kVector:
		return refmodel.TLPutVectorHeader(dst, int32(v.u))
	}
	panic("kind")
}

// refGet decodes one value of kind k with the reference codec.
func refGet(b []byte, k kind) (val, int, refmodel.TLStatus) {
	out := val{k: k}
	var n int
	var st refmodel.TLStatus
	switch k {
	case kInt, kInt32, kUint32, kID, kFields:
		var x uint32
		x, n, st = refmodel.TLUint32(b)
		out.u = uint64(x)
	case kLong, kInt53, kUint64, kDouble:
		out.u, n, st = refmodel.TLUint64(b)
	case kBool:
		var x bool
		x, n, st = refmodel.TLBool(b)
		if x {
			out.u = 1
		}
	case kInt128, kInt128Obj:
		out.raw, n, st = refmodel.TLRaw(b, 16)
	case kInt256, kInt256Obj:
		out.raw, n, st = refmodel.TLRaw(b, 32)
	case kString, kBytes:
		out.raw, n, st = refmodel.TLBytes(b)
	case kVector:
		var x int32
		x, n, st = refmodel.TLVectorHeader(b)
		out.u = uint64(uint32(x))
	}
	if st == refmodel.TLShort || st == refmodel.TLMalformed {
		return val{k: k}, 0, st
	}
	return out, n, st
}

type c20 struct {
	c     *mon.Ctx
	tail  []byte
	dirty dirtyBuf
	nvals int
}

// checkDirty encodes v into reused dirty buffers (Reset() and bin.Pool) and
// requires the same bytes as the reference encoding.
func (m *c20) checkDirty(class string, v val, want []byte) {
	c := m.c
	variants := []string{"reset"}
	if len(want) <= 4096 {
		variants = append(variants, "pool")
	}
	for _, variant := range variants {
		var b *bin.Buffer
		if variant == "reset" {
			b = m.dirty.reset(len(want))
		} else {
			b = m.dirty.pooled(len(want))
		}
		c.Eval(1)
		var perr error
		pv, stack := mon.Try(func() { perr = realPut(b, v) })
		if pv != nil || perr != nil {
			c.Violate("encode|dirty-buffer-failed|"+v.k.String(), map[string]any{"class": class, "variant": variant, "value": v.witness(), "panic": fmt.Sprint(pv), "stack": stack, "err": fmt.Sprint(perr)})
			return
		}
		if !bytes.Equal(b.Buf, want) {
			c.Violate("encode|dirty-buffer-differs-from-reference|"+v.k.String(), map[string]any{"class": class, "variant": variant, "value": v.witness(),
				"encoded_len": len(b.Buf), "encoded": hx(b.Buf), "reference_len": len(want), "reference": hx(want)})
		}
		c.Add("dirty_buffer_encodes", 1)
	}
}

var prefixVariants = [...]string{"put", "uint16", "expand", "resetn", "resetto"}

// checkPrefixed appends v to a buffer that already holds `prefix` bytes written
// through `variant` (Put(raw) / PutUint16 / Expand / ResetN / ResetTo on an
// unaligned sub-slice). The bytes THIS call appends must be the reference
// encoding of the value alone (so 4-byte aligned whatever precedes it) and must
// decode, starting at the value's first byte, to the same value with exact
// consumption, also when another value follows.
func (m *c20) checkPrefixed(class string, v val, want []byte, prefix int, variant string) {
	c := m.c
	if variant == "uint16" && prefix%2 != 0 {
		variant = "put"
	}
	b := &bin.Buffer{}
	switch variant {
	case "put":
		raw := make([]byte, prefix)
		for i := range raw {
			raw[i] = 0xC0 | byte(i+1)
		}
		b.Put(raw)
	case "uint16":
		for i := 0; i < prefix/2; i++ {
			b.PutUint16(0xBEEF)
		}
	case "expand":
		b.Expand(prefix)
	case "resetn":
		b.Buf = make([]byte, 0, 64)
		b.ResetN(prefix)
	case "resetto":
		back := bytes.Repeat([]byte{0xEE}, prefix+3+len(want)+16)
		b.ResetTo(back[3 : 3+prefix]) // unaligned sub-slice, spare capacity behind it
	}
	if b.Len() != prefix {
		c.Inconclusive(fmt.Sprintf("prefix variant %s produced %d bytes, wanted %d", variant, b.Len(), prefix))
		return
	}
	c.Eval(1)
	var perr error
	pv, stack := mon.Try(func() {
		perr = realPut(b, v)
		if perr == nil {
			b.PutLong(0x1122334455667788) // a following value
		}
	})
	w := func() map[string]any {
		return map[string]any{"class": class, "value": v.witness(), "prefix_len": prefix, "prefix_via": variant,
			"buffer": hx(b.Buf), "reference_len": len(want), "reference": hx(want)}
	}
	if pv != nil || perr != nil {
		ww := w()
		ww["panic"], ww["stack"], ww["err"] = fmt.Sprint(pv), stack, fmt.Sprint(perr)
		c.Violate("encode|after-prefix-failed|"+v.k.String(), ww)
		return
	}
	appended := len(b.Buf) - prefix - 8
	switch {
	case appended < 0 || appended%4 != 0:
		ww := w()
		ww["appended"] = appended
		c.Violate("encode|after-unaligned-prefix-not-4-byte-aligned|"+v.k.String(), ww)
		return
	case !bytes.Equal(b.Buf[prefix:prefix+appended], want):
		ww := w()
		ww["appended"] = appended
		c.Violate("encode|after-prefix-differs-from-reference|"+v.k.String(), ww)
		return
	}
	rb := &bin.Buffer{Buf: b.Buf[prefix:]}
	var got val
	var err, lerr error
	var next int64
	if pv, stack := mon.Try(func() {
		got, err = realGet(rb, v.k)
		if err == nil {
			next, lerr = rb.Long()
		}
	}); pv != nil {
		ww := w()
		ww["panic"], ww["stack"] = fmt.Sprint(pv), stack
		c.Violate("panic|decode-after-prefix-"+v.k.String(), ww)
		return
	}
	if err != nil || !got.eq(v) || lerr != nil || next != 0x1122334455667788 || rb.Len() != 0 {
		ww := w()
		ww["err"], ww["decoded"], ww["following_long"], ww["following_err"], ww["left"] = fmt.Sprint(err), got.witness(), fmt.Sprintf("%#x", next), fmt.Sprint(lerr), rb.Len()
		c.Violate("decode|after-prefix-roundtrip-differs|"+v.k.String(), ww)
	}
	c.Add("prefixed_encodes", 1)
	if prefix%4 != 0 {
		c.Distinct(fmt.Sprintf("prefix/%s/%s/p%%4=%d/%s", v.k, variant, prefix%4, sizeClass(len(v.raw))))
	}
}

// checkValue: encode with the real code, compare with the reference encoding,
// check alignment, decode exactly and with a sentinel tail.
func (m *c20) checkValue(class string, v val) {
	c := m.c
	c.Eval(1)
	var b bin.Buffer
	var perr error
	if pv, stack := mon.Try(func() { perr = realPut(&b, v) }); pv != nil {
		c.Violate("panic|encode-"+v.k.String(), map[string]any{"class": class, "value": v.witness(), "panic": fmt.Sprint(pv), "stack": stack})
		return
	}
	if perr != nil {
		c.Violate("encode-error|"+v.k.String(), map[string]any{"class": class, "value": v.witness(), "err": perr.Error()})
		return
	}
	enc := b.Buf
	w := func() map[string]any {
		return map[string]any{"class": class, "value": v.witness(), "encoded_len": len(enc), "encoded": hx(enc)}
	}
	if len(enc)%4 != 0 {
		c.Violate("unaligned|"+v.k.String(), w())
	}
	want := refPut(nil, v)
	if !bytes.Equal(enc, want) {
		ww := w()
		ww["reference_len"], ww["reference"] = len(want), hx(want)
		c.Violate("encoding-differs-from-reference|"+v.k.String(), ww)
	}
	m.checkDirty(class, v, want)
	m.nvals++
	m.checkPrefixed(class, v, want, 1+m.nvals%7, prefixVariants[m.nvals%len(prefixVariants)])
	for pass := 0; pass < 2; pass++ {
		in := enc[:len(enc):len(enc)] // decoding only reslices, it never writes
		if pass == 1 {
			in = append(append(make([]byte, 0, len(enc)+len(m.tail)), enc...), m.tail...)
		}
		rb := &bin.Buffer{Buf: in}
		var got val
		var err error
		if pv, stack := mon.Try(func() { got, err = realGet(rb, v.k) }); pv != nil {
			ww := w()
			ww["panic"], ww["stack"] = fmt.Sprint(pv), stack
			c.Violate("panic|decode-"+v.k.String(), ww)
			return
		}
		switch {
		case err != nil:
			ww := w()
			ww["err"], ww["with_tail"] = err.Error(), pass == 1
			c.Violate("roundtrip-error|"+v.k.String(), ww)
		case !got.eq(v):
			ww := w()
			ww["decoded"], ww["with_tail"] = got.witness(), pass == 1
			c.Violate("roundtrip-differs|"+v.k.String(), ww)
		case pass == 0 && rb.Len() != 0:
			ww := w()
			ww["left"] = rb.Len()
			c.Violate("under-consumed|"+v.k.String(), ww)
		case pass == 1 && !bytes.Equal(rb.Buf, m.tail):
			ww := w()
			ww["left"], ww["tail"] = rb.Len(), len(m.tail)
			c.Violate("consumed-not-exactly-encoding|"+v.k.String(), ww)
		case pass == 1 && (v.k == kBytes || v.k == kString) && len(v.raw) <= 1<<20:
			// Bytes() documents "returning value is a copy, it's safe to modify it"
			// and String() returns an immutable string: the buffer the value was
			// decoded from is the caller's to overwrite afterwards (pooled read
			// buffers are). `in` is a private copy here.
			var held string
			if v.k == kString {
				held, _ = (&bin.Buffer{Buf: in}).String() // keep the string itself, not a copy of it
			}
			for i := range in {
				in[i] ^= 0x5A
			}
			if !got.eq(v) || (v.k == kString && held != string(v.raw)) {
				ww := w()
				ww["decoded_now"] = got.witness()
				c.Violate("history|earlier-decoded-value-changed|"+v.k.String(), ww)
			}
			c.Add("decoded_value_rechecked_after_input_overwrite", 1)
		}
	}
	switch v.k {
	case kString, kBytes:
		c.Distinct(fmt.Sprintf("val/%s/%s/len%%4=%d/%s", v.k, sizeClass(len(v.raw)), len(v.raw)%4, class))
	default:
		c.Distinct(fmt.Sprintf("val/%s/%s", v.k, class))
	}
}

// checkTuple: values encoded back to back into one buffer (after an aligned
// prefix), compared with the reference concatenation, decoded in order.
func (m *c20) checkTuple(vals []val, prefix []byte) {
	c := m.c
	c.Eval(len(vals))
	b := bin.Buffer{Buf: append([]byte(nil), prefix...)}
	want := append([]byte(nil), prefix...)
	ends := make([]int, len(vals))
	desc := func() map[string]any {
		var ks []string
		for _, v := range vals {
			ks = append(ks, fmt.Sprintf("%s:%#x:%d", v.k, v.u, len(v.raw)))
		}
		return map[string]any{"tuple": ks, "prefix": len(prefix), "encoded": hx(b.Buf)}
	}
	for i, v := range vals {
		var perr error
		if pv, stack := mon.Try(func() { perr = realPut(&b, v) }); pv != nil || perr != nil {
			w := desc()
			w["panic"], w["stack"], w["err"] = fmt.Sprint(pv), stack, fmt.Sprint(perr)
			c.Violate("tuple-encode-failed|"+v.k.String(), w)
			return
		}
		want = refPut(want, v)
		ends[i] = len(want)
		if len(b.Buf)%4 != 0 {
			w := desc()
			w["after"] = i
			c.Violate("tuple-unaligned|"+v.k.String(), w)
			return
		}
	}
	if !bytes.Equal(b.Buf, want) {
		w := desc()
		w["reference"] = hx(want)
		c.Violate("tuple-encoding-differs-from-reference", w)
		return
	}
	// the same tuple into a reused dirty buffer (no prefix)
	{
		db := m.dirty.reset(len(want))
		if pv, _ := mon.Try(func() {
			for _, v := range vals {
				_ = realPut(db, v)
			}
		}); pv != nil || !bytes.Equal(db.Buf, want[len(prefix):]) {
			w := desc()
			w["panic"], w["dirty_encoded"], w["reference"] = fmt.Sprint(pv), hx(db.Buf), hx(want[len(prefix):])
			c.Violate("encode|dirty-buffer-differs-from-reference|tuple", w)
		}
		c.Add("dirty_buffer_encodes", 1)
	}
	rb := &bin.Buffer{Buf: append([]byte(nil), b.Buf[len(prefix):]...)}
	total := rb.Len()
	for i, v := range vals {
		var got val
		var err error
		if pv, stack := mon.Try(func() { got, err = realGet(rb, v.k) }); pv != nil {
			w := desc()
			w["panic"], w["stack"], w["at"] = fmt.Sprint(pv), stack, i
			c.Violate("panic|tuple-decode-"+v.k.String(), w)
			return
		}
		if err != nil || !got.eq(v) {
			w := desc()
			w["at"], w["err"], w["decoded"] = i, fmt.Sprint(err), got.witness()
			c.Violate("tuple-roundtrip-differs|"+v.k.String(), w)
			return
		}
		if consumed := total - rb.Len(); consumed != ends[i]-len(prefix) {
			w := desc()
			w["at"], w["consumed"], w["expected"] = i, consumed, ends[i]-len(prefix)
			c.Violate("tuple-consumed-wrong|"+v.k.String(), w)
			return
		}
	}
	if rb.Len() != 0 {
		w := desc()
		w["left"] = rb.Len()
		c.Violate("tuple-leftover", w)
	}
	if len(vals) >= 2 {
		c.Distinct(fmt.Sprintf("tuple/%s>%s", vals[0].k, vals[1].k))
	}
}

// checkHostile decodes input as every primitive kind and compares the outcome
// with the reference classification.
func (m *c20) checkHostile(class string, input []byte) {
	c := m.c
	for k := kind(0); k < numKinds; k++ {
		if len(input) > 1<<20 && k != kString && k != kBytes {
			continue // fixed-size kinds read at most 32 bytes: nothing new in a huge input
		}
		c.Eval(1)
		want, wn, st := refGet(input, k)
		rb := &bin.Buffer{Buf: input[:len(input):len(input)]} // decoding only reslices
		var got val
		var err error
		w := func() map[string]any {
			return map[string]any{"class": class, "decode_as": k.String(), "input_len": len(input), "input": hx(input),
				"reference": st.String(), "err": fmt.Sprint(err), "consumed": len(input) - rb.Len()}
		}
		if pv, stack := mon.Try(func() { got, err = realGet(rb, k) }); pv != nil {
			ww := w()
			ww["panic"], ww["stack"] = fmt.Sprint(pv), stack
			c.Violate("panic|decode-"+k.String(), ww)
			continue
		}
		consumed := len(input) - rb.Len()
		if consumed < 0 {
			c.Violate("buffer-grew|"+k.String(), w())
			continue
		}
		switch st {
		case refmodel.TLOk:
			switch {
			case err != nil:
				c.Violate("valid-rejected|"+k.String(), w())
			case !got.eq(want):
				ww := w()
				ww["decoded"], ww["expected"] = got.witness(), want.witness()
				c.Violate("decode-differs-from-reference|"+k.String(), ww)
			case consumed != wn:
				ww := w()
				ww["expected_consumed"] = wn
				c.Violate("consumed-wrong|"+k.String(), ww)
			}
		case refmodel.TLShort:
			if err == nil {
				ww := w()
				ww["decoded"] = got.witness()
				c.Violate("short-input-accepted|"+k.String(), ww)
			} else if consumed != 0 {
				c.Add("consumed_on_error", 1)
			}
		case refmodel.TLMalformed:
			if err == nil {
				ww := w()
				ww["decoded"] = got.witness()
				c.Violate("malformed-input-accepted|"+k.String(), ww)
			} else if consumed != 0 {
				c.Add("consumed_on_error", 1)
			}
		case refmodel.TLNonCanonical:
			// Non-zero padding / long form for a short string: the statement does not
			// say whether these are "malformed"; accept either outcome, but a
			// successful decode must be the lenient reading.
			if err == nil {
				c.Add("noncanonical_accepted", 1)
				if !got.eq(want) || consumed != wn {
					ww := w()
					ww["decoded"], ww["expected"], ww["expected_consumed"] = got.witness(), want.witness(), wn
					c.Violate("noncanonical-misread|"+k.String(), ww)
				}
			} else {
				c.Add("noncanonical_rejected", 1)
			}
		}
		c.Distinct(fmt.Sprintf("hostile/%s/%s/%s", k, st, class))
	}
	if len(input) <= 1<<20 {
		m.checkPeekConsume(class, input)
	}
}

// checkPeekConsume covers PeekID / ConsumeID / PeekN / ConsumeN.
func (m *c20) checkPeekConsume(class string, input []byte) {
	c := m.c
	first, _, st := refmodel.TLUint32(input)
	for _, id := range []uint32{first, first ^ 1, refmodel.TLVectorID} {
		c.Eval(1)
		rb := &bin.Buffer{Buf: append([]byte(nil), input...)}
		var perr, cerr error
		var peek uint32
		pv, stack := mon.Try(func() {
			peek, perr = rb.PeekID()
			if rb.Len() != len(input) {
				panic("verif: PeekID consumed")
			}
			cerr = rb.ConsumeID(id)
		})
		w := map[string]any{"class": class, "input": hx(input), "id": id, "peek_err": fmt.Sprint(perr), "consume_err": fmt.Sprint(cerr)}
		if pv != nil {
			w["panic"], w["stack"] = fmt.Sprint(pv), stack
			c.Violate("panic|peek-consume-id", w)
			continue
		}
		consumed := len(input) - rb.Len()
		switch {
		case st == refmodel.TLShort && (perr == nil || cerr == nil):
			c.Violate("short-input-accepted|peek-consume-id", w)
		case st == refmodel.TLOk && (perr != nil || peek != first):
			c.Violate("peek-id-wrong", w)
		case st == refmodel.TLOk && id == first && (cerr != nil || consumed != 4):
			c.Violate("consume-id-rejected-match", w)
		case st == refmodel.TLOk && id != first && (cerr == nil || consumed != 0):
			c.Violate("consume-id-accepted-mismatch", w)
		}
	}
	for _, n := range []int{0, 1, len(input) - 1, len(input), len(input) + 1, len(input) + 64} {
		if n < 0 {
			continue
		}
		c.Eval(1)
		rb := &bin.Buffer{Buf: append([]byte(nil), input...)}
		target := make([]byte, n)
		var perr, cerr error
		pv, stack := mon.Try(func() {
			perr = rb.PeekN(target, n)
			if rb.Len() != len(input) {
				panic("verif: PeekN consumed")
			}
			cerr = rb.ConsumeN(target, n)
		})
		w := map[string]any{"class": class, "input": hx(input), "n": n, "peek_err": fmt.Sprint(perr), "consume_err": fmt.Sprint(cerr)}
		if pv != nil {
			w["panic"], w["stack"] = fmt.Sprint(pv), stack
			c.Violate("panic|peek-consume-n", w)
			continue
		}
		consumed := len(input) - rb.Len()
		if n > len(input) {
			if perr == nil || cerr == nil || consumed != 0 {
				c.Violate("short-input-accepted|consume-n", w)
			}
		} else if perr != nil || cerr != nil || consumed != n || !bytes.Equal(target, input[:n]) {
			c.Violate("consume-n-wrong", w)
		}
	}
	c.Distinct("hostile/peek-consume/" + st.String() + "/" + class)
}

// fill produces string contents: random bytes (mostly invalid UTF-8), zeros,
// 0xFF, 0xFE, valid multi-byte UTF-8.
func fill(r *rand.Rand, n, mode int) []byte {
	switch mode % 5 {
	case 0:
		return randBytes(r, n)
	case 1:
		return make([]byte, n)
	case 2:
		return bytes.Repeat([]byte{0xFF}, n)
	case 3:
		return bytes.Repeat([]byte{0xFE}, n)
	default:
		src := []byte("héllo, мир, 世界 — \x00\U0001F600 ")
		out := make([]byte, 0, n+len(src))
		for len(out) < n {
			out = append(out, src...)
		}
		return out[:n]
	}
}

var fillName = [...]string{"random", "zeros", "ff", "fe", "utf8"}

func randScalar(r *rand.Rand, k kind) (val, string) {
	v := val{k: k}
	class := "random"
	switch k {
	case kInt, kInt32, kUint32, kID, kFields:
		x := randInt32(r)
		v.u = uint64(uint32(x))
		if x == 0 || x == -1 || x == math.MaxInt32 || x == math.MinInt32 {
			class = "boundary"
		}
	case kLong, kInt53, kUint64:
		x := randInt64(r)
		v.u = uint64(x)
		if x == 0 || x == -1 || x == math.MaxInt64 || x == math.MinInt64 {
			class = "boundary"
		}
	case kDouble:
		switch r.IntN(8) {
		case 0: // NaN with arbitrary payload and sign, quiet or signalling
			v.u = 0x7FF0000000000000 | (r.Uint64() & 0x800FFFFFFFFFFFFF)
			if v.u&0x000FFFFFFFFFFFFF == 0 {
				v.u |= 1
			}
			class = "nan"
		case 1:
			specials := []float64{0, math.Copysign(0, -1), math.Inf(1), math.Inf(-1), math.MaxFloat64, math.SmallestNonzeroFloat64, 1, -1, math.Pi}
			v.u = math.Float64bits(specials[r.IntN(len(specials))])
			class = "special"
		case 2: // subnormal
			v.u = r.Uint64() & 0x800FFFFFFFFFFFFF
			class = "subnormal"
		default:
			v.u = r.Uint64()
			if math.IsNaN(math.Float64frombits(v.u)) {
				class = "nan"
			}
		}
	case kBool:
		v.u = uint64(r.IntN(2))
		class = fmt.Sprint(v.u == 1)
	case kInt128, kInt128Obj:
		v.raw = fill(r, 16, r.IntN(4))
	case kInt256, kInt256Obj:
		v.raw = fill(r, 32, r.IntN(4))
	case kVector:
		counts := []int32{0, 1, 2, 1023, 1024, 1025, math.MaxInt32, 1 << 24}
		if r.IntN(2) == 0 {
			v.u = uint64(counts[r.IntN(len(counts))])
			class = "boundary"
		} else {
			v.u = uint64(r.Uint32() >> 1)
		}
	}
	return v, class
}

var tupleLens = []int{0, 1, 2, 3, 4, 5, 7, 8, 252, 253, 254, 255, 256, 257, 1023, 1024}

func randTupleVal(r *rand.Rand) val {
	k := kind(r.IntN(int(numKinds)))
	if k == kString || k == kBytes {
		var n int
		switch r.IntN(10) {
		case 0, 1, 2:
			n = tupleLens[r.IntN(len(tupleLens))]
		case 3:
			n = r.IntN(70000)
		default:
			n = r.IntN(300)
		}
		return val{k: k, raw: fill(r, n, r.IntN(5))}
	}
	v, _ := randScalar(r, k)
	return v
}

func runC20(c *mon.Ctx) {
	c.Rule("Values: string and bytes of EVERY length 0..1030 x 5 contents (random incl. invalid UTF-8, zeros, 0xFF, 0xFE, multi-byte UTF-8) and lengths 2^k-1, 2^k, 2^k+1 up to 2^24-1; " +
		"int/int32/uint32/id/fields/long/int53/uint64/double (NaN payloads, subnormals, compared by bits)/bool/int128/int256 (methods and Encoder objects)/vector headers from boundary+random pools. " +
		"Each value: real Put* vs reference encoding (spec transcription), length%4, real decode exact and with a 12-byte sentinel tail (must stay untouched); " +
		"every value is ALSO appended after a prefix of 1..7 bytes (0..7 x every length 0..1030 for string/bytes) written via Put(raw)/PutUint16/Expand/ResetN/ResetTo(unaligned sub-slice): the appended bytes must equal the reference encoding of the value alone and decode from the value's first byte with exact consumption and an intact following long; " +
		"every value and tuple is ALSO encoded into reused dirty buffers (backing array pre-filled with non-zero bytes, Reset(), spare capacity; and bin.Pool Get after a dirty Put) and must give the same bytes as the reference. " +
		"Tuples: 1..12 random primitives back to back after an aligned prefix, reference concatenation, decoded in order, per-value consumption, empty at end. " +
		"Hostile: every truncation of valid encodings, first byte 254 with short tails / lengths beyond the buffer, first byte 255, non-zero padding, wrong/negative vector headers, unknown Bool ids, random bytes; " +
		"each input decoded as EVERY primitive kind under panic capture, outcome compared with the reference classification (ok / short / malformed must agree; non-canonical may go either way). " +
		"distinct non-trivial = (kind, length class, length mod 4, content) for values, (first two kinds) for tuples, (kind, reference status, input class) for hostile inputs")
	c.Assume("harness/refmodel/tl_prim.go is a faithful transcription of core.telegram.org/mtproto/serialize; non-canonical encodings (non-zero padding, long form for L<254) are not treated as 'malformed'")
	c.Assume("strings/bytes of 2^24 bytes and more are outside the statement (3-byte length) and are not generated")
	m := &c20{c: c, tail: []byte{0xA5, 0x5A, 0xFE, 0xFF, 0x15, 0xC4, 0xB5, 0x1C, 0x00, 0x00, 0x00, 0x01}}

	// A: exhaustive length sweep
	r := c.Rand("c20/sweep")
	for l := 0; l <= 1030; l++ {
		for mode := 0; mode < 5; mode++ {
			for _, k := range []kind{kString, kBytes} {
				v := val{k: k, raw: fill(r, l, mode)}
				m.checkValue(fillName[mode], v)
				if mode == 0 || mode == 3 {
					want := refPut(nil, v)
					for p := 0; p <= 7; p++ {
						m.checkPrefixed(fillName[mode], v, want, p, "put")
						m.checkPrefixed(fillName[mode], v, want, p, prefixVariants[1+(l+p)%4])
					}
				}
			}
		}
	}
	c.Set("length_sweep", "0..1030 exhaustive x 5 contents x {string,bytes}")
	maxK := c.N(24, 24)
	bigs := 0
	for k := 1; k <= maxK; k++ {
		for _, d := range []int{-1, 0, 1} {
			l := 1<<k + d
			if l > refmodel.TLMaxBytes || l <= 1030 {
				continue
			}
			mode := (k + d + 1) % 5
			// quick: both kinds and all three lengths up to 2^20; above that one
			// length per k with alternating kind, and 2^24-1 with both kinds
			kinds := []kind{kString, kBytes}
			if c.Quick() && k > 16 && l != refmodel.TLMaxBytes {
				if k > 20 && (k != 22 || d != 1) {
					continue // quick: above 2^20 only 2^22+1 and (both kinds) 2^24-1
				}
				kinds = kinds[(k+d+1)%2 : (k+d+1)%2+1]
			}
			for _, kk := range kinds {
				m.checkValue(fillName[mode], val{k: kk, raw: fill(r, l, mode)})
				bigs++
			}
		}
	}
	c.Set("power_of_two_lengths_checked", bigs)
	for i, n := 0, c.N(40, 2000); i < n; i++ {
		l := 1031 + r.IntN(c.N(60000, 200000))
		if i%20 == 19 {
			l = 1031 + r.IntN(c.N(1<<20, refmodel.TLMaxBytes-1031))
		}
		mode := r.IntN(5)
		m.checkValue(fillName[mode], val{k: kString + kind(i%2), raw: fill(r, l, mode)})
	}

	// B: scalars
	r = c.Rand("c20/scalars")
	for i, n := 0, c.N(120000, 40000000); i < n; i++ {
		k := kind(i % int(numKinds))
		if k == kString || k == kBytes {
			continue
		}
		v, class := randScalar(r, k)
		m.checkValue(class, v)
		if i < 40 {
			c.Sample("scalar", v.witness())
		}
	}
	for _, x := range extremes32 {
		for _, k := range []kind{kInt, kInt32, kUint32, kID, kFields} {
			m.checkValue("boundary", val{k: k, u: uint64(uint32(x))})
		}
	}
	for _, x := range extremes64 {
		for _, k := range []kind{kLong, kInt53, kUint64, kDouble} {
			m.checkValue("boundary", val{k: k, u: uint64(x)})
		}
	}

	// C: concatenations
	r = c.Rand("c20/tuples")
	for i, n := 0, c.N(20000, 8000000); i < n; i++ {
		vals := make([]val, 1+r.IntN(12))
		for j := range vals {
			vals[j] = randTupleVal(r)
		}
		m.checkTuple(vals, randBytes(r, 4*r.IntN(3)))
		if i < 2 {
			var ks []string
			for _, v := range vals {
				ks = append(ks, fmt.Sprintf("%s(len %d)", v.k, len(v.raw)))
			}
			c.Sample("tuple", ks)
		}
	}

	// D: hostile decode
	r = c.Rand("c20/hostile")
	hostile := 0
	h := func(class string, in []byte) { m.checkHostile(class, in); hostile++ }
	// D1 truncations of valid encodings (every prefix)
	var valids []val
	for _, l := range []int{0, 1, 2, 3, 4, 5, 6, 7, 8, 251, 252, 253, 254, 255, 256, 257, 258, 300, 1000} {
		valids = append(valids, val{k: kString, raw: fill(r, l, 0)}, val{k: kBytes, raw: fill(r, l, 3)})
	}
	for k := kind(0); k < numKinds; k++ {
		if k != kString && k != kBytes {
			v, _ := randScalar(r, k)
			valids = append(valids, v)
		}
	}
	valids = append(valids, val{k: kBool, u: 0}, val{k: kBool, u: 1}, val{k: kVector, u: 0}, val{k: kVector, u: math.MaxInt32})
	for _, v := range valids {
		enc := refPut(nil, v)
		for cut := 0; cut <= len(enc); cut++ {
			class := "truncated-" + v.k.String()
			if cut == len(enc) {
				class = "intact-" + v.k.String()
			}
			h(class, enc[:cut])
		}
		c.Sample("truncation-base", map[string]any{"kind": v.k.String(), "raw_len": len(v.raw), "encoded_len": len(enc)})
	}
	// D2 long form: declared length vs available bytes
	for _, l := range []int{0, 1, 3, 253, 254, 255, 256, 257, 1000, 65535, 65536, 1 << 20, refmodel.TLMaxBytes} {
		padded := (4 + l + 3) / 4 * 4
		for _, avail := range []int{1, 2, 3, 4, 5, 4 + l - 1, 4 + l, padded - 1, padded, padded + 4} {
			if avail < 1 || (l > 1<<16 && avail > 8 && c.Quick() && avail != padded && avail != 4+l-1) {
				continue
			}
			in := make([]byte, avail)
			copy(in, []byte{254, byte(l), byte(l >> 8), byte(l >> 16)})
			for i := 4; i < avail && i < 4+l; i++ {
				in[i] = byte(i*7 + 1)
			}
			h(fmt.Sprintf("long-form/declared-%s", sizeClass(l)), in)
		}
	}
	// D3 first byte 255 and short form with missing bytes / padding
	for _, total := range []int{1, 2, 3, 4, 5, 8, 100, 254, 255, 256, 257, 258, 259, 260, 264, 512} {
		in := fill(r, total, 0)
		in[0] = 255
		h("first-byte-255", in)
		in2 := bytes.Repeat([]byte{255}, total)
		h("first-byte-255", in2)
	}
	for l := 0; l <= 253; l++ {
		padded := (1 + l + 3) / 4 * 4
		for _, avail := range []int{l, l + 1, padded - 1, padded} {
			if avail < 1 {
				continue
			}
			in := fill(r, avail, 0)
			in[0] = byte(l)
			for i := 1 + l; i < avail; i++ {
				in[i] = 0
			}
			h("short-form/missing-bytes", in)
		}
	}
	// D4 non-zero padding
	for _, l := range []int{0, 1, 2, 4, 5, 6, 252, 253, 254, 255, 256, 1000} {
		base := refPut(nil, val{k: kBytes, raw: fill(r, l, 0)})
		hdr := 1
		if l >= 254 {
			hdr = 4
		}
		for p := hdr + l; p < len(base); p++ {
			in := append([]byte(nil), base...)
			in[p] = 1 + byte(r.IntN(255))
			h("nonzero-padding", in)
		}
	}
	// D5 vector headers and Bool ids
	for _, id := range []uint32{refmodel.TLVectorID, refmodel.TLVectorID ^ 1, refmodel.TLVectorID ^ 0x80000000, 0x15c4b51c, refmodel.TLBoolTrue, refmodel.TLBoolFalse, 0, 0xFFFFFFFF} {
		for _, n := range []int32{-1, math.MinInt32, math.MaxInt32, 0, 1, -2, 1 << 30} {
			in := refmodel.TLPutInt(refmodel.TLPutUint32(nil, id), n)
			class := "vector-header"
			if id == refmodel.TLVectorID && n < 0 {
				class = "vector-negative-count"
			} else if id != refmodel.TLVectorID {
				class = "vector-wrong-id"
			}
			h(class, in)
			h(class+"-truncated", in[:4+r.IntN(4)])
		}
	}
	for _, id := range []uint32{refmodel.TLBoolTrue, refmodel.TLBoolFalse, refmodel.TLBoolTrue ^ 1, refmodel.TLBoolFalse ^ 0x01000000, 0xb5757299, 0x379779bc, 0, 1} {
		h("bool-id", refmodel.TLPutUint32(nil, id))
	}
	// D6 random bytes
	firsts := []byte{0, 1, 3, 252, 253, 254, 255}
	for i, n := 0, c.N(6000, 2500000); i < n; i++ {
		l := r.IntN(80)
		if r.IntN(8) == 0 {
			l = r.IntN(600)
		}
		in := randBytes(r, l)
		class := "random"
		if l > 0 && r.IntN(3) == 0 {
			in[0] = firsts[r.IntN(len(firsts))]
			class = "random-first-byte-forced"
		}
		h(class, in)
		if i < 3 {
			c.Sample("hostile-random", hx(in))
		}
	}
	c.Set("hostile_inputs", hostile)
	c.Set("dirty_pool_reuse", fmt.Sprintf("%d of %d bin.Pool Get calls returned the dirty buffer just Put", m.dirty.PoolReused, m.dirty.PoolGets))
	if m.dirty.PoolReused == 0 {
		c.Inconclusive("bin.Pool never handed back the dirty buffer: pooled-reuse arm not observed")
	}
	c.Set("kinds_decoded_per_hostile_input", int(numKinds))
	if hostile == 0 || c.DistinctCount() < 50 {
		c.Inconclusive("too few cases observed")
	}
}
