package main

import (
	"fmt"
	"math/rand/v2"
	"os"
	"runtime"
	"sort"
	"strings"
	"sync"
	"sync/atomic"
	"time"
)

// action is one step of the schedule controller.
type action struct {
	Op  string // start ack res err wrong cancel close travel rel
	I   int    // call index
	P   string // rel: park key
	Arg int    // travel: milliseconds; rel: outcome (0 ok, 1 fail)
}

func (a action) String() string {
	switch a.Op {
	case "rel":
		s := "rel:" + a.P
		if a.Arg >= 1 {
			_, label := sendFailure(a.Arg)
			s += ":" + label
		}
		return s
	case "travel":
		return fmt.Sprintf("travel:%d", a.Arg)
	case "close", "wrong":
		return a.Op
	case "ack":
		if a.P != "" && a.P != "-" {
			return fmt.Sprintf("ack:%d:%s", a.I, a.P)
		}
	}
	return fmt.Sprintf("%s:%d", a.Op, a.I)
}

// budget bounds the stimuli the controller may issue in one schedule.
type budget struct {
	Start    []bool // calls the controller may start (others are reserved for probes)
	Ack      []int
	Res      []int
	Err      []int
	Cancel   []int
	Close    int
	Wrong    int
	Travel   int
	TravelMs []int // durations offered
	SendFail int
	// SendFailKinds: failure kinds offered when a parked send is released with a
	// failure (nil: plain error only).
	SendFailKinds []int
	// AckShapes: batch layouts offered for every ack (nil: the single-id batch).
	AckShapes []string
	// CancelEarly allows cancelling a context before its Do was started.
	CancelEarly bool
	// LateRes allows result notifications after the call returned.
	LateRes bool
}

func (b *budget) clone() *budget {
	c := *b
	c.Start = append([]bool(nil), b.Start...)
	c.Ack = append([]int(nil), b.Ack...)
	c.Res = append([]int(nil), b.Res...)
	c.Err = append([]int(nil), b.Err...)
	c.Cancel = append([]int(nil), b.Cancel...)
	return &c
}

func fullBudget(n int) *budget {
	b := &budget{}
	for i := 0; i < n; i++ {
		b.Start = append(b.Start, true)
		b.Ack = append(b.Ack, 0)
		b.Res = append(b.Res, 0)
		b.Err = append(b.Err, 0)
		b.Cancel = append(b.Cancel, 0)
	}
	return b
}

// result of one executed schedule
type result struct {
	Family   string
	Index    int
	Cfg      worldCfg
	Actions  []string
	Events   []event
	Settled  bool              // every step was followed by an exact settle
	Incon    string            // non-empty: harness could not conclude (watchdog)
	Stranded map[string]string // actor name -> stack, after drain
	HookHit  map[string]int
	Probes   []string
}

type runner struct {
	w       *world
	b       *budget
	acts    []string
	incon   string
	started []bool
}

func newRunner(cfg worldCfg, b *budget) *runner {
	return &runner{w: newWorld(cfg), b: b.clone(), started: make([]bool, len(cfg.Calls))}
}

func (r *runner) returned(i int) bool {
	r.w.mu.Lock()
	defer r.w.mu.Unlock()
	for k := len(r.w.log) - 1; k >= 0; k-- {
		e := r.w.log[k]
		if e.T == "do.ret" && e.C == i {
			return true
		}
	}
	return false
}

func (r *runner) enabled() []action {
	var out []action
	b := r.b
	for i := range r.started {
		if !r.started[i] {
			if b.Start[i] {
				out = append(out, action{Op: "start", I: i})
			}
			if b.CancelEarly && b.Cancel[i] > 0 {
				out = append(out, action{Op: "cancel", I: i})
			}
			continue
		}
		ret := r.returned(i)
		if !ret {
			if b.Ack[i] > 0 {
				if len(b.AckShapes) == 0 {
					out = append(out, action{Op: "ack", I: i, P: "-"})
				}
				for _, sh := range b.AckShapes {
					out = append(out, action{Op: "ack", I: i, P: sh})
				}
			}
			if b.Err[i] > 0 {
				out = append(out, action{Op: "err", I: i})
			}
			if b.Cancel[i] > 0 {
				out = append(out, action{Op: "cancel", I: i})
			}
		}
		if b.Res[i] > 0 && (!ret || b.LateRes) {
			out = append(out, action{Op: "res", I: i})
		}
	}
	if b.Close > 0 {
		out = append(out, action{Op: "close"})
	}
	if b.Wrong > 0 {
		out = append(out, action{Op: "wrong"})
	}
	if b.Travel > 0 {
		for _, ms := range b.TravelMs {
			out = append(out, action{Op: "travel", Arg: ms})
		}
	}
	for _, p := range r.w.parkedSnapshot() {
		out = append(out, action{Op: "rel", I: p.a.call, P: p.key()})
		if p.point == "send" && b.SendFail > 0 {
			if len(b.SendFailKinds) == 0 {
				out = append(out, action{Op: "rel", I: p.a.call, P: p.key(), Arg: 1})
			}
			for _, kd := range b.SendFailKinds {
				out = append(out, action{Op: "rel", I: p.a.call, P: p.key(), Arg: kd})
			}
		}
	}
	sort.SliceStable(out, func(i, j int) bool { return out[i].String() < out[j].String() })
	return out
}

const wrongMsgID = 0x7eadbeef

var traceActions = os.Getenv("RPCMON_TRACE") != ""

func (r *runner) exec(a action) {
	w := r.w
	b := r.b
	r.acts = append(r.acts, a.String())
	if traceActions {
		fmt.Fprintln(os.Stderr, "exec", a.String())
	}
	switch a.Op {
	case "start":
		r.started[a.I] = true
		w.start(a.I)
	case "ack":
		b.Ack[a.I]--
		w.ackBatch(a.I, a.P)
	case "res":
		b.Res[a.I]--
		w.notifyResult(a.I, w.calls[a.I].cfg.MsgID, a.I)
	case "err":
		b.Err[a.I]--
		w.notifyError(a.I, w.calls[a.I].cfg.MsgID)
	case "wrong":
		b.Wrong--
		w.notifyResult(-1, wrongMsgID, -7)
		w.notifyError(-1, wrongMsgID+1)
		w.ev("ack.call", -1, 0, "unknown ids, empty and nil batches")
		w.eng.NotifyAcks([]int64{wrongMsgID + 2})
		w.eng.NotifyAcks(nil)
		w.eng.NotifyAcks([]int64{})
		w.eng.NotifyAcks([]int64{wrongMsgID + 3, wrongMsgID + 4, wrongMsgID + 3})
	case "cancel":
		b.Cancel[a.I]--
		w.cancelCall(a.I)
	case "close":
		b.Close--
		w.forceClose()
	case "travel":
		b.Travel--
		w.travel(time.Duration(a.Arg) * time.Millisecond)
	case "rel":
		for _, p := range w.parkedSnapshot() {
			if p.key() == a.P {
				if a.Arg >= 1 {
					b.SendFail--
				}
				w.release(p, a.Arg)
				break
			}
		}
	}
}

func (r *runner) settle() bool {
	if r.incon != "" {
		return false
	}
	if err := r.w.settle(); err != nil {
		r.incon = "settle watchdog fired (goroutines kept running for 60 s)"
		return false
	}
	return true
}

// probes executed after the drain
type probes struct {
	LateRes     bool // a result for every started call after everything returned
	PostCloseDo bool // start the last (reserved) call after ForceClose returned
}

// finish drains the world: all gates open, ForceClose, then every goroutine of
// the world must have exited. The stranded verdict is taken from goroutine
// dumps of a settled world (all remaining goroutines blocked, no gate closed,
// no stimulus pending), not from a timeout.
func (r *runner) finish(family string, index int, settled bool, pr probes) *result {
	w := r.w
	w.releaseAll()
	r.settle()
	w.forceClose()
	r.settle()
	res := &result{Family: family, Index: index, Cfg: w.cfg, Settled: settled}
	if r.incon == "" {
		res.Stranded = r.strandedInEngine()
	}
	if r.incon == "" && res.Stranded == nil {
		if pr.LateRes {
			for i := range r.started {
				if r.started[i] {
					res.Probes = append(res.Probes, fmt.Sprintf("late-res:%d", i))
					w.notifyResult(i, w.calls[i].cfg.MsgID, i)
				}
			}
			r.settle()
		}
		if last := len(r.started) - 1; pr.PostCloseDo && !r.started[last] {
			res.Probes = append(res.Probes, fmt.Sprintf("post-close-do:%d", last))
			r.started[last] = true
			w.start(last)
			r.settle()
			if r.incon == "" {
				res.Stranded = r.strandedInEngine()
			}
		}
	}
	if res.Stranded != nil {
		// free the goroutines we can (cancel every context) so they do not pile up
		for _, c := range w.calls {
			c.cancel()
		}
	}
	res.Actions = r.acts
	res.Events = w.events()
	res.Incon = r.incon
	w.mu.Lock()
	res.HookHit = map[string]int{}
	for k, v := range w.hookHit {
		res.HookHit[k] = v
	}
	w.mu.Unlock()
	return res
}

// strandedInEngine returns the world goroutines that are still alive after the
// drain AND parked inside the rpc engine (their stack has a gotd/td/rpc frame),
// seen unchanged in two consecutive settled dumps with no event in between. A
// goroutine that is alive but not inside the engine (finishing in harness code,
// waiting for a harness mutex) is transient: the dump is retried, and if it never
// goes away the run is inconclusive — never a stranded verdict.
func (r *runner) strandedInEngine() map[string]string {
	w := r.w
	var prev map[string]string
	prevEvents := -1
	for try := 0; try < 400; try++ {
		r.settle()
		if r.incon != "" {
			return nil
		}
		a := w.alive()
		if len(a) == 0 {
			return nil
		}
		n := len(w.events())
		allInEngine := true
		for _, st := range a {
			if topEngineFrame(st) == "?" {
				allInEngine = false
				break
			}
		}
		if allInEngine && prev != nil && n == prevEvents && len(prev) == len(a) {
			same := true
			for k := range a {
				if _, ok := prev[k]; !ok {
					same = false
				}
			}
			if same {
				return a
			}
		}
		if allInEngine {
			prev, prevEvents = a, n
		} else {
			prev, prevEvents = nil, -1
			time.Sleep(time.Millisecond)
		}
	}
	r.incon = "world goroutines outside the engine did not exit after the drain"
	return nil
}

// chooser picks the next action (-1 ends the schedule).
type chooser func(step int, en []action) int

func runScheduleFrom(family string, index int, cfg worldCfg, b *budget, pre []string, maxSteps int, pr probes, ch chooser) (*result, []int) {
	r := newRunner(cfg, b)
	r.script(pre)
	var branching []int
	for step := 0; step < maxSteps && r.incon == ""; step++ {
		en := r.enabled()
		if len(en) == 0 {
			break
		}
		k := ch(step, en)
		if k < 0 {
			break
		}
		branching = append(branching, len(en))
		r.exec(en[k%len(en)])
		r.settle()
	}
	return r.finish(family, index, true, pr), branching
}

// script executes a fixed list of action strings; an action that is not
// enabled when its turn comes is skipped (recorded with a leading '!'). A
// trailing '~' issues the next action without settling in between.
func (r *runner) script(script []string) (settled bool) {
	settled = true
	for _, want := range script {
		if r.incon != "" {
			break
		}
		noSettle := strings.HasSuffix(want, "~")
		want = strings.TrimSuffix(want, "~")
		found := false
		for _, a := range r.enabled() {
			if a.String() == want {
				r.exec(a)
				found = true
				break
			}
		}
		if !found {
			r.acts = append(r.acts, "!"+want)
			continue
		}
		if noSettle {
			settled = false
		} else {
			r.settle()
		}
	}
	return settled
}

func runScript(family string, index int, cfg worldCfg, b *budget, script []string, pr probes) *result {
	r := newRunner(cfg, b)
	settled := r.script(script)
	return r.finish(family, index, settled, pr)
}

// enumerate explores every choice sequence (stateless DFS with an odometer over
// the recorded branching factors) up to maxRuns executions. Returns the number
// of executions and whether the space was exhausted.
func enumerate(maxDepth, maxRuns int, run func(idx int, choices []int) (branching []int)) (int, bool) {
	var prefix []int
	for n := 0; n < maxRuns; n++ {
		full := append([]int(nil), prefix...)
		br := run(n, full)
		for len(full) < len(br) {
			full = append(full, 0)
		}
		full = full[:len(br)]
		p := len(full) - 1
		for ; p >= 0; p-- {
			if full[p]%br[p]+1 < br[p] {
				break
			}
		}
		if p < 0 {
			return n + 1, true
		}
		prefix = append(full[:p:p], full[p]%br[p]+1)
	}
	return maxRuns, false
}

// pctChooser: random priorities per action label; at a few change points the
// priority of the action that would have been chosen drops below all others.
func pctChooser(rng *rand.Rand, maxSteps, changes int, stopP float64) chooser {
	prio := map[string]float64{}
	cp := map[int]bool{}
	for i := 0; i < changes; i++ {
		cp[rng.IntN(maxSteps)] = true
	}
	return func(step int, en []action) int {
		if step > 2 && rng.Float64() < stopP {
			return -1
		}
		best, bi := -1.0, 0
		for i, a := range en {
			s := a.String()
			p, ok := prio[s]
			if !ok {
				p = 1 + rng.Float64()
				prio[s] = p
			}
			if p > best {
				best, bi = p, i
			}
		}
		if cp[step] {
			prio[en[bi].String()] = rng.Float64() * 0.5
		}
		return bi
	}
}

// --------------------------------------------------------------------------- free running

type jitter struct {
	ctr  atomic.Uint64
	seed uint64
}

func (j *jitter) next() uint64 {
	x := j.ctr.Add(0x9e3779b97f4a7c15) + j.seed
	x ^= x >> 30
	x *= 0xbf58476d1ce4e5b9
	x ^= x >> 27
	x *= 0x94d049bb133111eb
	x ^= x >> 31
	return x
}

func (j *jitter) yield() {
	switch v := j.next() % 16; {
	case v < 6:
	case v < 12:
		runtime.Gosched()
	case v < 15:
		for i := 0; i < int(v); i++ {
			runtime.Gosched()
		}
	default:
		time.Sleep(time.Duration(j.next()%50) * time.Microsecond)
	}
}

// runFree starts every call and lets per-call stimulus goroutines and a global
// one (clock travel, ForceClose) run without any gate; hook points and the
// decoder only yield randomly. Verdicts come from the event log and the race
// detector.
func runFree(family string, index int, cfg worldCfg, rng *rand.Rand, pr probes) *result {
	cfg.Gate = gating{Jitter: true}
	r := newRunner(cfg, fullBudget(len(cfg.Calls)))
	w := r.w
	j := &jitter{seed: rng.Uint64()}
	w.jit = j.yield
	n := cfg.N
	type step struct {
		op string
		i  int
		ms int
		sh string
	}
	plans := make([][]step, n+1)
	for i := 0; i < n; i++ {
		ops := []string{"ack", "res", "res", "err", "cancel", "yield", "yield"}
		rng.Shuffle(len(ops), func(a, b int) { ops[a], ops[b] = ops[b], ops[a] })
		for _, o := range ops[:2+rng.IntN(len(ops)-2)] {
			st := step{op: o, i: i}
			if o == "ack" {
				st.sh = ackShapes[rng.IntN(len(ackShapes))]
			}
			plans[i] = append(plans[i], st)
		}
	}
	for k := rng.IntN(5); k > 0; k-- {
		plans[n] = append(plans[n], step{op: "travel", ms: int(cfg.RetryInterval/time.Millisecond) / (1 + rng.IntN(2))})
	}
	if rng.IntN(2) == 0 {
		at := rng.IntN(len(plans[n]) + 1)
		plans[n] = append(plans[n][:at:at], append([]step{{op: "close"}}, plans[n][at:]...)...)
	}
	if rng.IntN(3) == 0 {
		plans[n] = append(plans[n], step{op: "wrong"})
	}
	var mu sync.Mutex
	var wg sync.WaitGroup
	for i := 0; i < n; i++ {
		r.started[i] = true
		w.start(i)
	}
	for pi := range plans {
		wg.Add(1)
		go func(p []step) {
			defer wg.Done()
			for _, s := range p {
				j.yield()
				mu.Lock()
				r.acts = append(r.acts, fmt.Sprintf("%s:%d%s", s.op, s.i, s.sh))
				mu.Unlock()
				switch s.op {
				case "ack":
					w.ackBatch(s.i, s.sh)
				case "res":
					w.notifyResult(s.i, w.calls[s.i].cfg.MsgID, s.i)
				case "err":
					w.notifyError(s.i, w.calls[s.i].cfg.MsgID)
				case "cancel":
					w.cancelCall(s.i)
				case "travel":
					w.travel(time.Duration(s.ms) * time.Millisecond)
				case "close":
					w.forceClose()
				case "wrong":
					w.notifyResult(-1, wrongMsgID, -7)
				}
			}
		}(plans[pi])
	}
	wg.Wait()
	return r.finish(family, index, false, pr)
}
