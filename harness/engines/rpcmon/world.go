package main

import (
	"bytes"
	"context"
	"errors"
	"fmt"
	"runtime"
	"runtime/debug"
	"strconv"
	"strings"
	"sync"
	"sync/atomic"
	"time"

	"github.com/gotd/neo"

	"github.com/gotd/td/bin"
	"github.com/gotd/td/clock"
	"github.com/gotd/td/rpc"
	"github.com/gotd/td/verifhook"
)

// ---------------------------------------------------------------------------
// Events: everything is recorded at the boundary (harness-owned send function,
// Output decoder, drop handler, clock, notifications issued by the harness, Do
// call / return) plus the verifhook points. One mutex, one logical counter.

type event struct {
	Seq int    // logical time
	T   string // kind
	C   int    // call index (-1: none)
	K   int    // per-kind argument (transmission index, payload name, outcome ...)
	S   string // free text (return class, hook point ...)
	Now int64  // fake clock, milliseconds since world start
}

func (e event) String() string {
	s := fmt.Sprintf("%d %s", e.Seq, e.T)
	if e.C >= 0 {
		s += fmt.Sprintf(" c%d", e.C)
	}
	if e.K != 0 {
		s += fmt.Sprintf(" k=%d", e.K)
	}
	if e.S != "" {
		s += " " + e.S
	}
	return s + fmt.Sprintf(" @%d", e.Now)
}

// Sentinel errors owned by the harness.
var (
	errSendFail = errors.New("harness: send failed")
	// send failures that carry a context error although the call's context is
	// alive (a transport with its own deadline / shutdown): the engine treats
	// context.Canceled from a retransmission differently from other errors
	errSendCanceled = &injectedErr{"canceled", context.Canceled}
	errSendDeadline = &injectedErr{"deadline", context.DeadlineExceeded}
	errDecode       = errors.New("harness: decode failed")
	errDrop         = errors.New("harness: drop failed")
)

type injectedErr struct {
	kind string
	base error
}

func (e *injectedErr) Error() string { return "harness: send failed: " + e.base.Error() }
func (e *injectedErr) Unwrap() error { return e.base }

// sendFailure maps a failure kind (1 plain, 2 context.Canceled, 3 DeadlineExceeded)
// to the error returned by the send fake and its event label.
func sendFailure(kind int) (error, string) {
	switch kind {
	case 2:
		return errSendCanceled, "fail-canceled"
	case 3:
		return errSendDeadline, "fail-deadline"
	}
	return errSendFail, "fail"
}

// ctlCtx is the caller's context of one call. The schedule controller ends it
// deterministically, as a cancellation or as an expired deadline. It implements
// the AfterFunc method the context package looks for, so derived contexts
// (context.WithCancel in the engine) are cancelled synchronously inside fire()
// without any helper goroutine: settling stays exact.
type ctlCtx struct {
	mu    sync.Mutex
	done  chan struct{}
	err   error
	funcs map[int]func()
	next  int
}

func newCtlCtx() *ctlCtx { return &ctlCtx{done: make(chan struct{}), funcs: map[int]func(){}} }

func (c *ctlCtx) Deadline() (time.Time, bool) { return time.Time{}, false }
func (c *ctlCtx) Done() <-chan struct{}       { return c.done }
func (c *ctlCtx) Value(any) any               { return nil }
func (c *ctlCtx) Err() error {
	c.mu.Lock()
	defer c.mu.Unlock()
	return c.err
}

// AfterFunc registers f to run when the context ends (context.afterFuncer).
func (c *ctlCtx) AfterFunc(f func()) (stop func() bool) {
	c.mu.Lock()
	if c.err != nil {
		// already ended (only reachable when fire() races with the registration in
		// free-running schedules): like context.AfterFunc, run f in its own
		// goroutine; the caller holds the child's mutex, so never call f inline.
		c.mu.Unlock()
		go f()
		return func() bool { return false }
	}
	id := c.next
	c.next++
	c.funcs[id] = f
	c.mu.Unlock()
	return func() bool {
		c.mu.Lock()
		defer c.mu.Unlock()
		_, ok := c.funcs[id]
		delete(c.funcs, id)
		return ok
	}
}

func (c *ctlCtx) fire(err error) {
	c.mu.Lock()
	if c.err != nil {
		c.mu.Unlock()
		return
	}
	c.err = err
	close(c.done)
	fs := c.funcs
	c.funcs = map[int]func(){}
	c.mu.Unlock()
	for _, f := range fs {
		f()
	}
}

type rpcError struct{ call int }

func (e *rpcError) Error() string { return fmt.Sprintf("harness rpc error for call %d", e.call) }

// ---------------------------------------------------------------------------
// Actors: harness goroutines that execute real engine code.

type actor struct {
	w    *world
	kind string // "do" | "notify" | "close"
	call int    // do: call index; notify: target call index (-1 wrong id)
	goid int64
	name string // unique, e.g. "res0#3"
	base string // without the counter, e.g. "res0"
}

// park is a goroutine held by the schedule controller at a boundary fake or a
// hook point.
type park struct {
	a     *actor
	point string // "send" | "decode" | "drop" | "rpc.handler.enter" | "rpc.retry.done" | "rpc.ctxdone"
	k     int
	ch    chan int // release with outcome
}

func (p *park) key() string { return p.a.base + "@" + p.point }

// gating profile of one schedule
type gating struct {
	Send    bool            // every send parks until released
	Decode  bool            // every Output.Decode parks
	Drop    bool            // every drop handler call parks
	Hooks   map[string]bool // hook points that park
	Jitter  bool            // free-running mode: random yields at hooks instead of parking
	HoldFor map[string]bool // optional restriction: only actors with these names park (nil = all)
}

type callCfg struct {
	MsgID         int64
	SeqNo         int32
	DecodeFail    bool
	FailSendAt    int  // transmission index that fails when sends are not gated (-1 none)
	EndByDeadline bool // the "cancel" stimulus ends the caller's context with DeadlineExceeded instead of Canceled
	FailKind      int  // 0/1 plain error, 2 context.Canceled, 3 context.DeadlineExceeded (context of the call NOT done)
	DropFail      bool
	Out           int // output index (calls created by redo share the output of their parent)
}

type worldCfg struct {
	N             int
	RetryInterval time.Duration
	MaxRetries    int
	SendHonorsCtx bool
	Gate          gating
	Calls         []callCfg
}

type callState struct {
	cfg     callCfg
	ctx     *ctlCtx
	cancel  func() // ends the context as a plain cancellation (clean-up paths)
	started bool
	act     *actor
	sends   int // send.enter count
}

type output struct {
	w    *world
	id   int
	val  int64        // PLAIN field written by Decode and read by the caller after Do returns (C24 runs)
	aval atomic.Int64 // same, race-free: used by the C25/C26 runs so that the C24 observation is not re-reported there
}

// plainOutput selects the plain field (set once by runC24 before any world exists).
var plainOutput bool

func (o *output) store(v int64) {
	if plainOutput {
		o.val = v
	} else {
		o.aval.Store(v)
	}
}

func (o *output) load() int64 {
	if plainOutput {
		return o.val
	}
	return o.aval.Load()
}

type world struct {
	cfg worldCfg
	eng *rpc.Engine
	nt  *neo.Time
	t0  time.Time

	mu      sync.Mutex
	seq     int
	log     []event
	actors  []*actor
	parked  []*park
	passAll bool // drain mode: nothing parks any more
	calls   []*callState
	outs    []*output
	hookHit map[string]int
	nNotify int
	jit     func() // jitter function for free-running mode

	unknownCtr atomic.Int64

	closeStarted bool
}

// global goroutine id -> actor map used by the verifhook callback and fakes.
var actorByGoid sync.Map

func init() { verifhook.Set(hookDispatch) }

func hookDispatch(point string) {
	v, ok := actorByGoid.Load(goid())
	if !ok {
		return
	}
	a := v.(*actor)
	a.w.atHook(a, point)
}

func goid() int64 {
	var b [48]byte
	n := runtime.Stack(b[:], false)
	// "goroutine 123 [running]:"
	s := b[10:n]
	i := bytes.IndexByte(s, ' ')
	if i < 0 {
		return -1
	}
	id, _ := strconv.ParseInt(string(s[:i]), 10, 64)
	return id
}

func newWorld(cfg worldCfg) *world {
	w := &world{cfg: cfg, hookHit: map[string]int{}}
	w.t0 = time.Date(2024, 1, 1, 0, 0, 0, 0, time.UTC)
	w.nt = neo.NewTime(w.t0)
	for i := range cfg.Calls {
		ctx := newCtlCtx()
		w.calls = append(w.calls, &callState{cfg: cfg.Calls[i], ctx: ctx, cancel: func() { ctx.fire(context.Canceled) }})
	}
	for i := range cfg.Calls {
		if cfg.Calls[i].Out == i {
			w.outs = append(w.outs, &output{w: w, id: i})
		} else {
			w.outs = append(w.outs, w.outs[cfg.Calls[i].Out])
		}
	}
	w.eng = rpc.New(w.send, rpc.Options{
		RetryInterval: cfg.RetryInterval,
		MaxRetries:    cfg.MaxRetries,
		Clock:         fakeClock{w},
		DropHandler:   w.drop,
	})
	return w
}

func (w *world) nowMs() int64 { return w.nt.Now().Sub(w.t0).Milliseconds() }

// ev appends an event; the caller must NOT hold w.mu.
func (w *world) ev(t string, c, k int, s string) int { return w.evAt(w.nowMs(), t, c, k, s) }

// evAt records an event with a fake-clock reading taken by the caller.
func (w *world) evAt(now int64, t string, c, k int, s string) int {
	w.mu.Lock()
	w.seq++
	w.log = append(w.log, event{Seq: w.seq, T: t, C: c, K: k, S: s, Now: now})
	n := w.seq
	w.mu.Unlock()
	return n
}

func (w *world) self() *actor {
	v, ok := actorByGoid.Load(goid())
	if !ok {
		return nil
	}
	a := v.(*actor)
	if a.w != w {
		return nil
	}
	return a
}

// spawn starts a tracked goroutine. It returns after the goroutine registered
// its id, so that settle() always sees it.
func (w *world) spawn(kind string, call int, name string, f func(a *actor)) *actor {
	a := &actor{w: w, kind: kind, call: call, name: name, base: name}
	if i := strings.IndexByte(name, '#'); i >= 0 {
		a.base = name[:i]
	}
	reg := make(chan struct{})
	go func() {
		a.goid = goid()
		actorByGoid.Store(a.goid, a)
		close(reg)
		defer actorByGoid.Delete(a.goid)
		defer func() {
			// a panic escaping the engine under test must not kill the monitor
			if r := recover(); r != nil {
				w.ev("panic", a.call, 0, fmt.Sprintf("%s: %v\n%s", a.name, r, debug.Stack()))
			}
		}()
		f(a)
	}()
	<-reg
	w.mu.Lock()
	w.actors = append(w.actors, a)
	w.mu.Unlock()
	return a
}

// hold parks the calling goroutine until the controller releases it; returns
// the outcome chosen by the controller (0 when nothing parks). ctx (optional)
// lets a parked send observe cancellation like a real transport would.
func (w *world) hold(a *actor, point string, k int, ctx context.Context) (outcome int, ctxErr error) {
	if a == nil {
		return 0, nil
	}
	w.mu.Lock()
	if w.passAll || (w.cfg.Gate.HoldFor != nil && !w.cfg.Gate.HoldFor[a.base+"@"+point] && !w.cfg.Gate.HoldFor[a.base]) {
		w.mu.Unlock()
		return 0, nil
	}
	p := &park{a: a, point: point, k: k, ch: make(chan int, 1)}
	w.parked = append(w.parked, p)
	w.mu.Unlock()
	var done <-chan struct{}
	if ctx != nil && w.cfg.SendHonorsCtx {
		done = ctx.Done()
	}
	select {
	case o := <-p.ch:
		return o, nil
	case <-done:
		w.mu.Lock()
		for i, q := range w.parked {
			if q == p {
				w.parked = append(w.parked[:i], w.parked[i+1:]...)
				break
			}
		}
		w.mu.Unlock()
		return 0, ctx.Err()
	}
}

// release lets the parked goroutine continue. Returns false if it is no
// longer parked (for example a send that observed its context).
func (w *world) release(p *park, outcome int) bool {
	w.mu.Lock()
	found := false
	for i, q := range w.parked {
		if q == p {
			w.parked = append(w.parked[:i], w.parked[i+1:]...)
			found = true
			break
		}
	}
	w.mu.Unlock()
	if found {
		p.ch <- outcome
	}
	return found
}

func (w *world) releaseAll() {
	w.mu.Lock()
	w.passAll = true
	ps := w.parked
	w.parked = nil
	w.mu.Unlock()
	for _, p := range ps {
		p.ch <- 0
	}
}

func (w *world) parkedSnapshot() []*park {
	w.mu.Lock()
	defer w.mu.Unlock()
	return append([]*park(nil), w.parked...)
}

// --------------------------------------------------------------------------- fakes

func (w *world) callByMsgID(id int64) int {
	for i, c := range w.calls {
		if c.cfg.MsgID == id {
			return i
		}
	}
	return -1
}

type bodyEnc struct{ call int }

func (b bodyEnc) Encode(buf *bin.Buffer) error {
	buf.PutID(0xc0ffee00)
	buf.PutLong(int64(b.call) + 1000)
	buf.PutString(fmt.Sprintf("body-of-call-%d", b.call))
	return nil
}

// send is the engine's Send function.
func (w *world) send(ctx context.Context, msgID int64, seqNo int32, in bin.Encoder) error {
	a := w.self()
	ci := -1
	if a != nil && a.kind == "do" {
		ci = a.call
	}
	var b bin.Buffer
	encErr := in.Encode(&b)
	desc := fmt.Sprintf("msg=%d seq=%d body=%x", msgID, seqNo, b.Buf)
	if encErr != nil {
		desc += " encerr"
	}
	if ctx.Err() != nil {
		desc += " ctxdone"
	}
	k := 0
	if ci >= 0 {
		w.mu.Lock()
		k = w.calls[ci].sends
		w.calls[ci].sends++
		w.mu.Unlock()
	}
	w.ev("send.enter", ci, k, desc)
	if w.cfg.SendHonorsCtx && ctx.Err() != nil {
		w.ev("send.exit", ci, k, "ctxerr")
		return ctx.Err()
	}
	if w.cfg.Gate.Send {
		o, cerr := w.hold(a, "send", k, ctx)
		if cerr != nil {
			w.ev("send.exit", ci, k, "ctxerr")
			return cerr
		}
		if o >= 1 {
			ferr, label := sendFailure(o)
			w.ev("send.exit", ci, k, label)
			return ferr
		}
	} else if ci >= 0 && w.calls[ci].cfg.FailSendAt == k {
		ferr, label := sendFailure(w.calls[ci].cfg.FailKind)
		w.ev("send.exit", ci, k, label)
		return ferr
	}
	w.ev("send.exit", ci, k, "ok")
	return nil
}

func (w *world) drop(req rpc.Request) error {
	a := w.self()
	ci := w.callByMsgID(req.MsgID)
	if a != nil && a.kind == "do" {
		ci = a.call
	}
	w.ev("drop.enter", ci, 0, fmt.Sprintf("msg=%d", req.MsgID))
	if w.cfg.Gate.Drop {
		w.hold(a, "drop", 0, nil)
	}
	if ci >= 0 && w.calls[ci].cfg.DropFail {
		w.ev("drop.exit", ci, 0, "fail")
		return errDrop
	}
	w.ev("drop.exit", ci, 0, "ok")
	return nil
}

// Decode is the request Output. The payload carries the index of the call the
// harness addressed it to.
func (o *output) Decode(b *bin.Buffer) error {
	w := o.w
	name64, err := b.Long()
	name := int(name64)
	if err != nil {
		name = -99
	}
	a := w.self()
	w.ev("dec.enter", o.id, name, "")
	if w.cfg.Gate.Decode {
		w.hold(a, "decode", 0, nil)
	} else if w.jit != nil {
		w.jit()
	}
	o.store(name64) // plain write in C24 runs: the caller reads it right after Do returns
	var ret error
	s := "ok"
	if w.calls[o.id].cfg.DecodeFail {
		ret, s = errDecode, "fail"
	}
	w.ev("dec.exit", o.id, name, s)
	return ret
}

func (w *world) atHook(a *actor, point string) {
	c := a.call
	w.mu.Lock()
	w.hookHit[point]++
	w.mu.Unlock()
	w.ev("hook", c, 0, point+" "+a.name)
	if w.cfg.Gate.Jitter {
		if w.jit != nil {
			w.jit()
		}
		return
	}
	if w.cfg.Gate.Hooks[point] {
		w.hold(a, point, 0, nil)
		w.ev("hook.rel", c, 0, point+" "+a.name)
	}
}

// fakeClock wraps neo.Time and records when the engine arms its retry timer.
type fakeClock struct{ w *world }

var _ clock.Clock = fakeClock{}

func (f fakeClock) Now() time.Time { return f.w.nt.Now() }
func (f fakeClock) Ticker(d time.Duration) clock.Ticker {
	return f.w.nt.Ticker(d)
}
func (f fakeClock) Timer(d time.Duration) clock.Timer {
	ci := -1
	if a := f.w.self(); a != nil && a.kind == "do" {
		ci = a.call
	}
	// The clock is read BEFORE arming: the recorded arm time is a lower bound of
	// the real one even if the goroutine is preempted (free-running schedules
	// travel concurrently), so the spacing oracle can only under-report.
	now := f.w.nowMs()
	t := f.w.nt.Timer(d)
	f.w.evAt(now, "timer.new", ci, int(d/time.Millisecond), "")
	return &fakeTimer{Timer: t, w: f.w, call: ci}
}

type fakeTimer struct {
	neo.Timer
	w    *world
	call int
}

func (t *fakeTimer) Reset(d time.Duration) {
	now := t.w.nowMs()
	t.Timer.Reset(d)
	t.w.evAt(now, "timer.reset", t.call, int(d/time.Millisecond), "")
}

// --------------------------------------------------------------------------- stimuli

func classifyErr(w *world, ci int, err error) string {
	var rl *rpc.RetryLimitReachedErr
	var re *rpcError
	var ie *injectedErr
	switch {
	case err == nil:
		return "nil"
	case errors.As(err, &ie):
		return "senderr-" + ie.kind
	case errors.Is(err, rpc.ErrEngineClosed):
		return "closed-retryable"
	case errors.As(err, &rl):
		return "retrylimit"
	case errors.As(err, &re):
		return fmt.Sprintf("rpcerr%d", re.call)
	case errors.Is(err, errSendFail):
		return "senderr"
	case errors.Is(err, errDecode):
		return "decodeerr"
	case ci >= 0 && ci < len(w.calls) && err == w.calls[ci].ctx.Err():
		return "ctxerr" // exactly the error of the caller's context (Canceled or DeadlineExceeded)
	case errors.Is(err, context.Canceled) && bytes.Contains([]byte(err.Error()), []byte("engine forcibly closed")):
		return "closed-acked"
	case errors.Is(err, context.Canceled), errors.Is(err, context.DeadlineExceeded):
		return "ctxerr-wrapped"
	}
	return "other:" + err.Error()
}

func (w *world) start(i int) {
	cs := w.calls[i]
	w.mu.Lock()
	cs.started = true
	w.mu.Unlock()
	out := w.outs[i]
	cs.act = w.spawn("do", i, fmt.Sprintf("do%d", i), func(a *actor) {
		w.ev("do.call", i, 0, "")
		err := w.eng.Do(cs.ctx, rpc.Request{MsgID: cs.cfg.MsgID, SeqNo: cs.cfg.SeqNo, Input: bodyEnc{i}, Output: out})
		v := out.load() // what a caller does right after Do returned (plain read in C24 runs)
		w.ev("do.ret", i, int(v), classifyErr(w, i, err))
	})
}

func payload(name int) *bin.Buffer {
	var b bin.Buffer
	b.PutLong(int64(name))
	return &b
}

// notifyResult delivers a result for call i (payload names `name`) from its own
// goroutine: the decoder may be held open by the controller.
func (w *world) notifyResult(i int, msgID int64, name int) {
	w.mu.Lock()
	w.nNotify++
	n := w.nNotify
	w.mu.Unlock()
	w.spawn("notify", i, fmt.Sprintf("res%d#%d", i, n), func(a *actor) {
		w.ev("res.call", i, name, fmt.Sprintf("msg=%d", msgID))
		err := w.eng.NotifyResult(msgID, payload(name))
		s := "nil"
		if err != nil {
			s = err.Error()
		}
		w.ev("res.ret", i, name, s)
	})
}

func (w *world) notifyError(i int, msgID int64) {
	w.mu.Lock()
	w.nNotify++
	n := w.nNotify
	w.mu.Unlock()
	w.spawn("notify", i, fmt.Sprintf("err%d#%d", i, n), func(a *actor) {
		w.ev("err.call", i, 0, fmt.Sprintf("msg=%d", msgID))
		w.eng.NotifyError(msgID, &rpcError{call: i})
		w.ev("err.ret", i, 0, "")
	})
}

func (w *world) ack(ids ...int) {
	for _, i := range ids {
		w.ackBatch(i, "-")
	}
}

// ackShapes are the msgs_ack batch layouts the controller can deliver for a
// primary call: '-' the id of the primary call, 'u' an id nobody waits on
// (fresh each time), 'o' the id of the next call of the world (pending, already
// completed or never started, whatever it is at that moment), 's' the id of the
// call after that. Batches of 1..6 ids with the primary id first, last, in the
// middle, repeated.
var ackShapes = []string{"-", "u-", "-u", "uu-", "u-u", "--", "-u-", "uuu-", "uu-uu", "uuuuu-", "o-", "-o", "uo-", "ou-", "u-o", "os-", "uos-u", "uuos-", "o-s"}

// ackBatch delivers ONE NotifyAcks call whose batch is laid out by shape. An
// ack.call / ack.ret event pair is logged for every real call whose id is in
// the batch: its acknowledgement is "received" when this NotifyAcks returned.
func (w *world) ackBatch(primary int, shape string) {
	n := w.cfg.N
	var ids []int64
	var involved []int
	seen := map[int]bool{}
	add := func(ci int) {
		ids = append(ids, w.calls[ci].cfg.MsgID)
		if !seen[ci] {
			seen[ci] = true
			involved = append(involved, ci)
		}
	}
	for _, t := range shape {
		switch {
		case t == '-':
			add(primary)
		case t == 'o' && n > 1:
			add((primary + 1) % n)
		case t == 's' && n > 2:
			add((primary + 2) % n)
		default:
			ids = append(ids, unknownIDBase+4*w.unknownCtr.Add(1))
		}
	}
	for _, ci := range involved {
		w.ev("ack.call", ci, len(ids), shape)
	}
	w.eng.NotifyAcks(ids)
	for _, ci := range involved {
		w.ev("ack.ret", ci, len(ids), shape)
	}
}

const unknownIDBase = 0x7100000000

func (w *world) cancelCall(i int) {
	// the caller's context ends either by cancellation or, for calls configured
	// with EndByDeadline, by its deadline (Err() == context.DeadlineExceeded)
	if w.calls[i].cfg.EndByDeadline {
		w.ev("cancel", i, 0, "deadline")
		w.calls[i].ctx.fire(context.DeadlineExceeded)
		return
	}
	w.ev("cancel", i, 0, "")
	w.calls[i].cancel()
}

func (w *world) forceClose() {
	w.mu.Lock()
	if w.closeStarted {
		w.mu.Unlock()
		return
	}
	w.closeStarted = true
	w.mu.Unlock()
	w.spawn("close", -1, "close", func(a *actor) {
		w.ev("close.call", -1, 0, "")
		w.eng.ForceClose()
		w.ev("close.ret", -1, 0, "")
	})
}

func (w *world) travel(d time.Duration) {
	w.ev("travel.call", -1, int(d/time.Millisecond), "")
	w.nt.Travel(d)
	w.ev("travel.ret", -1, int(d/time.Millisecond), "")
}

// --------------------------------------------------------------------------- settle

var blockedStates = map[string]bool{
	// NOT "semacquire": that is also a transient runtime wait (GC start waiting for a
	// stop-the-world owner), sync primitives have their own wait reasons.
	"select": true, "chan receive": true, "chan send": true,
	"sync.Mutex.Lock": true, "sync.RWMutex.Lock": true, "sync.RWMutex.RLock": true,
	"sync.WaitGroup.Wait": true, "sync.Cond.Wait": true, "select (no cases)": true,
	"chan receive (nil chan)": true, "chan send (nil chan)": true,
}

var dumpPool = sync.Pool{New: func() any { b := make([]byte, 1<<18); return &b }}

// goroutineStates returns goroutine id -> (blocked?, header+stack text start offset)
func goroutineStates(wantStacks map[int64]bool) (map[int64]bool, map[int64]string) {
	bp := dumpPool.Get().(*[]byte)
	buf := *bp
	var n int
	for {
		n = runtime.Stack(buf, true)
		if n < len(buf) {
			break
		}
		buf = make([]byte, 2*len(buf))
	}
	*bp = buf
	defer dumpPool.Put(bp)
	data := buf[:n]
	st := map[int64]bool{}
	var stacks map[int64]string
	if wantStacks != nil {
		stacks = map[int64]string{}
	}
	const pfx = "goroutine "
	pos := 0
	for pos < len(data) {
		if !bytes.HasPrefix(data[pos:], []byte(pfx)) {
			nl := bytes.Index(data[pos:], []byte("\n\n"))
			if nl < 0 {
				break
			}
			pos += nl + 2
			continue
		}
		end := bytes.Index(data[pos:], []byte("\n\n"))
		blockEnd := len(data)
		if end >= 0 {
			blockEnd = pos + end
		}
		line := data[pos:blockEnd]
		if nl := bytes.IndexByte(line, '\n'); nl >= 0 {
			line = line[:nl]
		}
		// goroutine 12 [select, 2 minutes]:
		rest := line[len(pfx):]
		sp := bytes.IndexByte(rest, ' ')
		if sp > 0 {
			id, _ := strconv.ParseInt(string(rest[:sp]), 10, 64)
			state := ""
			if lb := bytes.IndexByte(rest, '['); lb >= 0 {
				if rb := bytes.IndexByte(rest[lb:], ']'); rb > 0 {
					state = string(rest[lb+1 : lb+rb])
				}
			}
			if c := bytes.IndexByte([]byte(state), ','); c >= 0 {
				state = state[:c]
			}
			st[id] = blockedStates[state]
			if wantStacks != nil && wantStacks[id] {
				stacks[id] = string(data[pos:blockEnd])
			}
		}
		if end < 0 {
			break
		}
		pos = blockEnd + 2
	}
	return st, stacks
}

var statSettles, statDumps atomic.Int64

var errSettleWatchdog = errors.New("settle watchdog")

// settle waits until every goroutine of this world is blocked (at a harness
// gate or inside the engine) or has exited. The decision is taken from one
// runtime goroutine dump: a goroutine that a stimulus made runnable is never
// reported as blocked, so no real-time guess is involved. The watchdog only
// bounds a livelock and makes the run inconclusive.
func (w *world) settle() error {
	start := time.Now()
	statSettles.Add(1)
	for iter := 0; ; iter++ {
		statDumps.Add(1)
		w.mu.Lock()
		acts := append([]*actor(nil), w.actors...)
		w.mu.Unlock()
		st, _ := goroutineStates(nil)
		ok := true
		for _, a := range acts {
			blocked, present := st[a.goid]
			if present && !blocked {
				ok = false
				break
			}
		}
		if ok {
			return nil
		}
		if iter < 20 {
			runtime.Gosched()
		} else {
			time.Sleep(20 * time.Microsecond)
		}
		if iter%256 == 255 && time.Since(start) > 60*time.Second {
			return errSettleWatchdog
		}
	}
}

// alive returns the actors whose goroutine still exists together with their
// stacks (used for the stranded verdict and its witness).
func (w *world) alive() map[string]string {
	w.mu.Lock()
	acts := append([]*actor(nil), w.actors...)
	w.mu.Unlock()
	want := map[int64]bool{}
	for _, a := range acts {
		want[a.goid] = true
	}
	_, stacks := goroutineStates(want)
	res := map[string]string{}
	for _, a := range acts {
		if s, ok := stacks[a.goid]; ok {
			res[a.name] = s
		}
	}
	return res
}

func (w *world) events() []event {
	w.mu.Lock()
	defer w.mu.Unlock()
	return append([]event(nil), w.log...)
}
