package main

import (
	"fmt"
	"sort"
	"strings"
	"time"
)

// finding is one refuting observation produced by the offline checkers.
type finding struct {
	Prop   string
	Sig    string
	Detail string
}

type sendRec struct {
	k              int
	enter, exit    int
	desc, outcome  string
	now            int64
	ctxDoneAtEnter bool
}

type decRec struct {
	enter, exit int
	name        int
	ok          bool
}

type armRec struct {
	seq int
	now int64
	ms  int
}

// callView is everything the log says about one call.
type callView struct {
	i                 int
	doCall, doRet     int
	class             string
	val               int
	sends             []sendRec
	decs              []decRec
	ackCall, ackRet   []int
	resCall, resRet   []int
	errRet            []int
	errCall           []int
	cancel            int
	endKind           string
	drops             int
	retryDone         int // seq of hook rpc.retry.done (0: not seen)
	ctxDoneHook       int
	arms              []armRec
	handlerEnterHooks int
}

type logView struct {
	calls               []*callView
	closeCall, closeRet int
	travels             []event // travel.ret
	stimuli             []int   // seqs of stimulus events (any kind)
	wrongDecode         bool
	hookSeen            bool
}

func buildView(res *result) *logView {
	v := &logView{}
	for i := range res.Cfg.Calls {
		v.calls = append(v.calls, &callView{i: i})
	}
	for _, e := range res.Events {
		var c *callView
		if e.C >= 0 && e.C < len(v.calls) {
			c = v.calls[e.C]
		}
		switch e.T {
		case "close.call":
			v.closeCall = e.Seq
			v.stimuli = append(v.stimuli, e.Seq)
		case "close.ret":
			v.closeRet = e.Seq
		case "travel.call":
			v.stimuli = append(v.stimuli, e.Seq)
		case "travel.ret":
			v.travels = append(v.travels, e)
		case "ack.call", "res.call", "err.call", "cancel":
			v.stimuli = append(v.stimuli, e.Seq)
		}
		if e.T == "hook" {
			v.hookSeen = true
		}
		if c == nil {
			if e.T == "dec.enter" {
				v.wrongDecode = true
			}
			continue
		}
		switch e.T {
		case "do.call":
			c.doCall = e.Seq
		case "do.ret":
			c.doRet, c.class, c.val = e.Seq, e.S, e.K
		case "send.enter":
			c.sends = append(c.sends, sendRec{k: e.K, enter: e.Seq, desc: strings.TrimSuffix(e.S, " ctxdone"), now: e.Now,
				ctxDoneAtEnter: strings.HasSuffix(e.S, " ctxdone")})
		case "send.exit":
			for k := len(c.sends) - 1; k >= 0; k-- {
				if c.sends[k].k == e.K && c.sends[k].exit == 0 {
					c.sends[k].exit, c.sends[k].outcome = e.Seq, e.S
					break
				}
			}
		case "dec.enter":
			c.decs = append(c.decs, decRec{enter: e.Seq, name: e.K})
		case "dec.exit":
			for k := len(c.decs) - 1; k >= 0; k-- {
				if c.decs[k].exit == 0 {
					c.decs[k].exit, c.decs[k].ok = e.Seq, e.S == "ok"
					break
				}
			}
		case "ack.call":
			c.ackCall = append(c.ackCall, e.Seq)
		case "ack.ret":
			c.ackRet = append(c.ackRet, e.Seq)
		case "res.call":
			c.resCall = append(c.resCall, e.Seq)
		case "err.call":
			c.errCall = append(c.errCall, e.Seq)
		case "res.ret":
			c.resRet = append(c.resRet, e.Seq)
		case "err.ret":
			c.errRet = append(c.errRet, e.Seq)
		case "cancel":
			if c.cancel == 0 {
				c.cancel = e.Seq
				c.endKind = "cancel"
				if e.S == "deadline" {
					c.endKind = "deadline"
				}
			}
		case "drop.enter":
			c.drops++
		case "timer.new", "timer.reset":
			c.arms = append(c.arms, armRec{seq: e.Seq, now: e.Now, ms: e.K})
		case "hook":
			switch {
			case strings.HasPrefix(e.S, "rpc.retry.done"):
				if c.retryDone == 0 {
					c.retryDone = e.Seq
				}
			case strings.HasPrefix(e.S, "rpc.ctxdone"):
				c.ctxDoneHook = e.Seq
			case strings.HasPrefix(e.S, "rpc.handler.enter"):
				c.handlerEnterHooks++
			}
		}
	}
	return v
}

func anyBefore(seqs []int, limit int) bool {
	for _, s := range seqs {
		if limit == 0 || s < limit {
			return true
		}
	}
	return false
}

// checkC24: each call completes once with its own result and is then left alone.
func checkC24(res *result, v *logView) []finding {
	var out []finding
	add := func(sig, d string) { out = append(out, finding{"C24", sig, d}) }
	if v.wrongDecode {
		add("decode-without-owner", "a Decode ran on an output that belongs to no call")
	}
	for _, c := range v.calls {
		if c.doCall == 0 {
			if len(c.decs) > 0 {
				add("decode-without-call", fmt.Sprintf("output %d decoded but Do was never called", c.i))
			}
			continue
		}
		for _, d := range c.decs {
			if d.name != c.i {
				add("foreign-payload", fmt.Sprintf("output %d decoded a payload addressed to %d", c.i, d.name))
			}
			if d.enter < c.doCall {
				add("decode-before-call", fmt.Sprintf("output %d", c.i))
			}
			if c.doRet != 0 {
				switch {
				case d.enter > c.doRet:
					add("decode-started-after-return|ret="+c.class,
						fmt.Sprintf("call %d: Do returned at %d, Decode entered at %d", c.i, c.doRet, d.enter))
				case d.exit == 0 || d.exit > c.doRet:
					add("output-written-after-return|ret="+c.class,
						fmt.Sprintf("call %d: Decode entered at %d, Do returned %s at %d, Decode finished at %d", c.i, d.enter, c.class, c.doRet, d.exit))
				}
			}
		}
		if len(c.decs) > 1 {
			add("decoded-twice", fmt.Sprintf("output %d decoded %d times", c.i, len(c.decs)))
		}
		if c.doRet == 0 {
			continue // stranded: reported from the drain
		}
		switch {
		case c.class == "nil":
			okDec := 0
			for _, d := range c.decs {
				if d.exit != 0 && d.exit < c.doRet && d.ok && d.name == c.i {
					okDec++
				}
			}
			if okDec != 1 {
				add("nil-without-result", fmt.Sprintf("call %d returned nil with %d completed decodes of its payload", c.i, okDec))
			} else if c.val != c.i {
				add("nil-output-mismatch", fmt.Sprintf("call %d returned nil, output holds %d", c.i, c.val))
			}
		case strings.HasPrefix(c.class, "rpcerr"):
			if c.class != fmt.Sprintf("rpcerr%d", c.i) || !anyBefore(c.errCall, c.doRet) {
				add("rpc-error-mismatch", fmt.Sprintf("call %d returned %s; error notifications for it before return: %v", c.i, c.class, c.errCall))
			}
		case c.class == "decodeerr":
			found := false
			for _, d := range c.decs {
				if d.exit != 0 && d.exit < c.doRet && !d.ok {
					found = true
				}
			}
			if !found {
				add("decodeerr-without-decode", fmt.Sprintf("call %d", c.i))
			}
		case strings.HasPrefix(c.class, "other:"), c.class == "ctxerr-wrapped":
			add("unexpected-error-class", fmt.Sprintf("call %d returned %s", c.i, c.class))
		case c.class == "ctxerr":
			if c.cancel == 0 || c.cancel > c.doRet {
				add("ctxerr-without-cancel", fmt.Sprintf("call %d", c.i))
			}
		case c.class == "closed-retryable", c.class == "closed-acked":
			if v.closeCall == 0 || v.closeCall > c.doRet {
				add("closed-without-close", fmt.Sprintf("call %d returned %s", c.i, c.class))
			}
		}
	}
	for name, st := range res.Stranded {
		if strings.HasPrefix(name, "do") {
			add("stranded|do|"+topEngineFrame(st), name+" never returned although every gate was open and the engine was force-closed:\n"+st)
		}
	}
	return out
}

func topEngineFrame(stack string) string {
	for _, ln := range strings.Split(stack, "\n") {
		if i := strings.Index(ln, "github.com/gotd/td/rpc."); i >= 0 {
			f := ln[i+len("github.com/gotd/td/"):]
			if p := strings.LastIndexByte(f, '('); p > 0 {
				f = f[:p]
			}
			return f
		}
	}
	return "?"
}

// checkC25: retransmission identity, bound, spacing, limit error, silence after ack.
func checkC25(res *result, v *logView) (out []finding, pendingAckResends int) {
	add := func(sig, d string) { out = append(out, finding{"C25", sig, d}) }
	ri := int64(res.Cfg.RetryInterval / time.Millisecond)
	mr := res.Cfg.MaxRetries
	for _, c := range v.calls {
		if c.doCall == 0 || len(c.sends) == 0 {
			continue
		}
		okSends, failed := 0, false
		for k, s := range c.sends {
			if s.desc != c.sends[0].desc {
				add("resend-identity", fmt.Sprintf("call %d transmission %d: %q vs first %q", c.i, k, s.desc, c.sends[0].desc))
			}
			switch s.outcome {
			case "ok":
				okSends++
			case "":
			default:
				failed = true
			}
			if k >= 1 {
				// the timer period that ended in transmission k was armed by arm k-1
				// (timer.new for k=1, the Reset issued before transmission k-1 otherwise)
				if k-1 < len(c.arms) && c.arms[k-1].seq < s.enter {
					arm := c.arms[k-1]
					if s.now < arm.now+ri {
						add("early-resend", fmt.Sprintf("call %d transmission %d at fake t=%dms, timer armed at t=%dms, interval %dms", c.i, k, s.now, arm.now, ri))
					}
				} else {
					add("resend-without-timer", fmt.Sprintf("call %d transmission %d", c.i, k))
				}
			}
			if c.retryDone != 0 && s.enter > c.retryDone {
				add("send-after-ack-phase", fmt.Sprintf("call %d transmission %d started at %d, after retryUntilAck had returned at %d", c.i, k, s.enter, c.retryDone))
			}
			// informational: resend while an effective ack was already delivered but not yet consumed
			if k >= 1 && len(c.ackRet) > 0 && c.ackRet[0] < s.enter {
				pendingAckResends++
			}
		}
		if len(c.sends) > 1+mr {
			add("too-many-sends", fmt.Sprintf("call %d: %d transmissions, MaxRetries=%d", c.i, len(c.sends), mr))
		}
		undisturbed := !anyBefore(c.ackCall, c.doRet) && !anyBefore(c.resCall, c.doRet) && !anyBefore(c.errCall, c.doRet) &&
			(c.cancel == 0 || (c.doRet != 0 && c.cancel > c.doRet)) && (v.closeCall == 0 || (c.doRet != 0 && v.closeCall > c.doRet)) && !failed
		if c.doRet != 0 && undisturbed {
			if okSends == 1+mr && c.class != "retrylimit" {
				add("no-retry-limit-error|ret="+c.class, fmt.Sprintf("call %d: %d unacknowledged transmissions", c.i, okSends))
			}
			if c.class == "retrylimit" && okSends < 1+mr {
				add("retry-limit-early", fmt.Sprintf("call %d: retry-limit error after %d transmissions, MaxRetries=%d", c.i, okSends, mr))
			}
			if c.class != "retrylimit" && okSends != 1+mr {
				add("undisturbed-return|ret="+c.class, fmt.Sprintf("call %d returned without ack, result, cancel, close or send failure", c.i))
			}
		}
		// transmission after a delivered acknowledgement / result / error: decidable in
		// settled schedules only. The notification returned, the world settled (the
		// Do goroutine consumed it), a later stimulus was issued, and a transmission
		// started after that stimulus.
		if res.Settled && res.Incon == "" {
			first := func(seqs []int) int {
				best := 0
				for _, x := range seqs {
					if x > c.sends[0].enter && (best == 0 || x < best) {
						best = x
					}
				}
				return best
			}
			own := ownEvents(res, c)
			// a result / error notification only counts once a handler invocation has
			// completed (a duplicate that lost the once-guard returns immediately while the
			// winner may still be inside the decoder)
			firstDecEnter, firstDecExit := 0, 0
			for _, d := range c.decs {
				if firstDecEnter == 0 || d.enter < firstDecEnter {
					firstDecEnter = d.enter
				}
				if d.exit != 0 && (firstDecExit == 0 || d.exit < firstDecExit) {
					firstDecExit = d.exit
				}
			}
			resAt, errAt := 0, 0
			for _, x := range c.resRet {
				if firstDecExit != 0 && x > firstDecExit && x > c.sends[0].enter && (resAt == 0 || x < resAt) {
					resAt = x
				}
			}
			for _, x := range c.errRet {
				effective := firstDecEnter == 0 || firstDecEnter > x || (firstDecExit != 0 && firstDecExit < x)
				if effective && x > c.sends[0].enter && (errAt == 0 || x < errAt) {
					errAt = x
				}
			}
			// Cancel-aware transport (the send fake returns ctx.Err() as soon as the context it
			// was GIVEN ends): a completed result / error handler cancels the retry context, so a
			// transmission that was blocked in send at that moment must be aborted. In the settled
			// world after the notification it may neither still be inside send (Do would not
			// return until the write finishes) nor complete as a transmission later.
			if res.Cfg.SendHonorsCtx {
				for kind, at := range map[string]int{"result": resAt, "error": errAt} {
					if at == 0 {
						continue
					}
					next := 0
					for _, st := range v.stimuli {
						if st > at {
							next = st
							break
						}
					}
					if next == 0 {
						continue
					}
					for k, sd := range c.sends {
						if sd.enter > at || (sd.exit != 0 && sd.exit < next) {
							continue
						}
						add("blocked-in-send-after-"+kind, fmt.Sprintf("call %d transmission %d entered send at %d and was still inside it at %d; the %s notification had returned at %d (handler complete, retry context cancelled) and the world had settled", c.i, k, sd.enter, next, kind, at))
						if k >= 1 && sd.outcome == "ok" {
							add("send-after-"+kind, fmt.Sprintf("call %d retransmission %d, blocked in a cancel-aware send when the %s notification returned at %d, was not aborted and went on the wire at %d", c.i, k, kind, at, sd.exit))
						}
					}
				}
			}
			for kind, at := range map[string]int{"ack": first(c.ackRet), "result": resAt, "error": errAt} {
				// only when the Do goroutine was waiting in the retry select when the
				// notification arrived: if it was inside a (slow) send or held at a hook it
				// could not consume it, and a timer that becomes due meanwhile makes the
				// later select a legitimate coin toss (counted, not asserted).
				if at == 0 {
					continue
				}
				probe := at
				if kind == "ack" { // NotifyAcks is synchronous: judge the position at its call
					for k, r := range c.ackRet {
						if r == at && k < len(c.ackCall) {
							probe = c.ackCall[k]
						}
					}
				}
				if !inRetrySelect(own, probe, mr) {
					continue
				}
				next := 0
				for _, st := range v.stimuli {
					if st > at {
						next = st
						break
					}
				}
				if next == 0 {
					continue
				}
				for k, sd := range c.sends {
					if sd.enter > next {
						add("send-after-"+kind, fmt.Sprintf("call %d transmission %d started at %d; %s notification had returned at %d and the world had settled before the stimulus at %d", c.i, k, sd.enter, kind, at, next))
						break
					}
				}
			}
		}
		// missed resend: only decidable when every controller step was followed by an exact settle
		if res.Settled && res.Incon == "" {
			out = append(out, missedResend(res, v, c, ri, mr)...)
		}
	}
	return out, pendingAckResends
}

// ownEvents: events produced by the Do goroutine of call c, in order.
func ownEvents(res *result, c *callView) []event {
	var own []event
	for _, e := range res.Events {
		if e.C != c.i {
			continue
		}
		switch e.T {
		case "do.call", "do.ret", "send.enter", "send.exit", "timer.new", "timer.reset", "drop.enter", "drop.exit":
			own = append(own, e)
		case "hook", "hook.rel":
			if strings.HasSuffix(e.S, fmt.Sprintf(" do%d", c.i)) {
				own = append(own, e)
			}
		}
	}
	return own
}

// inRetrySelect reports whether the last thing the Do goroutine did before
// seq was to enter the select of the retry loop (timer armed, nothing else).
func inRetrySelect(own []event, seq, mr int) bool {
	idx := sort.Search(len(own), func(k int) bool { return own[k].Seq > seq }) - 1
	if idx < 0 {
		return false
	}
	last := own[idx]
	return last.T == "timer.new" || (last.T == "send.exit" && last.S == "ok" && last.K >= 1 && last.K < mr)
}

// panics: a panic that escaped the engine into a harness goroutine.
func checkPanics(res *result, prop string) []finding {
	var out []finding
	for _, e := range res.Events {
		if e.T == "panic" {
			msg := e.S
			if i := strings.IndexByte(msg, '\n'); i >= 0 {
				msg = msg[:i]
			}
			if i := strings.Index(msg, ": "); i >= 0 {
				msg = msg[i+2:]
			}
			out = append(out, finding{prop, "panic|" + msg, e.S})
		}
	}
	return out
}

// missedResend: the call was parked in the retry loop with its timer armed, the
// fake clock travelled past the due time, the world settled (all goroutines
// blocked) and the call did nothing before the next stimulus.
func missedResend(res *result, v *logView, c *callView, ri int64, mr int) []finding {
	var out []finding
	own := ownEvents(res, c)
	for _, tr := range v.travels {
		// last own event before the travel returned
		idx := sort.Search(len(own), func(k int) bool { return own[k].Seq > tr.Seq }) - 1
		if idx < 0 {
			continue
		}
		last := own[idx]
		var armed *armRec
		switch {
		case last.T == "timer.new":
			armed = &armRec{seq: last.Seq, now: last.Now}
		case last.T == "send.exit" && last.S == "ok" && last.K >= 1 && last.K < mr:
			for a := range c.arms {
				if c.arms[a].seq < last.Seq {
					armed = &c.arms[a]
				}
			}
		}
		// A transmission failed (the call's own context was alive) and the call is
		// still in the retry phase: any timer the engine could legitimately rely on
		// was armed no later than the failure, so one full interval later it must
		// have re-sent, failed with the retry limit or returned the error. (What the
		// engine does today, returning the send error at once, never gets here: its
		// next own event follows the failure immediately.)
		sig, windowFrom := "missed-resend", 0
		if last.T == "send.exit" && strings.HasPrefix(last.S, "fail") {
			armed = &armRec{seq: last.Seq, now: last.Now}
			sig = "stalled-after-failed-resend"
			if last.K == 0 {
				sig = "stalled-after-failed-send"
			}
		} else if armed != nil {
			windowFrom = armed.seq
		}
		if armed == nil || tr.Now < armed.now+ri {
			continue
		}
		// any other wake-up cause for this call before the travel returned?
		woken := false
		for _, e := range res.Events {
			if e.Seq > tr.Seq {
				break
			}
			if e.Seq < windowFrom {
				continue
			}
			if (e.C == c.i && (e.T == "ack.call" || e.T == "res.call" || e.T == "err.call" || e.T == "cancel")) || e.T == "close.call" {
				woken = true
			}
		}
		if woken {
			continue
		}
		// next stimulus after the travel
		next := 0
		for _, s := range v.stimuli {
			if s > tr.Seq {
				next = s
				break
			}
		}
		reacted := false
		if idx+1 < len(own) && (next == 0 || own[idx+1].Seq < next) {
			reacted = true
		}
		if !reacted {
			out = append(out, finding{"C25", sig, fmt.Sprintf("call %d: last activity of Do: %s; reference time t=%dms, clock at t=%dms (interval %dms), world settled, Do neither re-sent nor returned", c.i, last.String(), armed.now, tr.Now, ri)})
		}
	}
	return out
}

// checkC26: close / cancel never strand callers; retryability classification; drop accounting.
func checkC26(res *result, v *logView) []finding {
	var out []finding
	add := func(sig, d string) { out = append(out, finding{"C26", sig, d}) }
	mr := res.Cfg.MaxRetries
	for name, st := range res.Stranded {
		kind := "do"
		if name == "close" {
			kind = "forceclose"
		} else if !strings.HasPrefix(name, "do") {
			kind = "notify"
		}
		add("stranded|"+kind+"|"+topEngineFrame(st), name+" still blocked after ForceClose with every gate open:\n"+st)
	}
	if res.Stranded == nil && res.Incon == "" && v.closeCall != 0 && v.closeRet == 0 {
		add("forceclose-no-return", "ForceClose was called and never returned")
	}
	for _, c := range v.calls {
		if c.doCall == 0 || c.doRet == 0 {
			continue
		}
		firstSentOK := len(c.sends) > 0 && c.sends[0].outcome == "ok"
		// drop accounting
		// "its context error": exactly ctx.Err(), or an error wrapping it after the
		// caller's context had ended (errors.Is(err, ctx.Err()))
		ended := c.cancel != 0 && c.cancel < c.doRet
		if c.class == "ctxerr" || (c.class == "ctxerr-wrapped" && ended) {
			want := 0
			if firstSentOK {
				want = 1
			}
			if c.drops != want {
				add(fmt.Sprintf("drop-count|%s|sent=%v|drops=%d", c.class, firstSentOK, c.drops), fmt.Sprintf("call %d (context ended by %s)", c.i, c.endKind))
			}
		} else if c.drops != 0 {
			add(fmt.Sprintf("drop-count|%s|drops=%d", c.class, c.drops), fmt.Sprintf("call %d", c.i))
		}
		// Do on a closed engine
		if v.closeRet != 0 && c.doCall > v.closeRet {
			if c.class != "closed-retryable" || len(c.sends) != 0 {
				add("do-after-close|ret="+c.class, fmt.Sprintf("call %d started after ForceClose returned: %s, %d sends", c.i, c.class, len(c.sends)))
			}
			continue
		}
		if v.closeCall == 0 || v.closeCall > c.doRet {
			continue
		}
		okSends, failed := 0, false
		for _, s := range c.sends {
			if s.outcome == "ok" {
				okSends++
			} else if s.outcome != "" {
				failed = true
			}
		}
		notified := anyBefore(c.ackCall, c.doRet) || anyBefore(c.resCall, c.doRet) || anyBefore(c.errCall, c.doRet)
		cancelled := c.cancel != 0 && c.cancel < c.doRet
		// unacknowledged at close: the only reason to return is the close, and it must be retryable
		if !notified && !cancelled && !failed && okSends < 1+mr {
			if c.class != "closed-retryable" {
				add("unacked-close-not-retryable|ret="+c.class, fmt.Sprintf("call %d: no ack/result/error notification, no cancel, no send failure, %d sends; closed at %d, returned %s at %d", c.i, len(c.sends), v.closeCall, c.class, c.doRet))
			}
		}
		// acknowledged before close started: never retryable, never nil without result
		acked := false
		if len(c.sends) > 0 {
			for k, a := range c.ackCall {
				if a > c.sends[0].enter && k < len(c.ackRet) && c.ackRet[k] < v.closeCall && (c.retryDone == 0 || a < c.retryDone) {
					acked = true
				}
			}
		}
		if acked && c.doRet > v.closeCall {
			if c.class == "closed-retryable" {
				add("acked-close-retryable", fmt.Sprintf("call %d: ack delivered at %v, closed at %d, returned a retryable engine-closed error", c.i, c.ackRet, v.closeCall))
			}
		}
	}
	return out
}

func endMark(c *callView) byte {
	if c.cancel == 0 || (c.doRet != 0 && c.cancel > c.doRet) {
		return '0'
	}
	if c.endKind == "deadline" {
		return 'd'
	}
	return '1'
}

// outcomeKey: abstract state reached by a call × return class (distinct non-trivial case class).
func outcomeKey(res *result, v *logView, c *callView) string {
	sent := len(c.sends) > 0 && c.sends[0].outcome == "ok"
	inflight := false
	for _, d := range c.decs {
		if c.doRet != 0 && d.enter < c.doRet && (d.exit == 0 || d.exit > c.doRet) {
			inflight = true
		}
	}
	b := func(x bool) byte {
		if x {
			return '1'
		}
		return '0'
	}
	closedBefore := v.closeCall != 0 && (c.doRet == 0 || v.closeCall < c.doRet)
	return fmt.Sprintf("n%d/sent%c/tx%d/ack%c/res%d/err%c/cancel%c/close%c/dec%d/inflight%c/drop%d/%s",
		res.Cfg.N, b(sent), len(c.sends), b(anyBefore(c.ackCall, c.doRet)), len(c.resCall), b(len(c.errCall) > 0),
		endMark(c), b(closedBefore), len(c.decs), b(inflight), c.drops, c.class)
}
