package main

import (
	"fmt"
	"math/rand/v2"
	"strings"
	"time"

	"verif/harness/mon"
)

const (
	hHandler = "rpc.handler.enter"
	hRetry   = "rpc.retry.done"
	hCtxDone = "rpc.ctxdone"
)

// mkCfg: n calls with distinct msg ids (+1 reserved call when reserve is set).
func mkCfg(n int, reserve bool, ri time.Duration, mr int, g gating) worldCfg {
	cfg := worldCfg{N: n, RetryInterval: ri, MaxRetries: mr, Gate: g}
	total := n
	if reserve {
		total++
	}
	for i := 0; i < total; i++ {
		cfg.Calls = append(cfg.Calls, callCfg{MsgID: 0x5e0000000 + int64(i)*4, SeqNo: int32(2*i + 1), FailSendAt: -1, Out: i})
	}
	return cfg
}

func mkBudget(cfg worldCfg) *budget {
	b := fullBudget(len(cfg.Calls))
	for i := cfg.N; i < len(cfg.Calls); i++ {
		b.Start[i] = false
	}
	return b
}

// --------------------------------------------------------------------------- C24

// c24Hold: the design's scripted family. A result notification is held open
// (inside the decoder, or at the handler entry before its once-guard) while the
// call is made to return through every exit path; the decoder is released
// afterwards. The checker decides on event order only.
func c24Hold() (family, int) {
	type cse struct {
		hold   string // "decode" | "handler"
		exit   string
		acked  bool
		n      int
		honors bool
	}
	var cases []cse
	for _, hold := range []string{"decode", "handler"} {
		for _, n := range []int{1, 2} {
			for _, honors := range []bool{true, false} {
				for _, exit := range []string{"cancel", "close"} {
					for _, acked := range []bool{true, false} {
						cases = append(cases, cse{hold, exit, acked, n, honors})
					}
				}
				cases = append(cases, cse{hold, "retrylimit", false, n, honors}, cse{hold, "sendfail", false, n, honors})
			}
		}
	}
	return family{name: "c24-hold", run: func(idx int, _ []int) *result {
		cs := cases[idx%len(cases)]
		g := gating{Decode: cs.hold == "decode", Hooks: map[string]bool{hHandler: cs.hold == "handler"}}
		cfg := mkCfg(cs.n, false, time.Second, 2, g)
		cfg.SendHonorsCtx = cs.honors
		if cs.exit == "sendfail" {
			cfg.Calls[0].FailSendAt = 1
		}
		b := mkBudget(cfg)
		for i := 0; i < cs.n; i++ {
			b.Ack[i], b.Res[i], b.Cancel[i] = 1, 1, 1
		}
		b.Close, b.Travel, b.TravelMs = 1, 4, []int{1000}
		var sc []string
		for i := 0; i < cs.n; i++ {
			sc = append(sc, fmt.Sprintf("start:%d", i))
		}
		if cs.n == 2 {
			sc = append(sc, "ack:1")
		}
		if cs.acked {
			sc = append(sc, "ack:0")
		}
		sc = append(sc, "res:0")
		point := "decode"
		if cs.hold == "handler" {
			point = hHandler
		}
		switch cs.exit {
		case "cancel":
			sc = append(sc, "cancel:0")
		case "close":
			sc = append(sc, "close")
		case "retrylimit":
			sc = append(sc, "travel:1000", "travel:1000")
		case "sendfail":
			sc = append(sc, "travel:1000")
		}
		sc = append(sc, "rel:res0@"+point)
		if cs.n == 2 {
			sc = append(sc, "res:1", "rel:res1@"+point)
		}
		return runScript("c24-hold", idx, cfg, b, sc, probes{LateRes: true})
	}}, len(cases)
}

// randomWorld draws a gating profile, world parameters and a stimulus budget.
func randomWorld(rng *rand.Rand, focus string) (worldCfg, *budget, probes) {
	n := 1 + rng.IntN(4)
	g := gating{Hooks: map[string]bool{}}
	g.Send = rng.IntN(2) == 0
	g.Decode = rng.IntN(3) != 0
	g.Drop = rng.IntN(4) == 0
	for _, h := range []string{hHandler, hRetry, hCtxDone} {
		if rng.IntN(3) == 0 {
			g.Hooks[h] = true
		}
	}
	ri := []time.Duration{time.Second, 250 * time.Millisecond, 10 * time.Second}[rng.IntN(3)]
	mr := 1 + rng.IntN(4)
	if focus == "C25" {
		mr = 1 + rng.IntN(6)
	}
	cfg := mkCfg(n, true, ri, mr, g)
	cfg.SendHonorsCtx = rng.IntN(2) == 0
	b := mkBudget(cfg)
	rims := int(ri / time.Millisecond)
	b.TravelMs = []int{rims}
	if rng.IntN(2) == 0 {
		b.TravelMs = append(b.TravelMs, rims/2)
	}
	if focus == "C25" && rng.IntN(2) == 0 {
		b.TravelMs = append(b.TravelMs, 1+rng.IntN(2*rims))
	}
	for i := 0; i < n; i++ {
		cfg.Calls[i].DecodeFail = rng.IntN(10) == 0
		cfg.Calls[i].DropFail = rng.IntN(5) == 0
		cfg.Calls[i].EndByDeadline = rng.IntN(2) == 0
		if !g.Send && rng.IntN(5) == 0 {
			cfg.Calls[i].FailSendAt = rng.IntN(mr + 1)
			cfg.Calls[i].FailKind = 1 + rng.IntN(3)
		}
		b.Ack[i] = rng.IntN(2)
		b.Res[i] = rng.IntN(3)
		if rng.IntN(6) == 0 {
			b.Err[i] = 1
		}
		if rng.IntN(3) == 0 {
			b.Cancel[i] = 1
		}
	}
	b.Travel = rng.IntN(3)
	b.Close = rng.IntN(2)
	b.Wrong = rng.IntN(2)
	if g.Send {
		b.SendFail = rng.IntN(2)
		b.SendFailKinds = []int{1 + rng.IntN(3)}
	}
	b.CancelEarly = rng.IntN(4) == 0
	b.LateRes = rng.IntN(2) == 0
	// one or two msgs_ack batch layouts per world (keeps the branching small,
	// the layouts vary across worlds); acks are more frequent than before
	for k := 1 + rng.IntN(2); k > 0; k-- {
		b.AckShapes = append(b.AckShapes, ackShapes[rng.IntN(len(ackShapes))])
	}
	switch focus {
	case "C25":
		b.Travel = mr + 1 + rng.IntN(mr+2)
		b.Close = 0
		if rng.IntN(3) != 0 {
			for i := range b.Cancel {
				b.Cancel[i] = 0
			}
		}
	case "C26":
		b.Close = 1
		for i := 0; i < n; i++ {
			if rng.IntN(2) == 0 {
				b.Cancel[i] = 1
			}
		}
	}
	return cfg, b, probes{LateRes: rng.IntN(2) == 0, PostCloseDo: true}
}

func pctFamily(c *mon.Ctx, name, focus string) family {
	return family{name: name, run: func(idx int, _ []int) *result {
		rng := c.RandN(name, idx)
		cfg, b, pr := randomWorld(rng, focus)
		steps := 12 + rng.IntN(28)
		res, _ := runScheduleFrom(name, idx, cfg, b, nil, steps, pr, pctChooser(rng, steps, 1+rng.IntN(3), 0.02))
		return res
	}}
}

func freeFamily(c *mon.Ctx, name, focus string) family {
	return family{name: name, run: func(idx int, _ []int) *result {
		rng := c.RandN(name, idx)
		cfg, _, pr := randomWorld(rng, focus)
		return runFree(name, idx, cfg, rng, pr)
	}}
}

func runC24(c *mon.Ctx) {
	c.Rule("real rpc.Engine over harness fakes (send, Output decoder with a gate, drop handler, neo clock); N=1..4 concurrent Do calls. " +
		"Schedules: (a) scripted 'hold a result open in the decoder / at the handler entry, then make Do leave through cancel, ForceClose (acked or not), retry limit, send failure'; " +
		"(b) stateless DFS enumeration of every order of {ack,result,duplicate result,rpc error,wrong id,cancel,close,travel,release of each parked goroutine} up to a depth bound for N=1 and N=2, " +
		"settled after every step by an all-goroutines-blocked check on a runtime goroutine dump; (c) PCT-randomized schedules with all gates; (d) free-running stress under -race. " +
		"Offline checker on the boundary event log: decode payload owner, decode count, nil-return has exactly one finished decode, rpc error ownership, every Decode inside its Do's call/return interval. " +
		"distinct non-trivial = (N, sent, transmissions, acked, results, error, cancelled, closed, decodes, decode-in-flight-at-return, drops) x return class reached by a call")
	c.Assume("harness fakes and event log are correct; goroutine states reported by runtime.Stack are trusted for settling; neo fake clock")
	plainOutput = true
	h := newHarvest(c, "C24")
	hold, nHold := c24Hold()
	runFamilies(c, h, []famRun{{hold, nHold, 1}})

	dec := gating{Decode: true}
	// N=1: everything from the start
	b1cfg := func() worldCfg { return mkCfg(1, false, time.Second, 2, dec) }
	b1 := mkBudget(b1cfg())
	b1.Ack[0], b1.Res[0], b1.Err[0], b1.Cancel[0] = 1, 2, 1, 1
	b1.Close, b1.Wrong, b1.Travel, b1.TravelMs, b1.LateRes = 1, 0, 1, []int{1000}, true
	if !c.Quick() {
		b1.Wrong, b1.Travel = 1, 2
	}
	_, ex1 := runEnum(c, h, "c24-enum1", b1cfg, b1, []string{"start:0"}, c.N(5, 6), c.N(6000, 60000), probes{LateRes: true})
	// N=2: call 0 acked, call 1 not; results, cancel, close, error
	b2cfg := func() worldCfg { return mkCfg(2, false, time.Second, 2, dec) }
	b2 := mkBudget(b2cfg())
	b2.Ack[0], b2.Res[0], b2.Res[1], b2.Cancel[0], b2.Cancel[1], b2.Err[1], b2.Close = 1, 1, 1, 1, 1, 1, 1
	_, ex2 := runEnum(c, h, "c24-enum2", b2cfg, b2, []string{"start:0", "start:1", "ack:0"}, c.N(7, 9), c.N(3000, 40000), probes{LateRes: true})
	// N=1 with the hook points held: windows around the handler's once-guard and the cancel branch
	hk := gating{Decode: true, Hooks: map[string]bool{hHandler: true, hCtxDone: true}}
	b3cfg := func() worldCfg { return mkCfg(1, false, time.Second, 2, hk) }
	b3 := mkBudget(b3cfg())
	b3.Ack[0], b3.Res[0], b3.Cancel[0], b3.Close = 1, 2, 1, 1
	_, ex3 := runEnum(c, h, "c24-enumhook", b3cfg, b3, []string{"start:0", "ack:0"}, c.N(8, 10), c.N(3000, 30000), probes{LateRes: true})
	c.Exhaustive(ex1 && ex2 && ex3)

	runFamilies(c, h, []famRun{
		{pctFamily(c, "c24-pct", "C24"), c.N(1500, 80000), 1},
		{freeFamily(c, "c24-free", "C24"), c.N(600, 30000), workersFree()},
	})
	h.finish(hHandler, hRetry, hCtxDone)
}

// --------------------------------------------------------------------------- C25

// c25Grid: MaxRetries x position of the acknowledgement (none, after the k-th
// transmission, concurrently with the timer) x failing transmission index x
// clock step style x notification kind.
func c25Grid() (family, int) {
	type cse struct {
		mr, ackPos int
		concurrent bool
		failAt     int
		half       bool
		kind       string
		shape      string
		failKind   int
	}
	var cases []cse
	for mr := 1; mr <= 6; mr++ {
		// failing transmission k = 0..mr with a context error although the call's
		// context is alive (Canceled is swallowed by the retry loop, DeadlineExceeded is
		// not), no ack, then the clock runs past every remaining deadline
		for failAt := 0; failAt <= mr; failAt++ {
			for _, fk := range []int{2, 3} {
				for _, half := range []bool{false, true} {
					cases = append(cases, cse{mr: mr, ackPos: -1, failAt: failAt, half: half, kind: "ack", shape: "-", failKind: fk})
				}
			}
		}
		for ackPos := -1; ackPos < mr; ackPos++ {
			for _, conc := range []bool{false, true} {
				if ackPos < 0 && conc {
					continue
				}
				for failAt := -1; failAt <= mr; failAt++ {
					for _, half := range []bool{false, true} {
						// every case with the plain single-id ack plus one batch layout
						// (cycled so that every layout meets every grid position class)
						cases = append(cases, cse{mr, ackPos, conc, failAt, half, "ack", "-", 1})
						if ackPos >= 0 {
							cases = append(cases, cse{mr, ackPos, conc, failAt, half, "ack", ackShapes[1+len(cases)%(len(ackShapes)-1)], 1})
						}
					}
					if ackPos >= 0 {
						cases = append(cases, cse{mr, ackPos, conc, failAt, false, "res", "-", 1})
					}
				}
			}
		}
	}
	return family{name: "c25-grid", run: func(idx int, _ []int) *result {
		cs := cases[idx%len(cases)]
		cfg := mkCfg(1, false, time.Second, cs.mr, gating{Hooks: map[string]bool{}})
		cfg.Calls[0].FailSendAt, cfg.Calls[0].FailKind = cs.failAt, cs.failKind
		b := mkBudget(cfg)
		b.Ack[0], b.Res[0], b.Travel, b.TravelMs = 1, 1, 4*cs.mr+8, []int{1000, 500}
		b.AckShapes = []string{cs.shape}
		sc := []string{"start:0"}
		for k := 0; k <= cs.mr+1; k++ {
			if cs.ackPos == k {
				s := cs.kind + ":0"
				if cs.kind == "ack" && cs.shape != "-" {
					s += ":" + cs.shape
				}
				if cs.concurrent {
					s += "~"
				}
				sc = append(sc, s)
			}
			if cs.half {
				sc = append(sc, "travel:500", "travel:500")
			} else {
				sc = append(sc, "travel:1000")
			}
		}
		// after an ack the call waits for its result: more time must not produce transmissions
		sc = append(sc, "travel:1000", "travel:1000")
		return runScript("c25-grid", idx, cfg, b, sc, probes{})
	}}, len(cases)
}

// c25Batch: N=2..3 concurrent calls; the acknowledgement of the primary call is
// delivered inside a msgs_ack batch of every layout (ids nobody waits on, ids of
// other pending / already acknowledged / already completed calls before, between
// and after it, repeated ids), then the clock runs past every retry deadline.
func c25Batch() (family, int) {
	type cse struct {
		n, primary int
		prior      string // state of the other calls when the batch arrives
		shape      string
	}
	var cases []cse
	for _, shape := range ackShapes {
		for _, n := range []int{2, 3} {
			for _, prior := range []string{"pending", "acked", "completed"} {
				for _, primary := range []int{0, n - 1} {
					cases = append(cases, cse{n, primary, prior, shape})
				}
			}
		}
	}
	return family{name: "c25-batch", run: func(idx int, _ []int) *result {
		cs := cases[idx%len(cases)]
		cfg := mkCfg(cs.n, false, time.Second, 2, gating{Hooks: map[string]bool{}})
		b := mkBudget(cfg)
		for i := 0; i < cs.n; i++ {
			b.Ack[i], b.Res[i] = 2, 1
		}
		b.Travel, b.TravelMs = 8, []int{1000}
		b.AckShapes = []string{"-", cs.shape}
		var sc []string
		for i := 0; i < cs.n; i++ {
			sc = append(sc, fmt.Sprintf("start:%d", i))
		}
		for i := 0; i < cs.n; i++ {
			if i == cs.primary {
				continue
			}
			switch cs.prior {
			case "acked":
				sc = append(sc, fmt.Sprintf("ack:%d", i))
			case "completed":
				sc = append(sc, fmt.Sprintf("res:%d", i))
			}
		}
		a := fmt.Sprintf("ack:%d", cs.primary)
		if cs.shape != "-" {
			a += ":" + cs.shape
		}
		sc = append(sc, a, "travel:1000", "travel:1000", "travel:1000", "travel:1000")
		return runScript("c25-batch", idx, cfg, b, sc, probes{})
	}}, len(cases)
}

// c25Parked: retransmission k is blocked inside the (gated) send when the
// result / error / ack for the request arrives; another interval passes; the
// send is released. With a cancel-aware transport the blocked write must be
// aborted by the result and Do must return without waiting for the release.
func c25Parked() (family, int) {
	type cse struct {
		mr, k  int
		notif  string
		honors bool
		decode bool
	}
	var cases []cse
	for mr := 2; mr <= 3; mr++ {
		for k := 0; k <= mr; k++ {
			for _, notif := range []string{"res", "err", "ack"} {
				for _, honors := range []bool{true, false} {
					cases = append(cases, cse{mr, k, notif, honors, false})
				}
			}
			cases = append(cases, cse{mr, k, "res", true, true})
		}
	}
	return family{name: "c25-parked", run: func(idx int, _ []int) *result {
		cs := cases[idx%len(cases)]
		cfg := mkCfg(1, false, time.Second, cs.mr, gating{Send: true, Decode: cs.decode, Hooks: map[string]bool{}})
		cfg.SendHonorsCtx = cs.honors
		b := mkBudget(cfg)
		b.Ack[0], b.Res[0], b.Err[0], b.Travel, b.TravelMs = 1, 1, 1, 2*cs.mr+6, []int{1000}
		sc := []string{"start:0"}
		for j := 0; j < cs.k; j++ {
			sc = append(sc, "rel:do0@send", "travel:1000")
		}
		// transmission k is parked in send now
		sc = append(sc, cs.notif+":0")
		if cs.decode {
			sc = append(sc, "travel:1000", "rel:res0@decode")
		}
		sc = append(sc, "travel:1000", "rel:do0@send", "travel:1000", "travel:1000")
		return runScript("c25-parked", idx, cfg, b, sc, probes{})
	}}, len(cases)
}

func runC25(c *mon.Ctx) {
	c.Rule("real rpc.Engine with neo fake clock and harness send function recording (msg id, seq no, encoded body, fake time) of every transmission. " +
		"(a) scripted grid MaxRetries 1..6 x ack/result position (none, after k-th transmission, issued concurrently with the timer) x failing transmission index x clock step (interval, interval/2), " +
		"every acked case once as a single-id NotifyAcks and once inside a msgs_ack batch layout; (a2) N=2..3 concurrent calls x 19 batch layouts of 1..6 ids (the pending id first/last/in the middle/repeated, mixed with ids nobody waits on and ids of other pending, acknowledged or completed calls) x state of the other calls; " +
		"an acknowledgement counts as received when the NotifyAcks call whose batch contains the id returned; empty, nil and unknown-only batches are delivered by the 'wrong' stimulus; " +
		"(b) PCT-randomized schedules with gated sends, random intervals and travel amounts, lost acks, send failures; (c) free-running. " +
		"Checker: identical identity of all transmissions of a call, count <= 1+MaxRetries, k-th transmission not before arm time of its timer period + RetryInterval, " +
		"RetryLimitReachedErr exactly after 1+MaxRetries unacknowledged transmissions, no transmission after retryUntilAck returned (hook rpc.retry.done), " +
		"and in settled schedules a due timer always produces the next transmission. distinct non-trivial as for C24 (transmission count is part of the key)")
	c.Assume("neo.Time delivers timers on Travel; a resend chosen by select while an ack is delivered but not yet consumed is counted, not asserted")
	h := newHarvest(c, "C25")
	grid, n := c25Grid()
	batch, nb := c25Batch()
	runFamilies(c, h, []famRun{
		{grid, n, 1},
		{batch, nb, 1},
		{func() family { f, _ := c25Parked(); return f }(), func() int { _, n := c25Parked(); return n }(), 1},
		{pctFamily(c, "c25-pct", "C25"), c.N(2000, 70000), 1},
		{freeFamily(c, "c25-free", "C25"), c.N(300, 20000), workersFree()},
	})
	c.Exhaustive(false)
	h.finish(hRetry)
}

// --------------------------------------------------------------------------- C26

// c26Insert: base schedule per call (start, first send returns, ack, result
// enters the decoder, decoder released) for N staggered calls; ForceClose or a
// cancel (or both) inserted at every position.
func c26Insert() (family, int) {
	type cse struct {
		n         int
		pos, pos2 int
		x, x2     string
		honors    bool
		dropFail  bool
		dropGate  bool
		deadline  bool
		base      []string
	}
	mkBase := func(n int) []string {
		per := func(i int) []string {
			return []string{fmt.Sprintf("start:%d", i), fmt.Sprintf("rel:do%d@send", i), fmt.Sprintf("ack:%d", i), fmt.Sprintf("res:%d", i), fmt.Sprintf("rel:res%d@decode", i)}
		}
		var out []string
		for step := 0; step < 5+n-1; step++ {
			for i := 0; i < n; i++ {
				if k := step - i; k >= 0 && k < 5 {
					out = append(out, per(i)[k])
				}
			}
		}
		return out
	}
	var cases []cse
	for n := 1; n <= 3; n++ {
		base := mkBase(n)
		xs := []string{"close"}
		for i := 0; i < n; i++ {
			xs = append(xs, fmt.Sprintf("cancel:%d", i))
		}
		for pos := 0; pos <= len(base); pos++ {
			for _, x := range xs {
				for v := 0; v < 8; v++ {
					if v >= 4 && x == "close" {
						break // bit 2: the caller's context ends by deadline instead of cancel
					}
					cases = append(cases, cse{n: n, pos: pos, pos2: -1, x: x, honors: v&1 == 0, dropFail: v&2 != 0, dropGate: x != "close" && v&3 == 3, deadline: v&4 != 0, base: base})
				}
			}
			if n <= 2 {
				for pos2 := pos; pos2 <= len(base); pos2++ {
					cases = append(cases, cse{n: n, pos: pos, pos2: pos2, x: "cancel:0", x2: "close", honors: pos2%2 == 0, deadline: pos%2 == 1, base: base},
						cse{n: n, pos: pos, pos2: pos2, x: "close", x2: "cancel:0", honors: pos2%2 == 1, deadline: pos%2 == 0, base: base})
				}
			}
		}
	}
	return family{name: "c26-insert", run: func(idx int, _ []int) *result {
		cs := cases[idx%len(cases)]
		g := gating{Send: true, Decode: true, Drop: cs.dropGate}
		cfg := mkCfg(cs.n, true, time.Second, 3, g)
		cfg.SendHonorsCtx = cs.honors
		b := mkBudget(cfg)
		for i := 0; i < cs.n; i++ {
			cfg.Calls[i].DropFail = cs.dropFail
			cfg.Calls[i].EndByDeadline = cs.deadline
			b.Ack[i], b.Res[i], b.Cancel[i] = 1, 1, 1
		}
		b.Close, b.CancelEarly = 1, true
		shape := ackShapes[(idx/3)%len(ackShapes)]
		b.AckShapes = []string{shape}
		var sc []string
		for p := 0; p <= len(cs.base); p++ {
			if p == cs.pos {
				sc = append(sc, cs.x)
			}
			if p == cs.pos2 {
				sc = append(sc, cs.x2)
			}
			if p < len(cs.base) {
				a := cs.base[p]
				if strings.HasPrefix(a, "ack:") && shape != "-" {
					a += ":" + shape
				}
				sc = append(sc, a)
			}
		}
		if cs.dropGate {
			sc = append(sc, "res:0", "rel:do0@drop")
		}
		return runScript("c26-insert", idx, cfg, b, sc, probes{LateRes: true, PostCloseDo: true})
	}}, len(cases)
}

// c26ResendEnd: the caller's context ends (cancel or deadline) while a
// RETRANSMISSION is blocked in send, or right after it was written.
func c26ResendEnd() (family, int) {
	type cse struct {
		deadline, honors, during, acked bool
		k                               int
	}
	var cases []cse
	for v := 0; v < 16; v++ {
		for k := 1; k <= 2; k++ {
			cases = append(cases, cse{v&1 != 0, v&2 != 0, v&4 != 0, v&8 != 0, k})
		}
	}
	return family{name: "c26-resend-end", run: func(idx int, _ []int) *result {
		cs := cases[idx%len(cases)]
		cfg := mkCfg(1, true, time.Second, 3, gating{Send: true, Decode: true})
		cfg.SendHonorsCtx = cs.honors
		cfg.Calls[0].EndByDeadline = cs.deadline
		b := mkBudget(cfg)
		b.Ack[0], b.Res[0], b.Cancel[0], b.Close, b.Travel, b.TravelMs = 1, 1, 1, 1, 8, []int{1000}
		sc := []string{"start:0", "rel:do0@send"}
		for j := 1; j < cs.k; j++ {
			sc = append(sc, "travel:1000", "rel:do0@send")
		}
		sc = append(sc, "travel:1000") // retransmission k parked in send
		if cs.acked {
			sc = append(sc, "ack:0")
		}
		if cs.during {
			sc = append(sc, "cancel:0", "rel:do0@send")
		} else {
			sc = append(sc, "rel:do0@send", "cancel:0")
		}
		sc = append(sc, "res:0", "rel:res0@decode")
		return runScript("c26-resend-end", idx, cfg, b, sc, probes{LateRes: true, PostCloseDo: true})
	}}, len(cases)
}

func runC26(c *mon.Ctx) {
	c.Rule("same harness as C24. (a) base schedule (start, first send returns, ack, result enters decoder, decoder released) for N=1..3 staggered calls with ForceClose / cancel / both inserted at every position, " +
		"send and decoder gated, send honouring its context or not, drop handler failing or not; (b) DFS enumeration for N=2 over {release send ok/fail, ack, cancel, close, result}; " +
		"(c) PCT-randomized and (d) free-running schedules that always contain a ForceClose; a reserved call is started after ForceClose returned. " +
		"Checker: after the drain (all gates open + ForceClose) no goroutine of the world may remain (decided on goroutine dumps of a settled world); unacknowledged-at-close calls return errors.Is(ErrEngineClosed); " +
		"calls acknowledged before close started never do; drop handler calls = 1 iff Do returned its context error and the first send had returned nil, else 0; Do after close returns ErrEngineClosed without sending")
	c.Assume("the retry-on-new-connection consequence (pool / telegram invoke) is observed by poolmon, not here; goroutine states reported by runtime.Stack are trusted")
	h := newHarvest(c, "C26")
	ins, n := c26Insert()
	rse, nr := c26ResendEnd()
	runFamilies(c, h, []famRun{{ins, n, 1}, {rse, nr, 1}})
	g := gating{Send: true, Decode: true}
	ecfg := func() worldCfg {
		cfg := mkCfg(2, true, time.Second, 2, g)
		cfg.Calls[1].EndByDeadline = true // "cancel:1" is an expiring deadline
		return cfg
	}
	eb := mkBudget(ecfg())
	eb.Ack[0], eb.Ack[1], eb.Cancel[0], eb.Cancel[1], eb.Res[0], eb.Close, eb.SendFail = 1, 1, 1, 1, 1, 1, 1
	_, ex := runEnum(c, h, "c26-enum2", ecfg, eb, []string{"start:0", "start:1"}, c.N(5, 7), c.N(1500, 60000), probes{PostCloseDo: true})
	c.Exhaustive(ex)
	runFamilies(c, h, []famRun{
		{pctFamily(c, "c26-pct", "C26"), c.N(1500, 70000), 1},
		{freeFamily(c, "c26-free", "C26"), c.N(500, 30000), workersFree()},
	})
	h.finish(hRetry, hCtxDone)
}
