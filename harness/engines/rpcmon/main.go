// Engine rpcmon: schedule-controlled runtime monitor for the rpc.Engine
// (C24 result routing / output lifetime, C25 retransmission, C26 close and
// cancel). The real engine runs against harness-owned fakes (send function,
// Output decoder, drop handler, neo fake clock); a schedule controller holds the
// goroutines at the fakes and at verifhook points, releases them in scripted
// (enumerated), PCT-randomized and free-running orders, and offline checkers
// decide on the recorded boundary event log only.
package main

import (
	"encoding/json"
	"fmt"
	"hash/fnv"
	"os"
	"runtime"
	"strconv"
	"strings"
	"sync"
	"time"

	"verif/harness/mon"
)

func main() {
	mon.Main("rpcmon", map[string]mon.PropFunc{
		"C24": runC24,
		"C25": runC25,
		"C26": runC26,
	})
}

// family is a named, indexed set of schedules. run(idx, choices) executes one
// of them; choices is only used by enumerated families (replay).
type family struct {
	name string
	run  func(idx int, choices []int) *result
}

type harvest struct {
	c    *mon.Ctx
	prop string

	mu         sync.Mutex
	schedSigs  map[uint64]struct{}
	pendingAck int
	hookHits   map[string]int
	classes    map[string]int
	incon      bool
	families   map[string]int
}

func newHarvest(c *mon.Ctx, prop string) *harvest {
	return &harvest{c: c, prop: prop, schedSigs: map[uint64]struct{}{}, hookHits: map[string]int{}, classes: map[string]int{}, families: map[string]int{}}
}

type witness struct {
	Family  string   `json:"family"`
	Index   int      `json:"index"`
	Choices []int    `json:"choices,omitempty"`
	N       int      `json:"n"`
	Retry   string   `json:"retry"`
	Gate    string   `json:"gate"`
	Actions []string `json:"actions"`
	Probes  []string `json:"probes,omitempty"`
	Detail  string   `json:"detail"`
	Events  []string `json:"events"`
}

func gateString(g gating) string {
	var s []string
	if g.Send {
		s = append(s, "send")
	}
	if g.Decode {
		s = append(s, "decode")
	}
	if g.Drop {
		s = append(s, "drop")
	}
	for _, h := range []string{"rpc.handler.enter", "rpc.retry.done", "rpc.ctxdone"} {
		if g.Hooks[h] {
			s = append(s, h)
		}
	}
	if g.Jitter {
		s = append(s, "free-running")
	}
	return strings.Join(s, ",")
}

func (h *harvest) take(res *result, choices []int) {
	c := h.c
	if res.Incon != "" {
		h.mu.Lock()
		first := !h.incon
		h.incon = true
		h.mu.Unlock()
		if first {
			c.Inconclusive(fmt.Sprintf("%s#%d: %s", res.Family, res.Index, res.Incon))
		}
		return
	}
	v := buildView(res)
	var fs []finding
	switch h.prop {
	case "C24":
		fs = checkC24(res, v)
	case "C25":
		var p int
		fs, p = checkC25(res, v)
		h.mu.Lock()
		h.pendingAck += p
		h.mu.Unlock()
	case "C26":
		fs = checkC26(res, v)
	}
	fs = append(fs, checkPanics(res, h.prop)...)
	for _, f := range fs {
		evs := make([]string, 0, len(res.Events))
		for _, e := range res.Events {
			evs = append(evs, e.String())
		}
		if len(evs) > 400 {
			evs = evs[:400]
		}
		c.Violate(f.Sig, witness{Family: res.Family, Index: res.Index, Choices: choices, N: res.Cfg.N,
			Retry: fmt.Sprintf("interval=%s max=%d sendHonorsCtx=%v", res.Cfg.RetryInterval, res.Cfg.MaxRetries, res.Cfg.SendHonorsCtx),
			Gate:  gateString(res.Cfg.Gate), Actions: res.Actions, Probes: res.Probes, Detail: f.Detail, Events: evs})
	}
	c.Eval(1)
	hs := fnv.New64a()
	hs.Write([]byte(gateString(res.Cfg.Gate)))
	for _, a := range res.Actions {
		hs.Write([]byte(a))
		hs.Write([]byte{0})
	}
	var classes []string
	for _, cv := range v.calls {
		if cv.doCall == 0 {
			continue
		}
		c.Distinct(outcomeKey(res, v, cv))
		classes = append(classes, cv.class)
	}
	h.mu.Lock()
	h.schedSigs[hs.Sum64()] = struct{}{}
	for k, n := range res.HookHit {
		h.hookHits[k] += n
	}
	for _, k := range classes {
		h.classes[k]++
	}
	h.families[res.Family]++
	h.mu.Unlock()
	c.Sample(res.Family, map[string]any{"index": res.Index, "gate": gateString(res.Cfg.Gate), "actions": res.Actions, "returns": classes})
}

func (h *harvest) finish(needHooks ...string) {
	c := h.c
	h.mu.Lock()
	defer h.mu.Unlock()
	c.Set("distinct_schedule_signatures", len(h.schedSigs))
	c.Set("hook_hits", h.hookHits)
	c.Set("return_classes", h.classes)
	c.Set("schedules_per_family", h.families)
	c.Set("settle_calls", statSettles.Load())
	c.Set("goroutine_dumps", statDumps.Load())
	if h.prop == "C25" {
		c.Set("resends_with_ack_delivered_but_not_yet_consumed", h.pendingAck)
	}
	for _, p := range needHooks {
		if h.hookHits[p] == 0 && c.Replay == "" {
			c.Inconclusive("hook point " + p + " never reached (hook patch not applied to the tree under test?)")
		}
	}
}

// replayTarget reads family/index/choices from a replay file.
func replayTarget(c *mon.Ctx) (string, int, []int, bool) {
	if c.Replay == "" {
		return "", 0, nil, false
	}
	data, err := os.ReadFile(c.Replay)
	if err != nil {
		return "", 0, nil, false
	}
	var r struct {
		Witness witness `json:"witness"`
	}
	if json.Unmarshal(data, &r) != nil || r.Witness.Family == "" {
		return "", 0, nil, false
	}
	return r.Witness.Family, r.Witness.Index, r.Witness.Choices, true
}

// runFamilies executes the given (family, count) list, in parallel over the
// index for non-enumerated families.
type famRun struct {
	f       family
	n       int
	workers int
}

// Every settle takes a stop-the-world goroutine dump and waits for woken
// goroutines to run: with one P both are cheap and independent of machine load
// (no OS-thread hand-offs), and the schedules are controller-driven anyway. Only
// the free-running family gets several Ps for real parallelism.
func setProcs(free bool) {
	procs := 1
	if free {
		procs = 4
	}
	if v, err := strconv.Atoi(os.Getenv("RPCMON_PROCS")); err == nil && v > 0 {
		procs = v
	}
	runtime.GOMAXPROCS(procs)
}

func init() { setProcs(false) }

func workersFree() int {
	if v, err := strconv.Atoi(os.Getenv("RPCMON_WORKERS")); err == nil && v > 0 {
		return v
	}
	return 2
}

func runFamilies(c *mon.Ctx, h *harvest, runs []famRun) {
	if fam, idx, choices, ok := replayTarget(c); ok {
		for _, r := range runs {
			if r.f.name == fam {
				h.take(r.f.run(idx, choices), choices)
			}
		}
		return
	}
	for _, r := range runs {
		t0 := time.Now()
		w := r.workers
		setProcs(w > 1)
		if w <= 1 {
			for i := 0; i < r.n; i++ {
				h.take(r.f.run(i, nil), nil)
			}
		} else {
			var wg sync.WaitGroup
			next := make(chan int)
			for k := 0; k < w; k++ {
				wg.Add(1)
				go func() {
					defer wg.Done()
					for i := range next {
						h.take(r.f.run(i, nil), nil)
					}
				}()
			}
			for i := 0; i < r.n; i++ {
				next <- i
			}
			close(next)
			wg.Wait()
		}
		setProcs(false)
		c.Set("wall_s_"+r.f.name, fmt.Sprintf("%.1f", time.Since(t0).Seconds()))
	}
}

// enumFamily runs a stateless DFS enumeration; it is not index addressable, so
// it takes the harvest directly. Returns executions and exhaustion.
func runEnum(c *mon.Ctx, h *harvest, name string, cfg func() worldCfg, b *budget, pre []string, maxDepth, maxRuns int, pr probes) (int, bool) {
	one := func(idx int, choices []int) (*result, []int) {
		return runScheduleFrom(name, idx, cfg(), b, pre, maxDepth, pr, func(step int, en []action) int {
			if step < len(choices) {
				return choices[step]
			}
			return 0
		})
	}
	if fam, idx, choices, ok := replayTarget(c); ok {
		if fam == name {
			res, _ := one(idx, choices)
			h.take(res, choices)
		}
		return 0, false
	}
	t0 := time.Now()
	n, done := enumerate(maxDepth, maxRuns, func(idx int, choices []int) []int {
		res, br := one(idx, choices)
		full := append([]int(nil), choices...)
		for len(full) < len(br) {
			full = append(full, 0)
		}
		h.take(res, full)
		return br
	})
	c.Set("enum_"+name, map[string]any{"executions": n, "exhausted": done, "max_depth": maxDepth, "wall_s": fmt.Sprintf("%.1f", time.Since(t0).Seconds())})
	return n, done
}
