package main

import (
	"bytes"
	"encoding/binary"
	"fmt"
	"hash/crc32"
	"math/rand/v2"
	"sort"

	"github.com/gotd/td/mtproxy"
	"github.com/gotd/td/mtproxy/obfuscated2"
)

// hcase is one hostile (or control) input.
type hcase struct {
	proto, mode, chunk byte
	family             string
	lclass             string   // class of the (first hostile) claimed length
	claimed            int64    // claimed length value, -1 if not applicable
	stream             []byte   // bytes served to the real code, then EOF
	expect             [][]byte // control inputs only: the payloads a correct decoder returns (4-byte payload = ProtocolErr)
	control            bool
}

func (h *hcase) encode() []byte {
	out := make([]byte, 0, 4+len(h.stream))
	out = append(out, h.proto, h.mode, h.chunk, 0)
	return append(out, h.stream...)
}

func le32(v uint32) []byte {
	var b [4]byte
	binary.LittleEndian.PutUint32(b[:], v)
	return b[:]
}

func randBytes(r *rand.Rand, n int) []byte {
	b := make([]byte, n)
	for i := range b {
		b[i] = byte(r.Uint32())
	}
	return b
}

type randReader struct{ r *rand.Rand }

func (r randReader) Read(p []byte) (int, error) {
	for i := range p {
		p[i] = byte(r.r.Uint32())
	}
	return len(p), nil
}

const frameLimit = 1 << 24 // proto/codec maxMessageSize, "16 MB"

func lenClass(v int64) string {
	switch {
	case v < 0:
		return "n/a"
	case v == 0:
		return "0"
	case v <= 3:
		return "1-3"
	case v <= 7:
		return "4-7"
	case v <= 11:
		return "8-11"
	case v <= 64:
		return "12-64"
	case v <= 4096:
		return "<=4KiB"
	case v <= 1<<20:
		return "<=1MiB"
	case v <= frameLimit:
		return "<=16MiB"
	case v < 1<<31:
		return ">16MiB"
	}
	return ">=2^31"
}

// interesting32 is the exhaustive short-prefix core plus powers of two and their
// neighbours, the frame limit and its neighbours and "negative" values.
func interesting32() []uint32 {
	set := map[uint32]struct{}{}
	for v := uint32(0); v <= 64; v++ {
		set[v] = struct{}{}
	}
	for k := 0; k <= 32; k++ {
		p := uint32(uint64(1) << k)
		for _, d := range []uint32{0, 1, ^uint32(0), 4, ^uint32(3)} { // 2^k, ±1, ±4
			set[p+d] = struct{}{}
		}
	}
	for _, v := range []uint32{frameLimit + 12, frameLimit - 12, frameLimit + 16, 0x7fffffff, 0x80000000, 0xffffffff, 0xfffffffc, 0xfffffff4, 0xfffffff0, 0x00ffffff, 0x00fffffc, 0x01000000, 0xefefefef, 0xeeeeeeee, 0xdddddddd} {
		set[v] = struct{}{}
	}
	out := make([]uint32, 0, len(set))
	for v := range set {
		out = append(out, v)
	}
	sort.Slice(out, func(i, j int) bool { return out[i] < out[j] })
	return out
}

func header(proto byte) []byte {
	switch proto {
	case pAbridged:
		return []byte{0xef}
	case pIntermediate:
		return []byte{0xee, 0xee, 0xee, 0xee}
	case pPadded:
		return []byte{0xdd, 0xdd, 0xdd, 0xdd}
	}
	return nil
}

// detectLabel names the codec transport.Listen will pick for a stream (label for
// signatures and coverage keys only, never part of a verdict).
func detectLabel(stream []byte) string {
	if len(stream) >= 1 && stream[0] == 0xef {
		return protoName[pAbridged]
	}
	if len(stream) >= 4 {
		switch {
		case bytes.Equal(stream[:4], header(pIntermediate)):
			return protoName[pIntermediate]
		case bytes.Equal(stream[:4], header(pPadded)):
			return protoName[pPadded]
		}
		return protoName[pFull]
	}
	return "undetected"
}

// Harness-side frame writers (transcribed from core.telegram.org/mtproto/mtproto-transports,
// independent of the writers in proto/codec; the real reader decoding them is the control).
func abridgedPrefix(words uint32, marker byte) []byte {
	if marker == 0 {
		return []byte{byte(words)}
	}
	return []byte{marker, byte(words), byte(words >> 8), byte(words >> 16)}
}

func frame(proto byte, seq uint32, payload []byte, r *rand.Rand) []byte {
	switch proto {
	case pAbridged:
		w := uint32(len(payload) / 4)
		if w < 127 {
			return append(abridgedPrefix(w, 0), payload...)
		}
		return append(abridgedPrefix(w, 0x7f), payload...)
	case pIntermediate:
		return append(le32(uint32(len(payload))), payload...)
	case pPadded:
		pad := randBytes(r, r.IntN(4))
		out := append(le32(uint32(len(payload)+len(pad))), payload...)
		return append(out, pad...)
	default:
		out := append(le32(uint32(len(payload)+12)), le32(seq)...)
		out = append(out, payload...)
		return append(out, le32(crc32.ChecksumIEEE(out))...)
	}
}

// prefixLen returns the length of the length prefix of a harness-built frame.
func prefixLen(proto byte, payloadLen int) int {
	if proto == pAbridged && payloadLen/4 < 127 {
		return 1
	}
	return 4
}

// validStream is a well-formed stream with known frame offsets.
type validStream struct {
	proto    byte
	data     []byte
	starts   []int // offset of every frame's length prefix
	payloads [][]byte
}

var validLens = []int{4, 8, 12, 16, 16, 24, 32, 64, 128, 504, 508, 512}

func genValid(r *rand.Rand, proto byte, frames int) validStream {
	vs := validStream{proto: proto}
	for i := 0; i < frames; i++ {
		n := validLens[r.IntN(len(validLens))]
		p := randBytes(r, n)
		if n == 4 {
			// a transport error frame: negative int32 code
			binary.LittleEndian.PutUint32(p, uint32(-int32(1+r.IntN(600))))
		}
		vs.starts = append(vs.starts, len(vs.data))
		vs.data = append(vs.data, frame(proto, uint32(i), p, r)...)
		vs.payloads = append(vs.payloads, p)
	}
	return vs
}

// encodeClaim is a length prefix claiming v in the protocol's own encoding.
// variant selects the abridged form: 0 one byte, otherwise the marker byte.
func encodeClaim(proto byte, v uint32, marker byte) []byte {
	if proto == pAbridged {
		return abridgedPrefix(v, marker)
	}
	return le32(v)
}

// claimedBody is how many bytes the prefix makes the reader want next.
func claimedBody(proto byte, v uint32, marker byte) int64 {
	switch proto {
	case pAbridged:
		if marker == 0 {
			return int64(v&0xff) * 4
		}
		return int64(v&0xffffff) * 4
	case pFull:
		return int64(v) - 4
	}
	return int64(v)
}

// obfKeystream runs the real obfuscated2 client handshake over a buffer and
// returns the 64-byte header and n bytes of client→server keystream, so that the
// harness can choose the plaintext the obfuscated listener will see.
func obfKeystream(r *rand.Rand, tag [4]byte, n int) (hdr, ks []byte, err error) {
	var w bytes.Buffer
	o := obfuscated2.NewObfuscated2(randReader{r}, &w)
	if err := o.Handshake(tag, 2, mtproxy.Secret{}); err != nil {
		return nil, nil, err
	}
	hdr = append([]byte(nil), w.Bytes()...)
	w.Reset()
	if _, err := o.Write(make([]byte, n)); err != nil {
		return nil, nil, err
	}
	return hdr, append([]byte(nil), w.Bytes()...), nil
}

func obfTag(proto byte) [4]byte {
	switch proto {
	case pAbridged:
		return [4]byte{0xef, 0xef, 0xef, 0xef}
	case pPadded:
		return [4]byte{0xdd, 0xdd, 0xdd, 0xdd}
	}
	return [4]byte{0xee, 0xee, 0xee, 0xee}
}

func xorBytes(a, ks []byte) []byte {
	out := make([]byte, len(a))
	for i := range a {
		out[i] = a[i] ^ ks[i]
	}
	return out
}

func (h hcase) String() string {
	return fmt.Sprintf("%s/%s/%s claimed=%d len=%d", protoName[h.proto%nProto], modeName[h.mode%nMode], h.family, h.claimed, len(h.stream))
}
