package main

import (
	"bytes"
	"context"
	"errors"
	"fmt"
	"hash/crc32"
	"io"
	"net"
	"os"
	"time"

	"github.com/gotd/td/bin"
	"github.com/gotd/td/proto/codec"
	"github.com/gotd/td/transport"

	"verif/harness/mon"
)

// Protocols.
const (
	pAbridged = iota
	pIntermediate
	pPadded
	pFull
	nProto
)

var protoName = [...]string{"abridged", "intermediate", "padded", "full"}

// Modes of feeding the stream to the real code.
const (
	mRead      = iota // codec.Read, fresh bin.Buffer per call
	mReuse            // codec.Read, one bin.Buffer reused (as mtproto's read loop does)
	mHeader           // codec.ReadHeader, then codec.Read
	mListen           // transport.Listen(ln).Accept() (codec detection), then Conn.Recv
	mObfListen        // transport.Listen(transport.ObfuscatedListener(ln)).Accept(), then Conn.Recv
	nMode
)

var modeName = [...]string{"read", "reuse", "hdr", "listen", "obflisten"}

// Reader chunking inside the child.
const (
	chWhole = iota
	chOne
	chEOFCombined
)

const maxFramesPerInput = 6

func newCodec(p byte) codec.Codec {
	switch p {
	case pAbridged:
		return codec.Abridged{}
	case pIntermediate:
		return codec.Intermediate{}
	case pPadded:
		return codec.PaddedIntermediate{}
	default:
		return &codec.Full{}
	}
}

// hostileReader serves a fixed byte string and then io.EOF: the claimed body of
// an oversized frame is never supplied.
type hostileReader struct {
	data  []byte
	pos   int
	chunk byte
	calls int
}

func (r *hostileReader) Read(p []byte) (int, error) {
	r.calls++
	if len(p) == 0 {
		return 0, nil
	}
	if r.pos >= len(r.data) {
		return 0, io.EOF
	}
	n := len(p)
	if r.chunk == chOne {
		n = 1
	}
	if n > len(r.data)-r.pos {
		n = len(r.data) - r.pos
	}
	copy(p, r.data[r.pos:r.pos+n])
	r.pos += n
	if r.chunk == chEOFCombined && r.pos == len(r.data) {
		return n, io.EOF
	}
	return n, nil
}

// fakeConn is a net.Conn over a hostileReader; writes are discarded.
type fakeConn struct{ r io.Reader }

type fakeAddr struct{}

func (fakeAddr) Network() string { return "verif" }
func (fakeAddr) String() string  { return "verif" }

func (c fakeConn) Read(p []byte) (int, error)       { return c.r.Read(p) }
func (c fakeConn) Write(p []byte) (int, error)      { return len(p), nil }
func (c fakeConn) Close() error                     { return nil }
func (c fakeConn) LocalAddr() net.Addr              { return fakeAddr{} }
func (c fakeConn) RemoteAddr() net.Addr             { return fakeAddr{} }
func (c fakeConn) SetDeadline(time.Time) error      { return nil }
func (c fakeConn) SetReadDeadline(time.Time) error  { return nil }
func (c fakeConn) SetWriteDeadline(time.Time) error { return nil }

// oneListener hands out a single connection.
type oneListener struct {
	conn net.Conn
	used bool
}

func (l *oneListener) Accept() (net.Conn, error) {
	if l.used {
		return nil, io.EOF
	}
	l.used = true
	return l.conn, nil
}
func (l *oneListener) Close() error   { return nil }
func (l *oneListener) Addr() net.Addr { return fakeAddr{} }

// childResult is what the child reports for one input.
type childResult struct {
	Frames   int      `json:"frames"`             // frames returned (ProtocolErr frames included)
	Lens     []int    `json:"lens,omitempty"`     // payload lengths (ProtocolErr: 4)
	Sums     []uint32 `json:"sums,omitempty"`     // crc32 of payloads (ProtocolErr: the code)
	Err      string   `json:"err,omitempty"`      // terminating error class
	ErrText  string   `json:"err_text,omitempty"` // terminating error text (truncated)
	MaxAlloc uint64   `json:"max_alloc"`          // largest TotalAlloc delta of a single call into the real code
	Calls    int      `json:"calls"`              // calls into the real code (ReadHeader/Accept/Read/Recv)
	Reads    int      `json:"reads"`              // Read calls the real code issued on the harness reader
	Panic    string   `json:"panic,omitempty"`    // recover mode only: the panic value
	Stack    string   `json:"stack,omitempty"`    // recover mode only: the stack of the panic
}

func errClass(err error) string {
	var pe *codec.ProtocolErr
	s := err.Error()
	switch {
	case errors.As(err, &pe):
		return "protoerr"
	case errors.Is(err, io.ErrUnexpectedEOF):
		return "unexpected-eof"
	case errors.Is(err, io.EOF):
		return "eof"
	case errors.Is(err, codec.ErrProtocolHeaderMismatch):
		return "header-mismatch"
	case bytes.Contains([]byte(s), []byte("invalid message length")):
		return "invalid-len"
	case bytes.Contains([]byte(s), []byte("crc mismatch")):
		return "crc"
	case bytes.Contains([]byte(s), []byte("seq_no mismatch")):
		return "seqno"
	}
	return "other"
}

// c17Child processes one input in the child process. By default nothing is
// recovered: a panic of the library kills the child exactly as it would kill a
// client, and the parent classifies the death (see recoverMode below for the
// economy mode the parent may switch on after two dozen observed deaths).
func c17Child(in []byte) any {
	if len(in) < 4 {
		return childResult{Err: "bad-input"}
	}
	proto, mode, chunk := in[0], in[1], in[2]
	r := &hostileReader{data: in[4:], chunk: chunk}
	res := childResult{}
	// Recover mode (VERIF_RECOVER=1) is switched on by the parent only after it has
	// already observed a few dozen genuine process deaths in earlier batches of the
	// same run: further panics are then reported in-band (same value, same stack)
	// instead of paying one process restart each. Fatal errors still kill the child.
	recoverMode := os.Getenv("VERIF_RECOVER") == "1"
	measure := func(f func()) {
		if recoverMode && res.Panic == "" {
			g := f
			f = func() {
				if pv, stack := mon.Try(g); pv != nil {
					res.Panic, res.Stack = fmt.Sprint(pv), stack
				}
			}
		}
		a, _ := mon.MeasureAlloc(f)
		res.Calls++
		if a > res.MaxAlloc {
			res.MaxAlloc = a
		}
	}
	fail := func(err error) childResult {
		res.Err = errClass(err)
		res.ErrText = err.Error()
		if len(res.ErrText) > 120 {
			res.ErrText = res.ErrText[:120]
		}
		res.Reads = r.calls
		return res
	}
	// read is one frame-read call of the real code, whatever the mode.
	var read func(b *bin.Buffer) error
	switch mode {
	case mRead, mReuse, mHeader:
		cdc := newCodec(proto)
		if mode == mHeader {
			var err error
			measure(func() { err = cdc.ReadHeader(r) })
			if res.Panic != "" {
				return res
			}
			if err != nil {
				return fail(err)
			}
		}
		read = func(b *bin.Buffer) error { return cdc.Read(r, b) }
	case mListen, mObfListen:
		var ln net.Listener = &oneListener{conn: fakeConn{r: r}}
		if mode == mObfListen {
			ln = transport.ObfuscatedListener(ln)
		}
		var (
			conn transport.Conn
			err  error
		)
		measure(func() { conn, err = transport.Listen(ln).Accept() })
		if res.Panic != "" {
			return res
		}
		if err != nil {
			return fail(err)
		}
		ctx := context.Background()
		read = func(b *bin.Buffer) error { return conn.Recv(ctx, b) }
	default:
		return childResult{Err: "bad-mode"}
	}
	b := &bin.Buffer{}
	for res.Frames < maxFramesPerInput {
		if mode != mReuse {
			b = &bin.Buffer{}
		}
		var err error
		measure(func() { err = read(b) })
		if res.Panic != "" {
			res.Reads = r.calls
			return res
		}
		if err != nil {
			var pe *codec.ProtocolErr
			if errors.As(err, &pe) {
				res.Frames++
				res.Lens = append(res.Lens, 4)
				res.Sums = append(res.Sums, uint32(pe.Code))
				continue
			}
			return fail(err)
		}
		res.Frames++
		res.Lens = append(res.Lens, b.Len())
		res.Sums = append(res.Sums, crc32.ChecksumIEEE(b.Buf))
	}
	res.Reads = r.calls
	return res
}
