// Engine codecmon17: crash observation + allocation meter for hostile transport
// input (C17). Built WITHOUT -race so that the allocation meter and the
// address-space guard of the child batches are meaningful.
package main

import (
	"verif/harness/mon"
)

func main() {
	mon.RegisterBatch("c17", c17Child)
	mon.Main("codecmon17", map[string]mon.PropFunc{
		"C17": runC17,
	})
}
