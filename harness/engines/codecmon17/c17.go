package main

import (
	"encoding/binary"
	"encoding/hex"
	"encoding/json"
	"fmt"
	"hash/crc32"
	"regexp"
	"strconv"
	"strings"
	"time"

	"verif/harness/mon"
)

// allocBound is the most one call into the real reader may allocate: the
// documented frame limit (proto/codec maxMessageSize, 16 MiB) plus 4 MiB slack
// for buffer growth, error values and runtime noise. The unbounded make() the
// property is about overshoots it by a factor of 3 or more.
const allocBound = frameLimit + 4<<20

func hx(b []byte) string {
	if len(b) > 160 {
		return hex.EncodeToString(b[:160]) + fmt.Sprintf("...(%d bytes)", len(b))
	}
	return hex.EncodeToString(b)
}

// tdFrames extracts the first two gotd/td frames of the crashing goroutine.
func tdFrames(stderr string) string {
	var frames []string
	for _, line := range strings.Split(stderr, "\n") {
		if !strings.HasPrefix(line, "github.com/gotd/td/") {
			continue
		}
		f := strings.TrimPrefix(line, "github.com/gotd/td/")
		if i := strings.LastIndex(f, "("); i > 0 {
			f = f[:i]
		}
		if len(frames) > 0 && frames[len(frames)-1] == f {
			continue
		}
		frames = append(frames, f)
		if len(frames) == 2 {
			break
		}
	}
	if len(frames) == 0 {
		return "no-td-frame"
	}
	return strings.Join(frames, "<")
}

var reOOMBlock = regexp.MustCompile(`cannot allocate (\d+)-byte block`)

// labelFromErr names the codec that actually ran from the error text of the
// real reader (listener modes: the harness cannot know what was detected behind
// the obfuscation). Label for signatures only.
func labelFromErr(text, fallback string) string {
	for _, p := range []struct{ needle, name string }{
		{"read abridged", "abridged"}, {"read padded intermediate", "padded"}, {"read intermediate", "intermediate"}, {"read full", "full"},
	} {
		if strings.Contains(text, p.needle) {
			return p.name
		}
	}
	return fallback
}

func labelFromStack(stack, fallback string) string {
	for _, p := range []struct{ needle, name string }{
		{"codec.readFull", "full"}, {"codec.readAbridged", "abridged"}, {"codec.readPaddedIntermediate", "padded"}, {"codec.PaddedIntermediate", "padded"}, {"codec.readIntermediate", "intermediate"},
	} {
		if strings.Contains(stack, p.needle) {
			return p.name
		}
	}
	return fallback
}

var reNum = regexp.MustCompile(`\[[^\]]*\]|-?\d+`)

func panicKind(stderr string) string {
	for _, line := range strings.Split(stderr, "\n") {
		if strings.HasPrefix(line, "panic: ") {
			k := reNum.ReplaceAllString(strings.TrimPrefix(line, "panic: "), "")
			return strings.TrimSpace(strings.ReplaceAll(k, "  ", " "))
		}
	}
	return ""
}

func genC17(c *mon.Ctx) []hcase {
	var cases []hcase
	add := func(h hcase) {
		if h.claimed >= 0 || h.lclass == "" {
			h.lclass = lenClass(h.claimed)
		}
		cases = append(cases, h)
	}
	ivals := interesting32()
	r := c.Rand("c17/gen")

	// withMode returns the stream as the mode needs it (header prepended for hdr/listen).
	withMode := func(proto, mode byte, frames []byte) []byte {
		if mode == mHeader || mode == mListen {
			return append(append([]byte(nil), header(proto)...), frames...)
		}
		return frames
	}

	// F1 "prefix": every interesting claimed length as the FIRST frame, with no body
	// (EOF after the prefix), a zero body (as much as claimed, at most 256 bytes),
	// and for the full protocol a body with matching seqno and correct CRC.
	// F2 "second": the same prefixes after one valid 16-byte frame (seqno 1).
	for _, second := range []bool{false, true} {
		for proto := byte(0); proto < nProto; proto++ {
			markers := []byte{0}
			if proto == pAbridged {
				markers = []byte{0, 0x7f, 0x80, 0xff}
			}
			for _, marker := range markers {
				for _, v := range ivals {
					if proto == pAbridged && marker == 0 && v > 0xff {
						continue
					}
					if proto == pAbridged && marker != 0 && v > 0xffffff {
						continue
					}
					if proto == pAbridged && marker == 0 && v >= 127 {
						continue // that byte IS a marker; covered by the marker forms
					}
					pow2 := v&(v-1) == 0 || v == frameLimit+4 || v == 0xffffff
					if v > 64 && !pow2 && (second || (marker != 0 && marker != 0x7f)) {
						continue // the dense part of the value list runs once per protocol (first frame, canonical marker)
					}
					seq := uint32(0)
					var lead []byte
					if second {
						lead = frame(proto, 0, randBytes(r, 16), r)
						seq = 1
					}
					prefix := encodeClaim(proto, v, marker)
					body := claimedBody(proto, v, marker)
					tails := map[string][]byte{"none": nil}
					if body > 0 {
						n := body
						if n > 256 {
							n = 256
						}
						z := make([]byte, n)
						if proto == pFull && n >= 4 {
							binary.LittleEndian.PutUint32(z, seq)
						}
						tails["zeros"] = z
					} else {
						tails["zeros16"] = append(le32(seq), make([]byte, 12)...)
					}
					if proto == pFull && v >= 12 && v <= 4096 {
						f := append(le32(v), le32(seq)...)
						f = append(f, randBytes(r, int(v)-12)...)
						f = append(f, le32(crc32.ChecksumIEEE(f))...)
						tails["crc-ok"] = f[4:]
					}
					if proto == pFull && v >= 8 && v < 12 {
						// a frame shorter than its own framing (no room for the seqno) whose
						// last four bytes are nevertheless a correct CRC of what precedes them
						f := append(le32(v), randBytes(r, int(v)-8)...)
						f = append(f, le32(crc32.ChecksumIEEE(f))...)
						tails["crc-ok"] = f[4:]
					}
					for _, tn := range []string{"none", "zeros", "zeros16", "crc-ok"} {
						tail, ok := tails[tn]
						if !ok {
							continue
						}
						// Claims above 64 that pass validation cost a multi-MiB allocation each:
						// no body + codec.Read for all of them, the other tails / modes for
						// powers of two only.
						var modes []byte
						switch {
						case v <= 64 && second:
							modes = []byte{mReuse, mRead}
						case v <= 64:
							modes = []byte{mRead, mHeader, mListen}
						case second:
							if tn != "none" {
								continue
							}
							modes = []byte{mReuse}
						case tn == "none" && pow2:
							modes = []byte{mRead, mListen}
						case tn == "none" || pow2:
							modes = []byte{mRead}
						default:
							continue
						}
						for _, mode := range modes {
							chunk := byte(chWhole)
							if v <= 64 && mode == mRead && tn != "none" {
								chunk = chOne
							}
							if mode == mListen && tn == "zeros" {
								chunk = chEOFCombined
							}
							fam := "prefix"
							if second {
								fam = "second"
							}
							s := append(append(append([]byte(nil), lead...), prefix...), tail...)
							add(hcase{proto: proto, mode: mode, chunk: chunk, family: fam + "/" + tn, claimed: int64(v), stream: withMode(proto, mode, s)})
						}
					}
				}
			}
		}
	}

	// Controls + F3 "mutate" + F4 "truncate" over valid streams.
	nStreams := c.N(36, 400)
	nTrunc := c.N(5, 20)
	for proto := byte(0); proto < nProto; proto++ {
		for si := 0; si < nStreams; si++ {
			rs := c.RandN(fmt.Sprintf("c17/valid/%d", proto), si)
			vs := genValid(rs, proto, 1+rs.IntN(3))
			mode := []byte{mRead, mReuse, mHeader, mListen}[si%4]
			// control: the unmodified stream must decode to the payloads
			add(hcase{proto: proto, mode: mode, chunk: byte(si % 3), family: "control", claimed: -1, lclass: "valid",
				stream: withMode(proto, mode, vs.data), expect: vs.payloads, control: true})
			// length-field mutations on every frame
			for j, st := range vs.starts {
				pl := prefixLen(proto, len(vs.payloads[j]))
				// 0..16 exhaustively on the first streams, sampled afterwards; values that
				// are small or refused by validation; one value from the whole list.
				picks := make([]uint32, 0, 40)
				for v := uint32(0); v <= 16; v++ {
					if si < 6 || rs.IntN(5) == 0 {
						picks = append(picks, v)
					}
				}
				for k := 0; k < 8; k++ {
					v := ivals[rs.IntN(len(ivals))]
					if (v > 1<<16 && v <= 1<<26) || (v > 1<<26 && k%4 != 0) {
						v = uint32(17 + rs.IntN(1<<12))
					}
					picks = append(picks, v)
				}
				picks = append(picks, ivals[rs.IntN(len(ivals))])
				for _, v := range picks {
					marker := byte(0)
					if proto == pAbridged && (v >= 127 || rs.IntN(4) == 0) {
						marker = []byte{0x7f, 0x80, 0xfe, 0xff}[rs.IntN(4)]
						v &= 0xffffff
					}
					mut := append([]byte(nil), vs.data[:st]...)
					mut = append(mut, encodeClaim(proto, v, marker)...)
					mut = append(mut, vs.data[st+pl:]...)
					add(hcase{proto: proto, mode: mode, chunk: byte(rs.IntN(3)), family: fmt.Sprintf("mutate/len@%d", j), claimed: int64(v), stream: withMode(proto, mode, mut)})
				}
				if proto == pFull {
					// seqno and crc fields
					for _, d := range []uint32{1, 0xffffffff, 0x80000000} {
						mut := append([]byte(nil), vs.data...)
						binary.LittleEndian.PutUint32(mut[st+4:], uint32(j)+d)
						add(hcase{proto: proto, mode: mode, family: "mutate/seqno", claimed: -1, lclass: "valid-len", stream: withMode(proto, mode, mut)})
					}
					end := st + 12 + len(vs.payloads[j])
					mut := append([]byte(nil), vs.data...)
					mut[end-1-rs.IntN(4)] ^= byte(1 << rs.IntN(8))
					add(hcase{proto: proto, mode: mode, family: "mutate/crc", claimed: -1, lclass: "valid-len", stream: withMode(proto, mode, mut)})
				}
			}
			// bit flips, insertions, deletions
			for k := 0; k < 12; k++ {
				mut := append([]byte(nil), vs.data...)
				kind := []string{"flip", "ins", "del"}[k%3]
				pos := rs.IntN(len(mut))
				if k < 6 && len(vs.starts) > 0 { // bias towards the prefixes
					st := vs.starts[rs.IntN(len(vs.starts))]
					pos = st + rs.IntN(4)
					if pos >= len(mut) {
						pos = len(mut) - 1
					}
				}
				switch kind {
				case "flip":
					mut[pos] ^= byte(1 << rs.IntN(8))
				case "ins":
					mut = append(mut[:pos], append([]byte{byte(rs.Uint32())}, mut[pos:]...)...)
				case "del":
					mut = append(mut[:pos], mut[pos+1:]...)
				}
				add(hcase{proto: proto, mode: mode, chunk: byte(rs.IntN(3)), family: "mutate/" + kind, claimed: -1, lclass: "mutated", stream: withMode(proto, mode, mut)})
			}
			// truncation at every byte (small streams only)
			if si < nTrunc {
				small := genValid(rs, proto, 3)
				for len(small.data) > 400 {
					small = genValid(rs, proto, 3)
				}
				full := withMode(proto, mode, small.data)
				for cut := 0; cut < len(full); cut++ {
					add(hcase{proto: proto, mode: mode, chunk: byte(cut % 3), family: "truncate", claimed: -1, lclass: fmt.Sprintf("cut%%8=%d", cut%8), stream: full[:cut]})
				}
			}
		}
	}

	// F5 "random": random bytes, plain and behind a plausible small prefix.
	nRandom := c.N(4000, 60000)
	for i := 0; i < nRandom; i++ {
		proto := byte(i % nProto)
		mode := []byte{mRead, mListen, mHeader, mReuse}[(i/nProto)%4]
		body := randBytes(r, r.IntN(97))
		fam := "random"
		claimed := int64(-1)
		if i%3 == 0 {
			v := uint32(r.IntN(80))
			body = append(encodeClaim(proto, v, 0), body...)
			fam, claimed = "random/small-prefix", int64(v)
		}
		s := body
		if mode == mHeader || (mode == mListen && i%2 == 0) {
			s = withMode(proto, mode, body)
		}
		add(hcase{proto: proto, mode: mode, chunk: byte(r.IntN(3)), family: fam, claimed: claimed, lclass: "random", stream: s})
	}

	// F6 "obf": the obfuscated listener; the harness chooses the plaintext behind the
	// real obfuscated2 keystream (valid frames, hostile prefixes), plus raw random bytes.
	nObf := c.N(1500, 20000)
	for i := 0; i < nObf; i++ {
		proto := byte(i % 3) // full has no obfuscated2 tag
		hdr, ks, err := obfKeystream(r, obfTag(proto), 1100)
		if err != nil {
			c.Inconclusive("obfuscated2 handshake (input generation): " + err.Error())
			return cases
		}
		switch i % 4 {
		case 0: // control
			vs := genValid(r, proto, 1+r.IntN(2))
			add(hcase{proto: proto, mode: mObfListen, chunk: byte(r.IntN(2)), family: "obf/control", claimed: -1, lclass: "valid",
				stream: append(hdr, xorBytes(vs.data, ks)...), expect: vs.payloads, control: true})
		case 1, 2: // hostile prefix
			v := ivals[r.IntN(len(ivals))]
			marker := byte(0)
			if proto == pAbridged && v >= 127 {
				marker = []byte{0x7f, 0x80, 0xff}[r.IntN(3)]
				v &= 0xffffff
			}
			p := encodeClaim(proto, v, marker)
			if i%4 == 2 {
				p = append(p, make([]byte, 32)...)
			}
			add(hcase{proto: proto, mode: mObfListen, family: "obf/prefix", claimed: int64(v), stream: append(hdr, xorBytes(p, ks)...)})
		default: // raw random bytes (random header too)
			add(hcase{proto: proto, mode: mObfListen, chunk: byte(r.IntN(3)), family: "obf/random", claimed: -1, lclass: "random", stream: randBytes(r, r.IntN(160))})
		}
	}
	return cases
}

func runC17(c *mon.Ctx) {
	c.Rule("Each input is a byte string served to the real reader (codec.Read with fresh / reused bin.Buffer, ReadHeader+Read, transport.Listen(...).Accept+Recv with codec detection, " +
		"ObfuscatedListener) followed by EOF, in a single-goroutine child process without recover; the parent classifies process death and the child meters TotalAlloc around every call. " +
		"Families: prefix = every claimed length 0..64, 2^k, 2^k±1, 2^k±4, the 16 MiB limit ±4/±12, 2^31.., 0xffffffff.. in each protocol's prefix encoding (abridged 1-byte and 0x7f/0x80/0xff 3-byte forms) " +
		"with no body / zero body / (full) matching-seqno body with correct CRC; second = same after one valid frame; mutate = valid 1..3-frame streams with length, seqno, crc fields replaced, bit flips, " +
		"insertions, deletions; truncate = valid streams cut at every byte; random; obf = chosen plaintexts behind the real obfuscated2 keystream. " +
		"Violation: child dies (panic/fatal/signal) or one call allocates > 16 MiB + 4 MiB. Distinct non-trivial = (protocol, mode, family, claimed-length class, outcome) tuples; controls (unmodified streams) must decode exactly.")
	c.Assume("frame limit = proto/codec maxMessageSize = 1<<24 (\"16 MB\"); allocation bound per call = limit + 4 MiB")
	c.Assume("runtime.MemStats.TotalAlloc delta in a GOMAXPROCS=1 child with no other allocating goroutine measures the call")
	c.Assume("the reader supplies at most 4 KiB after a prefix; a body that is actually delivered is not hostile allocation")

	cases := genC17(c)
	c.Set("inputs", int64(len(cases)))
	const batchSize = 500
	const deathsBeforeRecover = 24
	const hugeBeforeAbort = 40
	deaths, hugeEvents := 0, 0 // hugeEvents: out-of-memory deaths on over-bound blocks + calls that allocated >= 256 MiB and survived
	perFamily := map[string]int64{}
	maxAlloc := map[string]uint64{}
	controlsOK := int64(0)
	for off, bi := 0, 0; off < len(cases); off, bi = off+batchSize, bi+1 {
		end := off + batchSize
		if end > len(cases) {
			end = len(cases)
		}
		if hugeEvents >= hugeBeforeAbort {
			// Dozens of inputs already killed the child by allocating GiB blocks (or
			// survived a >= 256 MiB allocation, seconds each): the verdict is settled, the
			// remaining inputs are not run.
			c.Set("inputs_not_run_after_repeated_huge_allocations", int64(len(cases)-off))
			break
		}
		batch := cases[off:end]
		inputs := make([][]byte, len(batch))
		for i := range batch {
			inputs[i] = batch[i].encode()
		}
		// Address space of the child capped at 3 GiB (MemLimitMB*4): an unbounded make()
		// of several GiB dies at once as "fatal error: out of memory"; the largest
		// legitimate frame needs 16 MiB. An out-of-memory death counts as a violation
		// only if the block that could not be allocated is itself above the bound.
		// Batches are small so that the abort rule above is evaluated often.
		opts := mon.BatchOpts{MemLimitMB: 768, Timeout: 10 * time.Minute, MaxProcs: 1}
		if deaths >= deathsBeforeRecover {
			// enough genuine process deaths observed in this run: report further panics in-band
			opts.Env = []string{"VERIF_RECOVER=1"}
			c.Add("batches_in_recover_mode", 1)
		}
		outs := mon.RunBatch(c, "c17", fmt.Sprintf("c17-%d", bi), inputs, opts)
		if outs == nil {
			return
		}
		for i, o := range outs {
			h := &batch[i]
			label := protoName[h.proto]
			if h.mode == mListen {
				label = detectLabel(h.stream)
			}
			fam := h.family
			if j := strings.IndexByte(fam, '@'); j > 0 {
				fam = fam[:j]
			}
			perFamily[fam]++
			wit := map[string]any{"case": h.String(), "protocol": label, "mode": modeName[h.mode], "chunk": h.chunk, "family": h.family,
				"claimed_length": h.claimed, "stream_hex": hx(h.stream), "stream_len": len(h.stream)}
			switch {
			case o.Class == "ok":
			case o.Class == "missing":
				continue // RunBatch already marked the run inconclusive
			case o.Class == "timeout":
				c.Inconclusive("child watchdog fired on " + h.String())
				continue
			case o.Class == "panic":
				c.Eval(1)
				deaths++
				c.Add("process_deaths_observed", 1)
				wit["stderr"] = o.Stderr
				wit["panic"] = panicKind(o.Stderr)
				label = labelFromStack(o.Stderr, label)
				c.Violate("panic|"+label+"|"+tdFrames(o.Stderr), wit)
				c.Distinct(fmt.Sprintf("%s/%s/%s/%s/panic", label, modeName[h.mode], fam, h.lclass))
				continue
			case o.Class == "fatal:oom":
				c.Eval(1)
				c.Add("process_deaths_observed", 1)
				wit["stderr"] = o.Stderr
				label = labelFromStack(o.Stderr, label)
				block := uint64(0)
				if mm := reOOMBlock.FindStringSubmatch(o.Stderr); mm != nil {
					block, _ = strconv.ParseUint(mm[1], 10, 64)
				}
				if block <= allocBound {
					// the child's address-space guard, not the library, is what failed here
					c.Inconclusive(fmt.Sprintf("child out of memory on a %d-byte block (within the bound) at %s", block, h.String()))
					continue
				}
				hugeEvents++
				wit["block_bytes"] = block
				c.Violate("fatal:oom|"+label, wit)
				c.Distinct(fmt.Sprintf("%s/%s/%s/%s/oom", label, modeName[h.mode], fam, h.lclass))
				continue
			default: // fatal:*, signal:*, exit:*
				c.Eval(1)
				deaths++
				c.Add("process_deaths_observed", 1)
				wit["stderr"] = o.Stderr
				c.Violate(o.Class+"|"+label+"|"+tdFrames(o.Stderr), wit)
				continue
			}
			c.Eval(1)
			var res childResult
			if err := json.Unmarshal(o.Result, &res); err != nil {
				c.Inconclusive("child result: " + err.Error())
				continue
			}
			if res.Err == "bad-input" || res.Err == "bad-mode" {
				c.Inconclusive("harness: " + res.Err + " " + h.String())
				continue
			}
			if res.Panic != "" { // recover mode
				wit["panic"] = res.Panic
				label = labelFromStack(res.Stack, label)
				wit["stderr"] = "panic: " + res.Panic + "\n\n" + res.Stack
				c.Add("panics_reported_in_band", 1)
				c.Violate("panic|"+label+"|"+tdFrames(res.Stack), wit)
				c.Distinct(fmt.Sprintf("%s/%s/%s/%s/panic", label, modeName[h.mode], fam, h.lclass))
				continue
			}
			if h.mode == mListen || h.mode == mObfListen {
				label = labelFromErr(res.ErrText, label)
				wit["protocol"] = label
			}
			key := label + "/" + modeName[h.mode]
			if res.MaxAlloc > maxAlloc[key] {
				maxAlloc[key] = res.MaxAlloc
			}
			if res.MaxAlloc >= 256<<20 {
				hugeEvents++
			}
			if res.MaxAlloc > allocBound {
				wit["max_alloc_bytes"] = res.MaxAlloc
				wit["bound_bytes"] = allocBound
				wit["result"] = res
				c.Violate("alloc-over-frame-limit|"+label, wit)
			}
			if h.control {
				ok := res.Frames >= len(h.expect) || res.Frames == maxFramesPerInput
				for j := 0; ok && j < len(h.expect) && j < res.Frames; j++ {
					p := h.expect[j]
					if len(p) == 4 {
						ok = res.Lens[j] == 4 && int32(res.Sums[j]) == -int32(binary.LittleEndian.Uint32(p))
					} else {
						ok = res.Lens[j] == len(p) && res.Sums[j] == crc32.ChecksumIEEE(p)
					}
				}
				if ok {
					controlsOK++
				} else {
					// not a C17 matter (C16 decides round trips), but the monitor must not claim
					// it exercised the decoder if well-formed streams do not decode
					wit["result"] = res
					c.Inconclusive(fmt.Sprintf("control stream not decoded as built: %s got %+v", h.String(), res))
				}
			}
			c.Distinct(fmt.Sprintf("%s/%s/%s/%s/frames=%d,%s", label, modeName[h.mode], fam, h.lclass, res.Frames, res.Err))
			c.Sample(fam, map[string]any{"case": h.String(), "stream_hex": hx(h.stream), "frames": res.Frames, "err": res.Err, "max_alloc": res.MaxAlloc})
		}
	}
	for k, v := range perFamily {
		c.Set("inputs/"+k, v)
	}
	for k, v := range maxAlloc {
		c.Set("max_alloc_bytes/"+k, v)
	}
	c.Set("controls_decoded", controlsOK)
	c.Set("alloc_bound_bytes", int64(allocBound))
	if controlsOK == 0 {
		c.Inconclusive("no control stream decoded: the monitor did not reach the decoders")
	}
}
