package main

import (
	"bytes"
	"context"
	"encoding/binary"
	"errors"
	"fmt"
	"io"
	"math/rand/v2"
	"sync"

	"github.com/gotd/td/bin"
	"github.com/gotd/td/transport"

	"verif/harness/mon"
)

type concCase struct {
	ps        protoSpec
	variant   int
	senders   int
	frames    int // per sender
	receivers int
	toServer  bool
	seed      int
}

// runConc: k goroutines Send on ONE transport.Conn; 1 or 2 goroutines Recv on
// the peer Conn; everything received is recorded per receiver goroutine and
// checked offline after all goroutines have finished: every received frame is
// byte-identical to exactly one sent frame (no interleaved bytes), every sent
// frame arrives exactly once, and with one receiver the frames of one sender
// arrive in the order that sender's Send calls returned.
func (m *c16) runConc(cc concCase) {
	c := m.c
	c.Eval(1)
	c.Add("sessions/concurrent", 1)
	rs := c.RandN("c16/conc", cc.seed)
	variant := tvName[cc.variant]
	dir := "server->client"
	if cc.toServer {
		dir = "client->server"
	}
	wit := func(extra map[string]any) map[string]any {
		w := map[string]any{"arm": "concurrent", "protocol": cc.ps.name, "variant": variant, "senders": cc.senders, "frames_per_sender": cc.frames,
			"receivers": cc.receivers, "direction": dir, "case_seed": cc.seed}
		for k, v := range extra {
			w[k] = v
		}
		return w
	}
	fail := func(kind string, extra map[string]any) {
		c.Violate(kind+"|concurrent|"+cc.ps.name+"|"+variant, wit(extra))
	}
	kinds := []int{skRandBig, skRandSmall, skAll, skRandBig}
	scC := newSched(kinds[rs.IntN(len(kinds))], false, rand.New(rand.NewPCG(rs.Uint64(), 1)))
	scS := newSched(kinds[rs.IntN(len(kinds))], false, rand.New(rand.NewPCG(rs.Uint64(), 2)))

	var (
		cli, srv     *duplexConn
		cconn, sconn transport.Conn
		err          error
	)
	if pv, stack := mon.Try(func() { cli, srv, cconn, sconn, err = m.openSession(cc.ps, cc.variant, rs, scC, scS, true) }); pv != nil {
		fail("panic", map[string]any{"panic": fmt.Sprint(pv), "stack": stack, "at": "session setup"})
		return
	}
	if err != nil {
		fail("session-setup-error", map[string]any{"error": err.Error()})
		return
	}
	tx, rx, txEnd := sconn, cconn, srv
	if cc.toServer {
		tx, rx, txEnd = cconn, sconn, cli
	}

	// deterministic payloads
	lens := []int{16, 20, 64, 256, 500, 504, 508, 512, 516, 1024, 4096}
	sent := make([][][]byte, cc.senders)
	for s := range sent {
		sent[s] = make([][]byte, cc.frames)
		for q := range sent[s] {
			n := lens[rs.IntN(len(lens))]
			if rs.IntN(4) == 0 {
				n = 16 + 4*rs.IntN(300)
			}
			sent[s][q] = payload(rs, uint32(s), uint32(q), n)
		}
	}

	ctx := context.Background()
	recs := make([][][]byte, cc.receivers)
	recvErr := make([]error, cc.receivers)
	panics := make([]string, cc.receivers+cc.senders)
	var rwg, swg sync.WaitGroup
	for ri := 0; ri < cc.receivers; ri++ {
		rwg.Add(1)
		go func(ri int) {
			defer rwg.Done()
			if pv, stack := mon.Try(func() {
				for {
					b := &bin.Buffer{}
					if err := rx.Recv(ctx, b); err != nil {
						recvErr[ri] = err
						return
					}
					recs[ri] = append(recs[ri], b.Buf)
				}
			}); pv != nil {
				panics[ri] = fmt.Sprint(pv) + "\n" + stack
			}
		}(ri)
	}
	sendErr := make([]error, cc.senders)
	for si := 0; si < cc.senders; si++ {
		swg.Add(1)
		go func(si int) {
			defer swg.Done()
			if pv, stack := mon.Try(func() {
				b := &bin.Buffer{}
				for q := range sent[si] {
					// the buffer object is reused per sender like a real client does
					b.ResetTo(append(b.Buf[:0], sent[si][q]...))
					if err := tx.Send(ctx, b); err != nil {
						sendErr[si] = fmt.Errorf("frame %d: %w", q, err)
						return
					}
				}
			}); pv != nil {
				panics[cc.receivers+si] = fmt.Sprint(pv) + "\n" + stack
			}
		}(si)
	}
	swg.Wait()
	txEnd.CloseWrite() // receivers run into EOF after the last frame
	rwg.Wait()

	// ---- offline checker
	for _, p := range panics {
		if p != "" {
			fail("panic", map[string]any{"panic": p})
			return
		}
	}
	for si, e := range sendErr {
		if e != nil {
			fail("send-error", map[string]any{"sender": si, "error": e.Error()})
			return
		}
	}
	bad := false
	for ri, e := range recvErr {
		if e == nil || !errors.Is(e, io.EOF) {
			fail("recv-error", map[string]any{"receiver": ri, "error": fmt.Sprint(e), "frames_before_error": len(recs[ri])})
			bad = true
		}
	}
	seen := make([][]int, cc.senders)
	for s := range seen {
		seen[s] = make([]int, cc.frames)
	}
	total := 0
	for ri := range recs {
		last := make([]int, cc.senders)
		for s := range last {
			last[s] = -1
		}
		for idx, f := range recs[ri] {
			total++
			ok := len(f) >= 16
			var s, q uint32
			if ok {
				s, q = binary.LittleEndian.Uint32(f[0:]), binary.LittleEndian.Uint32(f[4:])
				ok = int(s) < cc.senders && int(q) < cc.frames && bytes.Equal(f, sent[s][q])
			}
			if !ok {
				if !bad {
					fail("foreign-frame", map[string]any{"receiver": ri, "index": idx, "received": hx(f), "detail": "received frame equals no sent frame (interleaved or corrupted bytes)"})
				}
				bad = true
				continue
			}
			seen[s][q]++
			if cc.receivers == 1 {
				if int(q) <= last[s] {
					fail("per-sender-order", map[string]any{"sender": s, "seq": q, "after_seq": last[s], "index": idx})
					bad = true
				}
				last[s] = int(q)
			}
		}
	}
	for s := range seen {
		for q, n := range seen[s] {
			switch {
			case n == 0 && !bad:
				fail("lost-frame", map[string]any{"sender": s, "seq": q, "frames_received": total})
				bad = true
			case n > 1:
				fail("duplicate-frame", map[string]any{"sender": s, "seq": q, "times": n})
				bad = true
			}
		}
	}
	if bad {
		return
	}
	c.Add("frames", int64(total))
	c.Add("concurrent/frames", int64(total))
	c.Distinct(fmt.Sprintf("%s/%s|concurrent %s|senders=%d,receivers=%d", cc.ps.name, variant, dir, cc.senders, cc.receivers))
	c.Sample("concurrent/"+cc.ps.name, wit(map[string]any{"frames_received": total, "reader_schedule_client": scC.name(), "reader_schedule_server": scS.name()}))
}
