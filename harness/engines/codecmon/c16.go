package main

import (
	"bytes"
	"context"
	"encoding/binary"
	"encoding/hex"
	"errors"
	"fmt"
	"io"
	"math/rand/v2"
	"net"
	"os"
	"reflect"
	"time"

	"github.com/gotd/td/bin"
	"github.com/gotd/td/mtproxy"
	"github.com/gotd/td/mtproxy/obfuscated2"
	"github.com/gotd/td/mtproxy/obfuscator"
	"github.com/gotd/td/proto/codec"
	"github.com/gotd/td/transport"

	"verif/harness/mon"
)

const frameLimit = 1 << 24 // proto/codec maxMessageSize

var debugTiming = os.Getenv("VERIF_DEBUG") != ""

type protoSpec struct {
	name     string
	mk       func() codec.Codec
	tp       transport.Protocol
	tag      [4]byte // obfuscated2 protocol tag
	tagged   bool    // has an obfuscated2 tag of its own (full has none)
	typeName string  // reflect type of the codec transport.Listen must pick
}

var protos = []protoSpec{
	{"abridged", func() codec.Codec { return codec.Abridged{} }, transport.Abridged, codec.Abridged{}.ObfuscatedTag(), true, "codec.Abridged"},
	{"intermediate", func() codec.Codec { return codec.Intermediate{} }, transport.Intermediate, codec.Intermediate{}.ObfuscatedTag(), true, "codec.Intermediate"},
	{"padded", func() codec.Codec { return codec.PaddedIntermediate{} }, transport.PaddedIntermediate, codec.PaddedIntermediate{}.ObfuscatedTag(), true, "codec.PaddedIntermediate"},
	// At codec level the full protocol is also run over an obfuscated2 stream (tag
	// irrelevant there: the stream is only a cipher); at transport level it is not.
	{"full", func() codec.Codec { return &codec.Full{} }, transport.Full, codec.Intermediate{}.ObfuscatedTag(), false, "*codec.Full"},
}

const (
	wrapHdr = iota
	wrapNoHdr
	wrapObf
	nWrap
)

var wrapName = [...]string{"hdr", "nohdr", "obf2"}

func hx(b []byte) string {
	if len(b) > 64 {
		return hex.EncodeToString(b[:48]) + fmt.Sprintf("...%s(%d bytes)", hex.EncodeToString(b[len(b)-8:]), len(b))
	}
	return hex.EncodeToString(b)
}

func lenClass(n int) string {
	switch {
	case n == 4:
		return "4(error-code)"
	case n < 508:
		return "8..504(abridged-1B)"
	case n == 508:
		return "508(abridged-boundary)"
	case n <= 2048:
		return "512..2048"
	case n <= 1<<16:
		return "<=64KiB"
	case n <= 1<<20:
		return "<=1MiB"
	case n < frameLimit-12:
		return "<16MiB"
	}
	return "frame-limit"
}

// payload builds the payload of (sender, seq) with the given length (multiple
// of 4). Length 4 is a transport error code (negative int32). Length ≥ 16
// carries sender, seq, length and a CRC so that the offline checker can tell
// whose frame it is; shorter ones are random and compared positionally.
func payload(r *rand.Rand, sender, seq uint32, n int) []byte {
	return payloadInto(make([]byte, n), r, sender, seq)
}

func payloadInto(p []byte, r *rand.Rand, sender, seq uint32) []byte {
	n := len(p)
	for i := 0; i+8 <= n; i += 8 {
		binary.LittleEndian.PutUint64(p[i:], r.Uint64())
	}
	if n%8 != 0 {
		binary.LittleEndian.PutUint32(p[n-4:], r.Uint32())
	}
	switch {
	case n == 4:
		binary.LittleEndian.PutUint32(p, uint32(-int32(1+r.IntN(999))))
	case n >= 16:
		binary.LittleEndian.PutUint32(p[0:], sender)
		binary.LittleEndian.PutUint32(p[4:], seq)
		binary.LittleEndian.PutUint32(p[8:], uint32(n))
		k := n - 4
		if k > 1<<16 {
			k = 1 << 16 // identification only; sequential arms compare all bytes anyway
		}
		binary.LittleEndian.PutUint32(p[n-4:], fnv32(p[:k]))
	}
	return p
}

func fnv32(b []byte) uint32 {
	h := uint32(2166136261)
	for _, c := range b {
		h = (h ^ uint32(c)) * 16777619
	}
	return h
}

// prefixBoundaries returns the stream offsets inside a frame that starts at
// start and ends at end where a length/seqno/crc field ends.
func prefixBoundaries(proto string, payloadLen, start, end int) []int {
	switch proto {
	case "abridged":
		if payloadLen/4 < 127 {
			return []int{start + 1, end}
		}
		return []int{start + 1, start + 4, end}
	case "full":
		return []int{start + 4, start + 8, end - 4, end}
	}
	return []int{start + 4, end}
}

// c16 holds the run and the scratch memory that is reused from sequence to
// sequence. Under -race every fresh heap region also needs fresh shadow memory
// (mmap / page faults, very slow on a loaded machine), so payloads, the byte
// stream and the big receive buffer live in memory that is mapped once.
type c16 struct {
	c      *mon.Ctx
	slab   []byte       // payload memory of the current sequence
	used   int          // bytes of slab handed out
	stream bytes.Buffer // the sender's byte stream
	rbuf   bin.Buffer   // receiver buffer when the case reuses one
}

// reset starts a new sequence: all payloads of the previous one are dead.
func (m *c16) reset() { m.used = 0 }

// payload returns the payload of (sender, seq) with length n in slab memory.
func (m *c16) payload(r *rand.Rand, sender, seq uint32, n int) []byte {
	if m.used+n > len(m.slab) {
		return payloadInto(make([]byte, n), r, sender, seq)
	}
	p := m.slab[m.used : m.used+n : m.used+n]
	m.used += n
	return payloadInto(p, r, sender, seq)
}

func (m *c16) sig(kind string, ps protoSpec, wrap string, sc *sched) string {
	return kind + "|" + ps.name + "|" + wrap
}

// expectFrame compares one Read/Recv result with the payload that was sent.
// It returns "" if it matches, otherwise the violation kind.
func expectFrame(sent []byte, err error, got *bin.Buffer) (kind string, detail string) {
	if len(sent) == 4 {
		want := -int32(binary.LittleEndian.Uint32(sent))
		var pe *codec.ProtocolErr
		if !errors.As(err, &pe) {
			return "error-code-not-reported", fmt.Sprintf("sent 4-byte frame %s, want ProtocolErr{%d}, got err=%v len=%d", hx(sent), want, err, got.Len())
		}
		if pe.Code != want {
			return "error-code-wrong", fmt.Sprintf("want ProtocolErr{%d}, got ProtocolErr{%d}", want, pe.Code)
		}
		return "", ""
	}
	if err != nil {
		return "read-error", fmt.Sprintf("frame of %d bytes: %v", len(sent), err)
	}
	if got.Len() != len(sent) {
		return "length-mismatch", fmt.Sprintf("sent %d bytes, received %d", len(sent), got.Len())
	}
	if !bytes.Equal(got.Buf, sent) {
		i := 0
		for i < len(sent) && got.Buf[i] == sent[i] {
			i++
		}
		return "content-mismatch", fmt.Sprintf("first difference at byte %d of %d", i, len(sent))
	}
	return "", ""
}

// seqCase is one codec-level sequence.
type seqCase struct {
	ps       protoSpec
	wrap     int
	arm      string
	payloads [][]byte
	kind     int
	eofc     bool
	reuse    bool // receiver reuses one bin.Buffer
	seed     int
}

func (m *c16) witness(sc seqCase, s *sched, extra map[string]any) map[string]any {
	lens := make([]int, len(sc.payloads))
	for i, p := range sc.payloads {
		lens[i] = len(p)
	}
	w := map[string]any{"arm": sc.arm, "protocol": sc.ps.name, "wrap": wrapName[sc.wrap], "schedule": s.name(), "payload_lengths": lens, "case_seed": sc.seed, "receiver_reuses_buffer": sc.reuse}
	for k, v := range extra {
		w[k] = v
	}
	return w
}

// runSeq writes the payloads with the real codec into a byte stream and reads
// them back with a fresh codec instance through the chunking reader.
func (m *c16) runSeq(sc seqCase) {
	c := m.c
	c.Eval(1)
	c.Add("sequences/"+sc.arm, 1)
	if debugTiming {
		t0 := time.Now()
		defer func() {
			if d := time.Since(t0); d > 200*time.Millisecond {
				fmt.Fprintf(os.Stderr, "slow seq %s %s/%s %s frames=%d first=%d: %v\n", sc.arm, sc.ps.name, wrapName[sc.wrap], schedName[sc.kind], len(sc.payloads), len(sc.payloads[0]), d)
			}
		}()
	}
	rs := c.RandN("c16/seq/"+sc.arm, sc.seed)
	s := newSched(sc.kind, sc.eofc, rs)
	wrap := wrapName[sc.wrap]
	failed := false
	fail := func(kind string, extra map[string]any) {
		failed = true
		if sc.arm == "limit" {
			// own signature class: what happens only at the documented frame limit
			kind = "at-frame-limit/" + kind
		}
		c.Violate(m.sig(kind, sc.ps, wrap, s), m.witness(sc, s, extra))
	}

	// --- sender
	stream := &m.stream
	stream.Reset()
	var w io.Writer = stream
	cw := sc.ps.mk()
	var bounds []int
	pv, stack := mon.Try(func() {
		switch sc.wrap {
		case wrapObf:
			o := obfuscated2.NewObfuscated2(&randReader{r: rs}, stream)
			if err := o.Handshake(sc.ps.tag, 2, mtproxy.Secret{}); err != nil {
				c.Inconclusive("obfuscated2 client handshake: " + err.Error())
				failed = true
				return
			}
			w = o
			bounds = append(bounds, stream.Len())
			cw = codec.NoHeader{Codec: cw}
		case wrapNoHdr:
			cw = codec.NoHeader{Codec: cw}
		}
		if err := cw.WriteHeader(w); err != nil {
			fail("write-error", map[string]any{"error": err.Error(), "at": "header"})
			return
		}
		bounds = append(bounds, stream.Len())
		for i, p := range sc.payloads {
			start := stream.Len()
			b := &bin.Buffer{Buf: append(make([]byte, 0, len(p)+i%9), p...)}
			if err := cw.Write(w, b); err != nil {
				if sc.arm == "limit" {
					// a sender that refuses a payload near the limit is consistent with a
					// receiver that would refuse it: not a lost frame
					c.Add("limit/sender-refused/"+sc.ps.name, 1)
					failed = true
					return
				}
				fail("write-error", map[string]any{"error": err.Error(), "frame": i})
				return
			}
			bounds = append(bounds, prefixBoundaries(sc.ps.name, len(p), start, stream.Len())...)
		}
	})
	if pv != nil {
		fail("panic-in-writer", map[string]any{"panic": fmt.Sprint(pv), "stack": stack})
		return
	}
	if failed {
		return
	}
	s.setBoundaries(bounds)

	// --- receiver
	cr := &chunkReader{data: stream.Bytes(), sc: s}
	var r io.Reader = cr
	rc := sc.ps.mk()
	delivered := 0
	pv, stack = mon.Try(func() {
		switch sc.wrap {
		case wrapObf:
			rw, md, err := obfuscated2.Accept(readWriter{cr, io.Discard}, nil)
			if err != nil {
				fail("read-error", map[string]any{"error": err.Error(), "at": "obfuscated2 accept"})
				return
			}
			if md.Protocol != sc.ps.tag {
				fail("obfuscated2-tag-mismatch", map[string]any{"want": hx(sc.ps.tag[:]), "got": hx(md.Protocol[:])})
				return
			}
			r = rw
			rc = codec.NoHeader{Codec: rc}
		case wrapNoHdr:
			rc = codec.NoHeader{Codec: rc}
		}
		if err := rc.ReadHeader(r); err != nil {
			fail("read-error", map[string]any{"error": err.Error(), "at": "header"})
			return
		}
		b := &m.rbuf
		for i, p := range sc.payloads {
			if !sc.reuse {
				b = &bin.Buffer{}
			}
			err := rc.Read(r, b)
			if kind, detail := expectFrame(p, err, b); kind != "" {
				fail(kind, map[string]any{"frame": i, "detail": detail, "sent": hx(p), "received": hx(b.Buf), "stream_len": stream.Len()})
				return
			}
			delivered++
		}
		// the stream is exhausted: one more Read must report an error, not a frame
		b = &bin.Buffer{}
		if err := rc.Read(r, b); err == nil {
			fail("extra-frame", map[string]any{"detail": fmt.Sprintf("a frame of %d bytes after the last sent frame", b.Len()), "received": hx(b.Buf)})
		}
	})
	if pv != nil {
		fail("panic-in-reader", map[string]any{"panic": fmt.Sprint(pv), "stack": stack, "frames_delivered": delivered})
		return
	}
	c.Add("frames", int64(delivered))
	c.Add("reader_calls", int64(cr.reads))
	for _, p := range sc.payloads[:delivered] {
		c.Distinct(sc.ps.name + "/" + wrap + "|" + s.name() + "|" + lenClass(len(p)))
	}
	if delivered > 0 {
		c.Sample(sc.arm+"/"+sc.ps.name, m.witness(sc, s, map[string]any{"frames_delivered": delivered, "stream_len": stream.Len(), "reader_calls": cr.reads}))
	}
}

// codecTypeOf reads the unexported codec field of transport.connection by
// reflection (type only). "" if the layout is not what the harness expects.
func codecTypeOf(conn transport.Conn) string {
	v := reflect.ValueOf(conn)
	if v.Kind() == reflect.Pointer {
		v = v.Elem()
	}
	if v.Kind() != reflect.Struct {
		return ""
	}
	f := v.FieldByName("codec")
	if !f.IsValid() || f.Kind() != reflect.Interface || f.IsNil() {
		return ""
	}
	t := f.Elem().Type()
	if t.String() == "codec.NoHeader" {
		return "NoHeader"
	}
	return t.String()
}

const (
	tvDetect      = iota // transport.Listen: codec detected from the first bytes
	tvListenCodec        // transport.ListenCodec: explicit codec, header checked
	tvObf                // obfuscator.Obfuscated2 client, transport.Listen(transport.ObfuscatedListener(..)) server
	nTV
)

var tvName = [...]string{"listen-detect", "listen-codec", "obf2-listener"}

type sessCase struct {
	ps         protoSpec
	variant    int
	arm        string
	toServer   [][]byte
	toClient   [][]byte
	kindS      int // schedule of the server's reads
	kindC      int // schedule of the client's reads
	eofc       bool
	seed       int
	withDeadln bool
}

// openSession performs client handshake and server accept over a harness pipe.
// The client's header bytes are already in the pipe when Accept runs, so a
// single goroutine suffices.
func (m *c16) openSession(ps protoSpec, variant int, rs *rand.Rand, scC, scS *sched, yield bool) (cli, srv *duplexConn, cconn, sconn transport.Conn, err error) {
	cli, srv = newDuplex(scC, scS, yield)
	var nc net.Conn = cli
	tp := ps.tp
	if variant == tvObf {
		oc := obfuscator.Obfuscated2(&randReader{r: rs}, cli)
		if err := oc.Handshake(ps.tag, 2, mtproxy.Secret{}); err != nil {
			return nil, nil, nil, nil, fmt.Errorf("client obfuscated2 handshake: %w", err)
		}
		nc = oc
		mk := ps.mk
		tp = transport.NewProtocol(func() transport.Codec { return codec.NoHeader{Codec: mk()} })
	}
	cconn, err = tp.Handshake(nc)
	if err != nil {
		return nil, nil, nil, nil, fmt.Errorf("client handshake: %w", err)
	}
	var ln net.Listener = &oneListener{conn: srv}
	var l transport.Listener
	switch variant {
	case tvDetect:
		l = transport.Listen(ln)
	case tvListenCodec:
		mk := ps.mk
		l = transport.ListenCodec(func() transport.Codec { return mk() }, ln)
	case tvObf:
		l = transport.Listen(transport.ObfuscatedListener(ln))
	}
	// The full protocol has no header: the listener detects it from the first frame,
	// so the client says hello before Accept (for every protocol alike).
	hello := payload(rs, 0xffff, 0, 32)
	if err := cconn.Send(context.Background(), &bin.Buffer{Buf: append([]byte(nil), hello...)}); err != nil {
		return nil, nil, nil, nil, fmt.Errorf("client hello: %w", err)
	}
	sconn, err = l.Accept()
	if err != nil {
		return nil, nil, nil, nil, fmt.Errorf("server accept: %w", err)
	}
	var b bin.Buffer
	if err := sconn.Recv(context.Background(), &b); err != nil {
		return nil, nil, nil, nil, fmt.Errorf("server recv hello: %w", err)
	}
	if !bytes.Equal(b.Buf, hello) {
		return nil, nil, nil, nil, fmt.Errorf("server received hello %s, sent %s", hx(b.Buf), hx(hello))
	}
	return cli, srv, cconn, sconn, nil
}

// runSession: client sends toServer through transport.Conn.Send, the listener
// accepts (detecting the codec), the server receives through chunked reads, then
// answers toClient with the codec it picked and the client receives.
func (m *c16) runSession(sc sessCase) {
	c := m.c
	c.Eval(1)
	c.Add("sessions/"+sc.arm, 1)
	rs := c.RandN("c16/sess/"+sc.arm, sc.seed)
	scS := newSched(sc.kindS, sc.eofc, rs)
	scC := newSched(sc.kindC, sc.eofc, rand.New(rand.NewPCG(rs.Uint64(), 7)))
	variant := tvName[sc.variant]
	wit := func(extra map[string]any) map[string]any {
		ls, lc := make([]int, len(sc.toServer)), make([]int, len(sc.toClient))
		for i, p := range sc.toServer {
			ls[i] = len(p)
		}
		for i, p := range sc.toClient {
			lc[i] = len(p)
		}
		w := map[string]any{"arm": sc.arm, "protocol": sc.ps.name, "variant": variant, "server_read_schedule": scS.name(), "client_read_schedule": scC.name(),
			"to_server_lengths": ls, "to_client_lengths": lc, "case_seed": sc.seed}
		for k, v := range extra {
			w[k] = v
		}
		return w
	}
	fail := func(kind string, s *sched, extra map[string]any) {
		c.Violate(m.sig(kind, sc.ps, variant, s), wit(extra))
	}
	ctx := context.Background()
	if sc.withDeadln {
		var cancel context.CancelFunc
		ctx, cancel = context.WithCancel(ctx) // cancellable context, never cancelled: deadline plumbing only
		defer cancel()
	}
	pv, stack := mon.Try(func() {
		// The client writes everything first; the boundaries of its stream are known
		// before the server reads the first byte.
		cliEnd, srvEnd := newDuplex(scC, scS, false)
		var nc net.Conn = cliEnd
		tp := sc.ps.tp
		var bounds []int
		if sc.variant == tvObf {
			oc := obfuscator.Obfuscated2(&randReader{r: rs}, cliEnd)
			if err := oc.Handshake(sc.ps.tag, 2, mtproxy.Secret{}); err != nil {
				c.Inconclusive("client obfuscated2 handshake: " + err.Error())
				return
			}
			nc = oc
			mk := sc.ps.mk
			tp = transport.NewProtocol(func() transport.Codec { return codec.NoHeader{Codec: mk()} })
			bounds = append(bounds, cliEnd.wr.Written())
		}
		cconn, err := tp.Handshake(nc)
		if err != nil {
			fail("write-error", scS, map[string]any{"error": err.Error(), "at": "client handshake"})
			return
		}
		bounds = append(bounds, cliEnd.wr.Written())
		for i, p := range sc.toServer {
			start := cliEnd.wr.Written()
			if err := cconn.Send(ctx, &bin.Buffer{Buf: append([]byte(nil), p...)}); err != nil {
				fail("write-error", scS, map[string]any{"error": err.Error(), "frame": i, "direction": "client->server"})
				return
			}
			bounds = append(bounds, prefixBoundaries(sc.ps.name, len(p), start, cliEnd.wr.Written())...)
		}
		cliEnd.CloseWrite()
		srvEnd.rd.setBoundaries(bounds)

		var ln net.Listener = &oneListener{conn: srvEnd}
		var l transport.Listener
		switch sc.variant {
		case tvDetect:
			l = transport.Listen(ln)
		case tvListenCodec:
			mk := sc.ps.mk
			l = transport.ListenCodec(func() transport.Codec { return mk() }, ln)
		case tvObf:
			l = transport.Listen(transport.ObfuscatedListener(ln))
		}
		sconn, err := l.Accept()
		if err != nil {
			fail("accept-error", scS, map[string]any{"error": err.Error()})
			return
		}
		if sc.variant != tvListenCodec {
			switch got := codecTypeOf(sconn); got {
			case "":
				c.Add("detect/reflection-unavailable", 1)
			case sc.ps.typeName:
				c.Add("detect/type-confirmed", 1)
			default:
				fail("listener-detected-other-codec", scS, map[string]any{"want": sc.ps.typeName, "got": got})
				return
			}
		}
		b := &bin.Buffer{}
		for i, p := range sc.toServer {
			err := sconn.Recv(ctx, b)
			if kind, detail := expectFrame(p, err, b); kind != "" {
				fail(kind, scS, map[string]any{"frame": i, "direction": "client->server", "detail": detail, "sent": hx(p), "received": hx(b.Buf)})
				return
			}
		}
		if err := sconn.Recv(ctx, b); err == nil {
			fail("extra-frame", scS, map[string]any{"direction": "client->server", "received": hx(b.Buf)})
			return
		}
		// server → client with the codec the listener picked
		bounds = bounds[:0]
		for i, p := range sc.toClient {
			start := srvEnd.wr.Written()
			if err := sconn.Send(ctx, &bin.Buffer{Buf: append([]byte(nil), p...)}); err != nil {
				fail("write-error", scC, map[string]any{"error": err.Error(), "frame": i, "direction": "server->client"})
				return
			}
			bounds = append(bounds, prefixBoundaries(sc.ps.name, len(p), start, srvEnd.wr.Written())...)
		}
		srvEnd.CloseWrite()
		cliEnd.rd.setBoundaries(bounds)
		for i, p := range sc.toClient {
			b = &bin.Buffer{}
			err := cconn.Recv(ctx, b)
			if kind, detail := expectFrame(p, err, b); kind != "" {
				fail(kind, scC, map[string]any{"frame": i, "direction": "server->client", "detail": detail, "sent": hx(p), "received": hx(b.Buf)})
				return
			}
		}
		if err := cconn.Recv(ctx, b); err == nil {
			fail("extra-frame", scC, map[string]any{"direction": "server->client", "received": hx(b.Buf)})
			return
		}
		c.Add("frames", int64(len(sc.toServer)+len(sc.toClient)))
		for _, p := range sc.toServer {
			c.Distinct(sc.ps.name + "/" + variant + "|" + scS.name() + "|" + lenClass(len(p)))
		}
		for _, p := range sc.toClient {
			c.Distinct(sc.ps.name + "/" + variant + "/reply|" + scC.name() + "|" + lenClass(len(p)))
		}
		if len(sc.toServer) > 0 {
			c.Distinct(fmt.Sprintf("detect|%s/%s|first-byte=%02x", sc.ps.name, variant, byte(len(sc.toServer[0])+12)))
		}
		c.Sample(sc.arm+"/"+sc.ps.name, wit(map[string]any{"server_codec": codecTypeOf(sconn)}))
	})
	if pv != nil {
		fail("panic", scS, map[string]any{"panic": fmt.Sprint(pv), "stack": stack})
	}
}
