// Engine codecmon: transport codec round-trip monitor (C16). Built with -race
// (the concurrent-senders arm). C17 lives in engine codecmon17 (no -race).
package main

import (
	"fmt"
	"math/rand/v2"
	"os"
	"strings"
	"time"

	"verif/harness/mon"
)

func main() {
	mon.Main("codecmon", map[string]mon.PropFunc{
		"C16": runC16,
	})
}

func shuffled(r *rand.Rand, in []int) []int {
	out := append([]int(nil), in...)
	r.Shuffle(len(out), func(i, j int) { out[i], out[j] = out[j], out[i] })
	return out
}

func runC16(c *mon.Ctx) {
	c.Rule("A sender writes payload sequences with the real codec (codec.Write / transport.Conn.Send) into a harness byte pipe; a fresh receiver instance of the same protocol reads them back through a " +
		"chunking reader and every delivered frame is compared with what was sent (4-byte payloads must surface as *ProtocolErr with the negated code; after the last frame the reader must report an error, not a frame). " +
		"Read schedules: all, 1-byte, rand 1..7, rand 1..4096, reads ending one before / on / one after every header, length-prefix, seqno, crc and frame boundary; any of them may deliver the last bytes together with io.EOF. " +
		"Arms: grid = every payload length 4..2048 step 4, shuffled into sequences of 20..50 frames, for each protocol x {header, NoHeader, obfuscated2-wrapped} (quick: 3 passes with rotating schedule; thorough: every schedule x 3 passes); " +
		"big = 2^k, 2^k+-4 for k=12..16 plus one ~1 MiB frame per protocol (thorough: k=12..20 for 5 schedules x 3 deltas, k=12..24 once per protocol x wrap); limit (thorough only) = payloads of 16 MiB-12 and 16 MiB: a payload the sender accepts must be accepted by the receiver; " +
		"random = random sequences of 1..30 (50) frames mixing lengths around the abridged 127-word boundary with 4-byte error frames; " +
		"session = transport.Protocol.Handshake client + transport.Listen / ListenCodec / Listen(ObfuscatedListener) accept over the pipe, both directions, detected codec type checked by reflection and by the replies; " +
		"detect = first-frame length sweep 8..1024 (8192) for listener detection; concurrent = 2..8 goroutines Send on one Conn, 1..2 Recv on the peer, offline exactly-once / integrity / per-sender FIFO check, under -race. " +
		"Distinct non-trivial = (protocol/wrap, read-schedule class, payload-length class) triples actually delivered, plus detection first-byte patterns and concurrent configurations.")
	c.Assume("harness byte pipe, chunking reader and offline checker are correct; they were validated with seeded codec mutants (see /verif/mutants/C16-*.diff)")
	c.Assume("obfuscated2 (mtproxy/obfuscated2) is used only as a stream wrapper; its own handshake properties are C18")
	c.Assume("payload lengths are multiples of 4 as the statement quantifies; the full protocol at transport level is not run through obfuscated2 (it has no obfuscation tag)")

	// The slab is sized for the largest sequence of the tier (fresh memory is
	// expensive under -race: every new heap page needs four shadow pages).
	m := &c16{c: c, slab: make([]byte, c.N(2<<20, 36<<20))}
	// VERIF_ARMS=grid,big,... restricts the run to some arms (debugging / replay aid;
	// a restricted run is reported inconclusive, never held).
	armOn := func(string) bool { return true }
	if f := os.Getenv("VERIF_ARMS"); f != "" {
		armOn = func(a string) bool { return strings.Contains(","+f+",", ","+a+",") }
		c.Inconclusive("restricted to arms " + f + " (VERIF_ARMS)")
	}
	t0 := time.Now()
	progress := func(arm string) {
		fmt.Fprintf(os.Stderr, "codecmon: %-10s done at %6.1fs\n", arm, time.Since(t0).Seconds())
	}
	r := c.Rand("c16/plan")
	seed := 0
	next := func() int { seed++; return seed }

	arm := func(name string, f func()) {
		if armOn(name) {
			f()
			progress(name)
		}
	}

	// ---- grid: all lengths 4..2048 step 4 for every protocol x wrap. Quick: three
	// shuffled passes over all lengths, the schedule class rotating from sequence to
	// sequence (every class meets every protocol x wrap, every length meets every
	// protocol x wrap three times). Thorough: every class x 3 passes.
	arm("grid", func() {
		var gridLens []int
		for n := 4; n <= 2048; n += 4 {
			gridLens = append(gridLens, n)
		}
		for _, ps := range protos {
			for wrap := 0; wrap < nWrap; wrap++ {
				passes, rot := 3, true
				if !c.Quick() {
					passes, rot = 3*nSched, false
				}
				si := r.IntN(nSched)
				for pass := 0; pass < passes; pass++ {
					lens := shuffled(r, gridLens)
					for off := 0; off < len(lens); si++ {
						n := 20 + r.IntN(31)
						if off+n > len(lens) {
							n = len(lens) - off
						}
						kind := pass % nSched
						if rot {
							kind = si % nSched
						}
						sd := next()
						m.reset()
						pr := c.RandN("c16/payload", sd)
						var ps2 [][]byte
						for i, l := range lens[off : off+n] {
							ps2 = append(ps2, m.payload(pr, 0, uint32(i), l))
						}
						off += n
						m.runSeq(seqCase{ps: ps, wrap: wrap, arm: "grid", payloads: ps2, kind: kind, eofc: (si/nSched)%2 == 1, reuse: si%3 != 0, seed: sd})
					}
				}
			}
		}
	})

	// ---- big: 2^k and 2^k+-4. Quick: k = 12..16 per protocol x wrap (schedule and
	// delta rotating) and one frame of 2^20-4 / 2^20 / 2^20+4 per protocol; thorough: k = 12..20
	// for 5 schedules x 3 deltas and k = 12..24 once per protocol x wrap.
	arm("big", func() {
		bigKinds := []int{skAll, skRandBig, skBoundM1, skBound0, skBoundP1}
		deltas := []int{-4, 0, 4}
		for pi, ps := range protos {
			for wrap := 0; wrap < nWrap; wrap++ {
				for ki, kind := range bigKinds {
					for di, d := range deltas {
						if c.Quick() && (ki != (pi+wrap)%len(bigKinds) || di != (pi+wrap)%3) {
							continue
						}
						sd := next()
						m.reset()
						pr := c.RandN("c16/payload", sd)
						var ps2 [][]byte
						maxK := c.N(16, 20)
						if !c.Quick() && ki == (pi+wrap)%len(bigKinds) && di == (pi+wrap)%3 {
							maxK = 24 // one 32 MiB sequence per protocol x wrap
						}
						for k := 12; k <= maxK; k++ {
							n := 1<<k + d
							if n > frameLimit-16 {
								continue // the limit itself is the "limit" arm
							}
							ps2 = append(ps2, m.payload(pr, 0, uint32(k), n))
						}
						m.runSeq(seqCase{ps: ps, wrap: wrap, arm: "big", payloads: ps2, kind: kind, eofc: di%2 == 1, reuse: true, seed: sd})
					}
				}
			}
			if c.Quick() {
				sd := next()
				m.reset()
				pr := c.RandN("c16/payload", sd)
				m.runSeq(seqCase{ps: ps, wrap: pi % nWrap, arm: "big", payloads: [][]byte{m.payload(pr, 0, 0, 1<<20+4*(pi%3-1))},
					kind: []int{skBoundM1, skBoundP1, skRandBig, skBound0}[pi%4], reuse: true, seed: sd})
			}
		}
	})

	// ---- limit (thorough only: five 16 MiB frames cost minutes under -race on a loaded
	// machine): payloads at the documented frame limit. A sender that accepts the
	// payload must produce a frame the receiver of the same protocol accepts.
	if !c.Quick() {
		arm("limit", func() {
			for _, ps := range protos {
				for _, n := range []int{frameLimit - 12, frameLimit} {
					sd := next()
					m.reset()
					pr := c.RandN("c16/payload", sd)
					p := m.payload(pr, 0, 0, n)
					// make the padded writer choose a non-zero padding (it derives the padding
					// length from the last payload byte)
					p[n-1] |= 3
					m.runSeq(seqCase{ps: ps, wrap: wrapHdr, arm: "limit", payloads: [][]byte{p}, kind: skAll, reuse: true, seed: sd})
				}
			}
		})
	}

	// ---- random sequences
	arm("random", func() {
		nRandom := c.N(2500, 100000)
		for i := 0; i < nRandom; i++ {
			sd := next()
			m.reset()
			pr := c.RandN("c16/payload", sd)
			nf := 1 + pr.IntN(c.N(30, 50))
			var ps2 [][]byte
			for q := 0; q < nf; q++ {
				var n int
				switch x := pr.IntN(100); {
				case x < 4:
					n = 4
				case x < 55:
					n = 8 + 4*pr.IntN(64)
				case x < 80:
					n = 480 + 4*pr.IntN(16) // around the abridged 127-word boundary (508)
				case x < 98:
					n = 4 * (1 + pr.IntN(512))
				default:
					n = 4 * (1 + pr.IntN(1<<12))
				}
				ps2 = append(ps2, m.payload(pr, 0, uint32(q), n))
			}
			m.runSeq(seqCase{ps: protos[pr.IntN(len(protos))], wrap: pr.IntN(nWrap), arm: "random", payloads: ps2, kind: pr.IntN(nSched), eofc: pr.IntN(3) == 0, reuse: pr.IntN(2) == 0, seed: sd})
		}
	})

	// ---- transport sessions: handshake / listener detection, both directions
	variantsOf := func(ps protoSpec) []int {
		if ps.tagged {
			return []int{tvDetect, tvListenCodec, tvObf}
		}
		return []int{tvDetect, tvListenCodec}
	}
	mkLens := func(pr *rand.Rand, nf int) [][]byte {
		var out [][]byte
		for q := 0; q < nf; q++ {
			n := 8 + 4*pr.IntN(160)
			switch pr.IntN(12) {
			case 0:
				n = 4
			case 1:
				n = 508
			case 2:
				n = 4 * (1 + pr.IntN(1<<10))
			}
			out = append(out, m.payload(pr, 1, uint32(q), n))
		}
		return out
	}
	arm("session", func() {
		nSess := c.N(30, 2500)
		for _, ps := range protos {
			for _, v := range variantsOf(ps) {
				for i := 0; i < nSess; i++ {
					sd := next()
					m.reset()
					pr := c.RandN("c16/payload", sd)
					m.runSession(sessCase{ps: ps, variant: v, arm: "session", toServer: mkLens(pr, 1+pr.IntN(16)), toClient: mkLens(pr, 1+pr.IntN(16)),
						kindS: i % nSched, kindC: (i / nSched) % nSched, eofc: i%5 == 4, seed: sd, withDeadln: i%2 == 0})
				}
			}
		}
	})
	// ---- detection sweep: the first frame decides what the listener sees first
	arm("detect", func() {
		maxFirst := c.N(1024, 8192)
		for _, ps := range protos {
			for _, v := range variantsOf(ps) {
				if v == tvListenCodec {
					continue
				}
				for n := 8; n <= maxFirst; n += 4 {
					sd := next()
					m.reset()
					pr := c.RandN("c16/payload", sd)
					m.runSession(sessCase{ps: ps, variant: v, arm: "detect", toServer: [][]byte{m.payload(pr, 2, 0, n)}, toClient: [][]byte{m.payload(pr, 3, 0, 16+4*pr.IntN(8))},
						kindS: []int{skOne, skAll, skRandSmall, skBoundM1, skBoundP1}[(n/4)%5], kindC: skAll, seed: sd})
				}
			}
		}
	})

	// ---- concurrent senders on one Conn
	arm("concurrent", func() {
		reps := c.N(2, 100)
		for _, ps := range protos {
			for _, v := range variantsOf(ps) {
				if v == tvListenCodec {
					continue
				}
				for rep := 0; rep < reps; rep++ {
					for _, toServer := range []bool{true, false} {
						sd := next()
						pr := c.RandN("c16/concplan", sd)
						m.runConc(concCase{ps: ps, variant: v, senders: 2 + pr.IntN(7), frames: 20 + pr.IntN(40), receivers: 1 + (rep+sd)%2, toServer: toServer, seed: sd})
					}
				}
			}
		}
	})

	if c.DistinctCount() < 2 {
		c.Inconclusive("fewer than 2 distinct (protocol, schedule, length) classes were delivered")
	}
	c.Set("protocols", fmt.Sprint(len(protos)))
}
