package main

import (
	"io"
	"math/rand/v2"
	"net"
	"runtime"
	"sort"
	"sync"
	"time"
)

// Chunking schedules: how many bytes one Read call returns.
const (
	skAll       = iota // as much as asked for
	skOne              // one byte per Read
	skRandSmall        // 1..7 bytes
	skRandBig          // 1..4096 bytes
	skBoundM1          // reads end one byte before every boundary (header end, length-prefix end, frame end)
	skBound0           // reads end exactly on every boundary
	skBoundP1          // reads end one byte after every boundary
	nSched
)

var schedName = [...]string{"all", "1-byte", "rand1-7", "rand1-4096", "boundary-1", "boundary", "boundary+1"}

// sched decides the size of every Read. Not safe for concurrent use (callers
// hold their own lock).
type sched struct {
	kind int
	eofc bool // deliver the last bytes together with io.EOF (n>0, io.EOF)
	r    *rand.Rand
	cuts []int // absolute stream offsets at which a Read must end (boundary kinds)
}

func newSched(kind int, eofc bool, r *rand.Rand) *sched { return &sched{kind: kind, eofc: eofc, r: r} }

// setBoundaries installs the cut points for the boundary kinds.
func (s *sched) setBoundaries(bounds []int) {
	d := 0
	switch s.kind {
	case skBoundM1:
		d = -1
	case skBoundP1:
		d = 1
	case skBound0:
	default:
		return
	}
	s.cuts = s.cuts[:0]
	for _, b := range bounds {
		if b+d > 0 {
			s.cuts = append(s.cuts, b+d)
		}
	}
	sort.Ints(s.cuts)
}

func (s *sched) name() string {
	if s.eofc {
		return schedName[s.kind] + "+data&EOF"
	}
	return schedName[s.kind]
}

// next returns how many bytes (≥1) the Read at absolute offset pos returns,
// given the caller's buffer size and the bytes available.
func (s *sched) next(pos, want, avail int) int {
	n := want
	switch s.kind {
	case skOne:
		n = 1
	case skRandSmall:
		n = 1 + s.r.IntN(7)
	case skRandBig:
		n = 1 + s.r.IntN(4096)
	case skBoundM1, skBound0, skBoundP1:
		i := sort.SearchInts(s.cuts, pos+1)
		if i < len(s.cuts) {
			n = s.cuts[i] - pos
		}
	}
	if n > want {
		n = want
	}
	if n > avail {
		n = avail
	}
	return n
}

// chunkReader serves a fixed stream according to a schedule, then io.EOF.
type chunkReader struct {
	data  []byte
	pos   int
	sc    *sched
	reads int
}

func (c *chunkReader) Read(p []byte) (int, error) {
	c.reads++
	if len(p) == 0 {
		return 0, nil
	}
	if c.pos >= len(c.data) {
		return 0, io.EOF
	}
	n := c.sc.next(c.pos, len(p), len(c.data)-c.pos)
	copy(p, c.data[c.pos:c.pos+n])
	c.pos += n
	if c.sc.eofc && c.pos == len(c.data) {
		return n, io.EOF
	}
	return n, nil
}

// readWriter glues a reader to a writer (obfuscated2.Accept wants an io.ReadWriter).
type readWriter struct {
	io.Reader
	io.Writer
}

// halfPipe is one direction of the harness byte pipe: unbounded buffer, Read
// chunked by a schedule, EOF after close.
type halfPipe struct {
	mu      sync.Mutex
	cond    *sync.Cond
	buf     []byte
	rpos    int
	written int
	closed  bool
	sc      *sched
	yield   bool // Gosched after every Write (schedule perturbation for the concurrent arm)
	reads   int
}

func newHalfPipe(sc *sched, yield bool) *halfPipe {
	h := &halfPipe{sc: sc, yield: yield}
	h.cond = sync.NewCond(&h.mu)
	return h
}

func (h *halfPipe) Write(p []byte) (int, error) {
	h.mu.Lock()
	if h.closed {
		h.mu.Unlock()
		return 0, io.ErrClosedPipe
	}
	h.buf = append(h.buf, p...)
	h.written += len(p)
	h.cond.Broadcast()
	h.mu.Unlock()
	if h.yield {
		runtime.Gosched()
	}
	return len(p), nil
}

func (h *halfPipe) Read(p []byte) (int, error) {
	h.mu.Lock()
	defer h.mu.Unlock()
	h.reads++
	if len(p) == 0 {
		return 0, nil
	}
	for h.rpos == len(h.buf) && !h.closed {
		h.cond.Wait()
	}
	if h.rpos == len(h.buf) {
		return 0, io.EOF
	}
	n := h.sc.next(h.rpos, len(p), len(h.buf)-h.rpos)
	copy(p, h.buf[h.rpos:h.rpos+n])
	h.rpos += n
	if h.sc.eofc && h.closed && h.rpos == len(h.buf) {
		return n, io.EOF
	}
	return n, nil
}

func (h *halfPipe) Close() {
	h.mu.Lock()
	h.closed = true
	h.cond.Broadcast()
	h.mu.Unlock()
}

func (h *halfPipe) Written() int {
	h.mu.Lock()
	defer h.mu.Unlock()
	return h.written
}

func (h *halfPipe) setBoundaries(b []int) {
	h.mu.Lock()
	h.sc.setBoundaries(b)
	h.mu.Unlock()
}

// duplexConn is one end of the harness byte pipe as a net.Conn. Deadlines are
// accepted and ignored (no wall-clock behaviour in this engine).
type duplexConn struct {
	rd, wr *halfPipe
}

type pipeAddr struct{}

func (pipeAddr) Network() string { return "verif-pipe" }
func (pipeAddr) String() string  { return "verif-pipe" }

func (d *duplexConn) Read(p []byte) (int, error)       { return d.rd.Read(p) }
func (d *duplexConn) Write(p []byte) (int, error)      { return d.wr.Write(p) }
func (d *duplexConn) Close() error                     { d.wr.Close(); d.rd.Close(); return nil }
func (d *duplexConn) CloseWrite()                      { d.wr.Close() }
func (d *duplexConn) LocalAddr() net.Addr              { return pipeAddr{} }
func (d *duplexConn) RemoteAddr() net.Addr             { return pipeAddr{} }
func (d *duplexConn) SetDeadline(time.Time) error      { return nil }
func (d *duplexConn) SetReadDeadline(time.Time) error  { return nil }
func (d *duplexConn) SetWriteDeadline(time.Time) error { return nil }

// newDuplex returns the two ends; a2b is read by b with schedule scB, b2a by a with scA.
func newDuplex(scA, scB *sched, yield bool) (a, b *duplexConn) {
	a2b := newHalfPipe(scB, yield)
	b2a := newHalfPipe(scA, yield)
	return &duplexConn{rd: b2a, wr: a2b}, &duplexConn{rd: a2b, wr: b2a}
}

// oneListener hands out one connection.
type oneListener struct {
	mu   sync.Mutex
	conn net.Conn
}

func (l *oneListener) Accept() (net.Conn, error) {
	l.mu.Lock()
	defer l.mu.Unlock()
	if l.conn == nil {
		return nil, io.EOF
	}
	c := l.conn
	l.conn = nil
	return c, nil
}
func (l *oneListener) Close() error   { return nil }
func (l *oneListener) Addr() net.Addr { return pipeAddr{} }

// randReader is a deterministic entropy source for the obfuscated2 handshake.
type randReader struct {
	mu sync.Mutex
	r  *rand.Rand
}

func (r *randReader) Read(p []byte) (int, error) {
	r.mu.Lock()
	defer r.mu.Unlock()
	for i := range p {
		p[i] = byte(r.r.Uint32())
	}
	return len(p), nil
}
