package main

import (
	"fmt"
	"math/rand/v2"
	"runtime"
	"sort"
	"sync"
	"sync/atomic"
	"time"

	"github.com/anishathalye/porcupine"

	"github.com/gotd/td/proto"

	"verif/harness/mon"
)

// idNano decodes the time a message id encodes, the way gotd/td defines it
// (MessageID.Time): seconds in the high 32 bits, nanoseconds in the low 32.
func idNano(id int64) int64 { return (id>>32)*1_000_000_000 + (id & 0xffffffff &^ 3) }

func floor4(x int64) int64 { return x &^ 3 }

// clockScript yields the successive readings of a scripted clock.
type clockScript struct {
	name string
	next func(i int) int64 // reading for the i-th call of now()
}

func clockScripts(r *rand.Rand) []clockScript {
	var out []clockScript
	base := func() int64 {
		return (1_700_000_000+int64(r.IntN(90_000_000)))*1_000_000_000 + int64(r.IntN(1_000_000_000))
	}
	for _, st := range []int64{0, 1, 2, 3, 4, 5, 6, 7, 8, 9, 10, 11, 12, 13, 100, 999, 1000, 1_000_000, 15_625_000} {
		b, st := base(), st
		out = append(out, clockScript{fmt.Sprintf("step-%dns", st), func(i int) int64 { return b + int64(i)*st }})
	}
	mkRand := func(name string, choose func(rr *rand.Rand) int64) {
		b := base()
		rr := rand.New(rand.NewPCG(r.Uint64(), r.Uint64()))
		cur := b
		out = append(out, clockScript{name, func(i int) int64 {
			cur += choose(rr)
			return cur
		}})
	}
	for k := 0; k < 4; k++ {
		mkRand("rand-0..3ns", func(rr *rand.Rand) int64 { return int64(rr.IntN(4)) })
		mkRand("rand-1..3ns", func(rr *rand.Rand) int64 { return int64(1 + rr.IntN(3)) })
		mkRand("rand-0..12ns", func(rr *rand.Rand) int64 { return int64(rr.IntN(13)) })
		mkRand("rand-0..40ns", func(rr *rand.Rand) int64 { return int64(rr.IntN(41)) })
		mkRand("mostly-frozen", func(rr *rand.Rand) int64 {
			if rr.IntN(50) == 0 {
				return int64(rr.IntN(3000))
			}
			return 0
		})
		mkRand("frozen-then-1..3ns", func(rr *rand.Rand) int64 {
			if rr.IntN(8) == 0 {
				return 0
			}
			return int64(1 + rr.IntN(3))
		})
		mkRand("backward-jumps", func(rr *rand.Rand) int64 {
			switch rr.IntN(30) {
			case 0:
				return -int64(rr.IntN(5_000_000_000))
			case 1:
				return int64(rr.IntN(2_000_000_000))
			}
			return int64(rr.IntN(200))
		})
		mkRand("mixture", func(rr *rand.Rand) int64 {
			switch rr.IntN(6) {
			case 0:
				return 0
			case 1:
				return int64(1 + rr.IntN(3))
			case 2:
				return int64(rr.IntN(20))
			case 3:
				return int64(rr.IntN(2000))
			case 4:
				return -int64(rr.IntN(100))
			}
			return int64(rr.IntN(2_000_000))
		})
	}
	// µs-coarse clocks: a fine counter truncated to the microsecond / 100 ns / 15.6 ms
	for _, gran := range []int64{100, 1000, 1000, 15_625_000} {
		b, gran := base(), gran
		fine := int64(20 + r.IntN(400))
		out = append(out, clockScript{fmt.Sprintf("coarse-%dns", gran), func(i int) int64 { return (b + int64(i)*fine) / gran * gran }})
	}
	// crossing second boundaries with small steps
	for _, st := range []int64{1, 3, 7, 10} {
		sec := (1_700_000_000 + int64(r.IntN(90_000_000))) * 1_000_000_000
		st := st
		out = append(out, clockScript{fmt.Sprintf("second-boundary-step-%dns", st), func(i int) int64 { return sec + 999_999_000 + int64(i%4000)*st + int64(i/4000)*1_000_000_000 }})
	}
	// frozen clock
	b := base()
	out = append(out, clockScript{"frozen", func(int) int64 { return b }})
	return out
}

// c08Scripted: MessageIDGen.New under scripted clocks, online assertions on every id.
func c08Scripted(c *mon.Ctx) {
	r := c.Rand("c08-scripted")
	calls := c.N(10_000, 200_000)
	scripts := clockScripts(r)
	for si, sc := range scripts {
		var readings []int64
		n := 0
		now := func() time.Time {
			v := sc.next(n)
			n++
			readings = append(readings, v)
			return time.Unix(0, v)
		}
		gen := proto.NewMessageIDGen(now)
		var prev, prevNano int64
		var trail []map[string]int64
		grams := ""
		violated := map[string]bool{}
		for k := 0; k < calls; k++ {
			readings = readings[:0]
			id := gen.New(proto.MessageFromClient)
			c.Eval(1)
			if len(readings) == 0 {
				c.Inconclusive("MessageIDGen.New did not read the clock")
				return
			}
			lo, hi := readings[0], readings[0]
			for _, v := range readings {
				lo, hi = min(lo, v), max(hi, v)
			}
			nano := idNano(id)
			rec := map[string]int64{"call": int64(k), "clock_ns": hi, "id": id, "id_ns": nano}
			fail := func(sig string) {
				if violated[sig] {
					c.Add("scripted_violations_"+sig, 1)
					return
				}
				violated[sig] = true
				c.Violate(sig, map[string]any{"level": "unit MessageIDGen.New, scripted clock", "clock_script": sc.name, "script_index": si,
					"this_call": rec, "previous_calls": append([]map[string]int64(nil), trail...)})
			}
			if id%4 != 0 {
				fail("gen|not-client-typed")
			}
			if id&0xffffffff >= 1_000_000_000 {
				fail("gen|fraction-out-of-range")
			}
			decision := "a" // adopted the clock
			if k > 0 {
				switch {
				case id == prev:
					fail("gen|duplicate-id")
				case id < prev:
					fail("gen|decreasing-id")
				}
				if nano < prevNano {
					fail("gen|encoded-time-decreasing")
				}
				if nano > max(floor4(hi), prevNano+16) {
					fail("gen|ahead-of-clock")
				}
				if nano != floor4(hi) && nano != floor4(lo) {
					decision = "b" // bumped past the previous id
				}
			} else if nano > floor4(hi) {
				fail("gen|ahead-of-clock")
			}
			if nano < floor4(lo) {
				fail("gen|behind-clock")
			}
			grams += decision
			if len(grams) > 5 {
				grams = grams[1:]
			}
			if len(grams) == 5 && k%7 == 0 {
				c.Distinct("scripted/" + sc.name + "/" + grams)
			}
			prev, prevNano = id, nano
			trail = append(trail, rec)
			if len(trail) > 4 {
				trail = trail[1:]
			}
		}
		if si < 3 {
			c.Sample("clock-script", map[string]any{"script": sc.name, "calls": calls, "last": trail})
		}
	}
	c.Add("scripted_clocks", int64(len(scripts)))
	// the type bits of the other message types (same generator, server side of the tests)
	gen := proto.NewMessageIDGen(func() time.Time { return time.Unix(1_700_000_000, 0) })
	for i := 0; i < 64; i++ {
		for typ, bits := range map[proto.MessageType]int64{proto.MessageFromClient: 0, proto.MessageServerResponse: 1, proto.MessageFromServer: 3} {
			if id := gen.New(typ); id&3 != bits {
				c.Violate("gen|wrong-type-bits", map[string]any{"type": typ.String(), "id": id})
			}
			c.Eval(1)
		}
	}
}

type genOp struct {
	g, k      int
	call, ret int64
	id        int64
}

// c08Concurrent: concurrent callers of one MessageIDGen; porcupine with the
// model "returns a value greater than every value returned by an operation that
// completed before it started" (a strictly increasing register), cross-checked
// by the direct pairwise test, which also names the defect class.
func c08Concurrent(c *mon.Ctx) {
	r := c.Rand("c08-concurrent")
	histories := c.N(300, 6000)
	stepSets := [][]int64{{1}, {2}, {3}, {1, 2, 3}, {0}, {0, 1}, {0, 0, 0, 50}, {4}, {5}, {10}, {1000}, {0, 3, 7, 12}, {1, 1, 1, 1000}, {-5, 20}}
	model := porcupine.Model{
		Init: func() interface{} { return int64(-1 << 62) },
		Step: func(state, input, output interface{}) (bool, interface{}) {
			return output.(int64) > state.(int64), output
		},
	}
	unknown := 0
	for hi := 0; hi < histories; hi++ {
		goroutines := 2 + r.IntN(7)
		perG := 3 + r.IntN(6)
		steps := stepSets[hi%len(stepSets)]
		var clk atomic.Int64
		clk.Store((1_700_000_000+int64(r.IntN(90_000_000)))*1_000_000_000 + int64(r.IntN(999_000_000)))
		var reads atomic.Int64
		gen := proto.NewMessageIDGen(func() time.Time {
			i := reads.Add(1)
			return time.Unix(0, clk.Add(steps[int(i)%len(steps)]))
		})
		var logical atomic.Int64
		ops := make([][]genOp, goroutines)
		var wg sync.WaitGroup
		start := make(chan struct{})
		for g := 0; g < goroutines; g++ {
			wg.Add(1)
			go func(g int) {
				defer wg.Done()
				<-start
				for k := 0; k < perG; k++ {
					call := logical.Add(1)
					id := gen.New(proto.MessageFromClient)
					ret := logical.Add(1)
					ops[g] = append(ops[g], genOp{g, k, call, ret, id})
					if (g+k)%3 == 0 {
						runtime.Gosched()
					}
				}
			}(g)
		}
		close(start)
		wg.Wait()
		var all []genOp
		var history []porcupine.Operation
		for _, o := range ops {
			for _, op := range o {
				all = append(all, op)
				history = append(history, porcupine.Operation{ClientId: op.g, Input: nil, Call: op.call, Output: op.id, Return: op.ret})
			}
		}
		c.Eval(len(all))
		res := porcupine.CheckOperationsTimeout(model, history, 20*time.Second)
		// direct check: duplicates, and a pair ordered in real time with non-increasing ids
		sort.Slice(all, func(i, j int) bool { return all[i].call < all[j].call })
		dup, inversion := [2]genOp{}, [2]genOp{}
		hasDup, hasInv := false, false
		seen := map[int64]genOp{}
		for _, op := range all {
			if o, ok := seen[op.id]; ok && !hasDup {
				hasDup, dup = true, [2]genOp{o, op}
			}
			seen[op.id] = op
		}
		for i := range all {
			for j := range all {
				if all[i].ret < all[j].call && all[i].id > all[j].id && !hasInv {
					hasInv, inversion = true, [2]genOp{all[i], all[j]}
				}
			}
		}
		wit := func(pair [2]genOp) map[string]any {
			return map[string]any{"level": "unit MessageIDGen.New, concurrent callers", "history_index": hi, "goroutines": goroutines,
				"clock_steps_ns": steps, "porcupine": string(res),
				"op_a": map[string]int64{"g": int64(pair[0].g), "call": pair[0].call, "ret": pair[0].ret, "id": pair[0].id},
				"op_b": map[string]int64{"g": int64(pair[1].g), "call": pair[1].call, "ret": pair[1].ret, "id": pair[1].id}}
		}
		for _, op := range all {
			if op.id%4 != 0 {
				c.Violate("gen|not-client-typed", wit([2]genOp{op, op}))
			}
		}
		switch {
		case hasDup:
			c.Violate("gen|duplicate-id", wit(dup))
		case hasInv:
			c.Violate("gen|concurrent-order-inversion", wit(inversion))
		}
		switch res {
		case porcupine.Unknown:
			unknown++
		case porcupine.Illegal:
			if !hasDup && !hasInv {
				c.Inconclusive("porcupine reports an illegal MessageIDGen history the direct check cannot explain (harness defect)")
			}
		case porcupine.Ok:
			if hasDup || hasInv {
				c.Inconclusive("direct check reports a defect porcupine accepts (harness defect)")
			}
			c.Distinct(fmt.Sprintf("concurrent/g%d/steps%v", goroutines, steps))
		}
	}
	c.Add("porcupine_gen_histories", int64(histories))
	c.Add("porcupine_gen_unknown", int64(unknown))
	if unknown > histories/2 {
		c.Inconclusive(fmt.Sprintf("porcupine timed out on %d of %d MessageIDGen histories", unknown, histories))
	}
}
