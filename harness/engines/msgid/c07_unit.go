package main

import (
	"fmt"
	"math/rand/v2"
	"runtime"
	"sync"
	"sync/atomic"
	"time"

	"github.com/anishathalye/porcupine"

	"github.com/gotd/td/bin"
	"github.com/gotd/td/crypto"
	"github.com/gotd/td/proto"

	"verif/harness/mon"
	"verif/harness/refmodel"
)

var seqPatterns = []string{
	"ascending-replays", "cycle-small-set", "small-domain", "descending", "fill-probe",
	"two-streams", "sawtooth", "random63-dups",
}

// genSequence builds one id sequence (all ids > 0) for the given pattern.
func genSequence(r *rand.Rand, pattern string, n, length int) []int64 {
	base := int64(1_700_000_000+r.IntN(100_000_000)) << 32
	step := func() int64 { return int64(4 * (1 + r.IntN(1000))) }
	ids := make([]int64, 0, length)
	switch pattern {
	case "ascending-replays":
		cur := base
		var hist []int64
		for len(ids) < length {
			if len(hist) > 0 && r.IntN(10) < 3 {
				back := 1 + r.IntN(min(len(hist), 2*n+3))
				ids = append(ids, hist[len(hist)-back])
				continue
			}
			cur += step()
			hist = append(hist, cur|1)
			ids = append(ids, cur|1)
		}
	case "cycle-small-set":
		k := 2 + r.IntN(5)
		set := make([]int64, k)
		for i := range set {
			set[i] = base + int64(i+1)*step() | 3
		}
		r.Shuffle(k, func(i, j int) { set[i], set[j] = set[j], set[i] })
		for len(ids) < length {
			ids = append(ids, set[len(ids)%k])
		}
	case "small-domain":
		d := []int{n + 1, 2 * n, 4*n + 1}[r.IntN(3)]
		for len(ids) < length {
			ids = append(ids, int64(1+r.IntN(d)))
		}
	case "descending":
		cur := base + int64(length+10)*4000
		for len(ids) < length {
			cur -= step()
			ids = append(ids, cur|1)
			if r.IntN(8) == 0 && len(ids) > 1 {
				ids = append(ids, ids[r.IntN(len(ids))])
			}
		}
	case "fill-probe":
		cur := base
		var filled []int64
		for i := 0; i < n+r.IntN(3); i++ {
			cur += 8 + step() // leave gaps
			filled = append(filled, cur|1)
		}
		ids = append(ids, filled...)
		for len(ids) < length {
			switch r.IntN(6) {
			case 0: // replay oldest / middle / newest of what was sent
				ids = append(ids, filled[[]int{0, len(filled) / 2, len(filled) - 1}[r.IntN(3)]])
			case 1: // below the minimum
				ids = append(ids, filled[0]-int64(4*(1+r.IntN(50))))
			case 2: // fresh id inside a gap
				j := r.IntN(len(filled))
				ids = append(ids, filled[j]+4)
			case 3: // replay anything
				ids = append(ids, ids[r.IntN(len(ids))])
			default: // fresh above
				cur += 8 + step()
				filled = append(filled, cur|1)
				ids = append(ids, cur|1)
			}
		}
	case "two-streams":
		lo, hi := base, base+int64(1)<<33
		for len(ids) < length {
			if r.IntN(2) == 0 {
				lo += step()
				ids = append(ids, lo|1)
			} else {
				hi += step()
				ids = append(ids, hi|3)
			}
			if r.IntN(6) == 0 {
				ids = append(ids, ids[r.IntN(len(ids))])
			}
		}
	case "sawtooth":
		cur := base
		for len(ids) < length {
			run := 1 + r.IntN(n+2)
			for j := 0; j < run; j++ {
				cur += step()
				ids = append(ids, cur|1)
			}
			cur -= int64(r.IntN(run+1)) * 2000
		}
	default: // random63-dups
		for len(ids) < length {
			if len(ids) > 0 && r.IntN(4) == 0 {
				ids = append(ids, ids[r.IntN(len(ids))])
				continue
			}
			ids = append(ids, int64(r.Uint64()>>1)|1)
		}
	}
	if len(ids) > length {
		ids = ids[:length]
	}
	return ids
}

// c07Sequences: MessageIDBuf.Consume against the sequential model.
func c07Sequences(c *mon.Ctx) {
	r := c.Rand("c07-seq")
	seqs := c.N(4000, 80000)
	sizes := []int{1, 2, 4, 100}
	for si := 0; si < seqs; si++ {
		n := sizes[si%len(sizes)]
		pattern := seqPatterns[(si/len(sizes))%len(seqPatterns)]
		length := 20 + r.IntN(60)
		if n == 100 {
			length = 130 + r.IntN(170)
		}
		ids := genSequence(r, pattern, n, length)
		buf := proto.NewMessageIDBuf(n)
		w := newWindow(n)
		for i, id := range ids {
			v, reason := w.predict(id)
			got := buf.Consume(id)
			c.Eval(1)
			if v != unspecified {
				c.Distinct(fmt.Sprintf("consume/%s/N%d/%s", pattern, n, reason))
			} else {
				c.Add("consume_unasserted", 1)
			}
			if (v == mustDrop && got) || (v == mustAccept && !got) {
				sig := "accepted|" + reason
				if !got {
					sig = "dropped|" + reason
				}
				lo := max(0, i-8)
				c.Violate(sig, map[string]any{
					"level": "unit MessageIDBuf.Consume", "N": n, "pattern": pattern, "sequence_index": si,
					"op_index": i, "id": id, "model": v.String(), "consume_returned": got,
					"preceding_ids": ids[lo:i], "model_state": w.snapshot(),
				})
			}
			if got {
				w.add(id)
			}
		}
		if si < 3 {
			c.Sample("consume-sequence", map[string]any{"N": n, "pattern": pattern, "first_ids": head(ids, 6), "len": len(ids)})
		}
	}
	c.Add("consume_sequences", int64(seqs))
}

type consumeOut struct {
	ok bool
}

// c07Porcupine: concurrent Consume histories checked for linearizability
// against Telegram's rule (the rule quoted in the Consume source comment).
func c07Porcupine(c *mon.Ctx) {
	r := c.Rand("c07-porcupine")
	histories := c.N(300, 6000)
	sizes := []int{1, 2, 4, 100}
	var unknown, illegal int
	for hi := 0; hi < histories; hi++ {
		n := sizes[hi%len(sizes)]
		goroutines := 2 + r.IntN(3)
		perG := 3 + r.IntN(5)
		buf := proto.NewMessageIDBuf(n)
		// Prefill (sequentially, outside the history) so that full windows are
		// exercised for N = 100 as well; the model starts from the same state.
		var init tgSet
		prefill := 0
		if r.IntN(2) == 0 {
			prefill = n
		} else {
			prefill = r.IntN(n + 1)
		}
		for i := 0; i < prefill; i++ {
			id := int64(1000 + 10*i)
			buf.Consume(id)
			_, init = tgStep(n, init, id)
		}
		// Operation ids: a small domain around the window so that equal ids,
		// ids below the minimum and fresh ids all occur and collide.
		lo, hi2 := int64(1), int64(40)
		if prefill > 0 {
			lo, hi2 = 1000-30, 1000+10*int64(prefill)+30
		}
		plan := make([][]int64, goroutines)
		for g := range plan {
			for k := 0; k < perG; k++ {
				var id int64
				if r.IntN(3) == 0 && prefill > 0 {
					id = 1000 + 10*int64(r.IntN(prefill)) // stored id
				} else {
					id = lo + r.Int64N(hi2-lo+1)
				}
				if id <= 0 {
					id = 1
				}
				plan[g] = append(plan[g], id)
			}
		}
		var clock atomic.Int64
		ops := make([][]porcupine.Operation, goroutines)
		var wg sync.WaitGroup
		start := make(chan struct{})
		for g := 0; g < goroutines; g++ {
			wg.Add(1)
			go func(g int) {
				defer wg.Done()
				<-start
				for k, id := range plan[g] {
					call := clock.Add(1)
					ok := buf.Consume(id)
					ret := clock.Add(1)
					ops[g] = append(ops[g], porcupine.Operation{ClientId: g, Input: id, Call: call, Output: consumeOut{ok}, Return: ret})
					if (k+g)%3 == 0 {
						runtime.Gosched()
					}
				}
			}(g)
		}
		close(start)
		wg.Wait()
		var history []porcupine.Operation
		for _, o := range ops {
			history = append(history, o...)
		}
		model := porcupine.Model{
			Init: func() interface{} { return init },
			Step: func(state, input, output interface{}) (bool, interface{}) {
				ok, ns := tgStep(n, state.(tgSet), input.(int64))
				return ok == output.(consumeOut).ok, ns
			},
			Equal: func(a, b interface{}) bool { return tgEqual(a.(tgSet), b.(tgSet)) },
			Hash:  func(a interface{}) uint64 { return tgHash(a.(tgSet)) },
		}
		res := porcupine.CheckOperationsTimeout(model, history, 20*time.Second)
		c.Eval(len(history))
		accepted := 0
		for _, o := range history {
			if o.Output.(consumeOut).ok {
				accepted++
			}
		}
		switch res {
		case porcupine.Ok:
			c.Distinct(fmt.Sprintf("porcupine-consume/N%d/g%d/prefill-%s/accepted-%d", n, goroutines, bucket(prefill, n), min(accepted, 6)))
		case porcupine.Unknown:
			unknown++
		case porcupine.Illegal:
			illegal++
			var h []map[string]any
			for _, o := range history {
				h = append(h, map[string]any{"g": o.ClientId, "id": o.Input, "call": o.Call, "ret": o.Return, "ok": o.Output.(consumeOut).ok})
			}
			c.Violate("consume-not-linearizable", map[string]any{
				"level": "unit MessageIDBuf.Consume, concurrent", "N": n, "history_index": hi, "prefilled_ids": len(init),
				"prefill_low_high": []int64{1000, 1000 + 10*int64(max(prefill-1, 0))}, "history": h,
			})
		}
	}
	c.Add("porcupine_consume_histories", int64(histories))
	c.Add("porcupine_consume_unknown", int64(unknown))
	if unknown > histories/2 {
		c.Inconclusive(fmt.Sprintf("porcupine timed out on %d of %d Consume histories", unknown, histories))
	}
}

func bucket(x, n int) string {
	switch {
	case x == 0:
		return "empty"
	case x >= n:
		return "full"
	}
	return "partial"
}

// c07Padding: Cipher.Decrypt (client side) on server frames with every padding
// length 0..1100 and the length-field variants, built by the hand-rolled encryptor.
func c07Padding(c *mon.Ctx) {
	r := c.Rand("c07-padding")
	rounds := c.N(3, 40)
	dec := crypto.NewClientCipher(nil)
	check := func(key crypto.AuthKey, h refmodel.Header, data []byte, padding int, class string, mustAccept bool) {
		if (32+len(data)+padding)%16 != 0 {
			panic("harness: unaligned frame")
		}
		wire := refmodel.Encrypt(key.Value[:], h, data, randBytes(r, padding), true)
		var got *crypto.EncryptedMessageData
		var err error
		pv, stack := mon.Try(func() { got, err = dec.DecryptFromBuffer(key, &bin.Buffer{Buf: wire}) })
		c.Eval(1)
		w := map[string]any{"level": "unit Cipher.Decrypt", "declared_len": h.Len, "data_plus_padding": len(data) + padding, "padding": len(data) + padding - int(h.Len), "class": class}
		if pv != nil {
			w["panic"], w["stack"] = fmt.Sprint(pv), stack
			c.Violate("decrypt-panic|"+class, w)
			return
		}
		accepted := err == nil && got != nil
		switch {
		case accepted && !mustAccept:
			c.Violate("accepted|"+class, w)
		case !accepted && mustAccept:
			w["err"] = fmt.Sprint(err)
			c.Violate("dropped|"+class, w)
		default:
			c.Distinct(fmt.Sprintf("decrypt/%s/p%d", class, (len(data)+padding-int(h.Len))/64))
		}
	}
	for round := 0; round < rounds; round++ {
		key := randKey(r)
		for p := 0; p <= 1100; p++ {
			// data length that aligns: 32 + n + p ≡ 0 (mod 16)
			n := ((-(32+p))%16+16)%16 + 16*r.IntN(8)
			h := refmodel.Header{Salt: int64(r.Uint64()), Session: int64(r.Uint64()), MsgID: serverID(1_700_000_000, int64(r.IntN(1e9)), 1), SeqNo: int32(r.IntN(100)), Len: int32(n)}
			class, ok := "padding-valid", true
			switch {
			case n%4 != 0:
				class, ok = "len-mod4", false
			case p < 12:
				class, ok = "padding-short", false
			case p > 1024:
				class, ok = "padding-long", false
			}
			check(key, h, randBytes(r, n), p, class, ok)
		}
		// declared length smaller than the data: the rest counts as padding
		for k := 0; k < 64; k++ {
			n := 16 * (1 + r.IntN(80))
			p := 16 * r.IntN(3) // 0, 16, 32 real padding bytes
			declared := n - 4*r.IntN(n/4+1)
			eff := n + p - declared
			h := refmodel.Header{Salt: int64(r.Uint64()), Session: int64(r.Uint64()), MsgID: serverID(1_700_000_000, int64(r.IntN(1e9)), 3), SeqNo: 1, Len: int32(declared)}
			class, ok := "padding-valid", true
			switch {
			case eff < 12:
				class, ok = "padding-short", false
			case eff > 1024:
				class, ok = "padding-long", false
			}
			check(key, h, randBytes(r, n), p, class, ok)
		}
		// negative and too large declared lengths
		for _, declared := range []int32{-4, -16, -1 << 31, 1 << 30, 64 + 4, 1<<31 - 1} {
			n, p := 32, 32
			h := refmodel.Header{Salt: 1, Session: 2, MsgID: serverID(1_700_000_000, 4, 1), SeqNo: 1, Len: declared}
			class := "len-negative"
			if declared > 0 {
				class = "len-beyond-data"
			}
			check(key, h, randBytes(r, n), p, class, false)
		}
	}
}
