// Engine msgid: monitors for the message-id properties of an MTProto session.
//
//	C07  only fresh, in-session, correctly padded server messages are accepted
//	C08  outgoing message ids are unique, increasing and client-typed
//
// Unit level: proto.MessageIDBuf.Consume / proto.MessageIDGen.New / crypto
// Cipher.Decrypt against executable sequential models (plus porcupine for the
// concurrent histories). Connection level: a real mtproto.Conn runs on a fake
// transport.Conn owned by the harness, which plays the server with the
// hand-rolled refmodel encryptor.
package main

import (
	"verif/harness/mon"
)

func main() {
	mon.Main("msgid", map[string]mon.PropFunc{
		"C04": runC04Wire, // connection-level arm of C04 (write path incl. the compression branch)
		"C06": runC04Wire, // connection-level arm of C06: msg_key / AES key derivation of every frame a real Conn writes under concurrent send+receive, checked by the reference model; -race
		"C07": runC07,
		"C08": runC08,
	})
}
