package main

import (
	"bytes"
	"context"
	"encoding/binary"
	"fmt"
	"sync"
	"time"

	"github.com/gotd/neo"

	"github.com/gotd/td/clock"

	"verif/harness/mon"
)

// Send-failure arm of the C08 wire monitor.
//
// The fake transport fails selected Send calls with a plain error (the frame
// is not transmitted) while the connection stays in use: mtproto.Conn reports a
// transport write error to the caller (ErrSendFailed) and keeps running. Both
// first transmissions and retransmissions of the rpc engine are failed (the
// retry timer runs on the fake clock; the harness withholds the answer and
// travels the clock by RetryInterval until the resend reaches Send).
//
// The script is sequential (one operation at a time, no ack or salt traffic), so
// the order of the first Send call per msg_id is the generation order and the
// oracle is exact: over every frame the client generated — transmitted or
// failed — msg ids strictly increase, a content message carries
// 2·(content messages generated before it)+1 and a service message 2·(that count).

var faultKinds = []string{"invoke", "ping", "invoke-fail-first", "ping-fail", "invoke-resend-fail", "invoke-resend-ok", "invoke-resend-twice"}

const faultRetry = 5 * time.Second

func c08WireFaults(c *mon.Ctx) {
	runs := c.N(40, 800)
	for ri := 0; ri < runs; ri++ {
		wireFaultRun(c, ri)
	}
}

func wireFaultRun(c *mon.Ctx, ri int) {
	r := c.RandN("c08-wire-fault", ri)
	wc := wireClocks[ri%len(wireClocks)]
	e := newConnEnvClock(c, r, connOpts{ackBatch: 1000, retry: faultRetry}, func(t *neo.Time) clock.Clock {
		return &steppingClock{t: t, steps: wc.steps}
	})
	nOps := 8 + r.IntN(16)
	plan := make([]string, nOps)
	for i := range plan {
		plan[i] = faultKinds[r.IntN(len(faultKinds))]
	}
	// the two sequences of the defect class, verbatim, in the first runs
	switch ri {
	case 0:
		plan = append([]string{"invoke-resend-fail", "ping", "invoke"}, plan...)
	case 1:
		plan = append([]string{"invoke", "invoke-fail-first", "invoke", "ping"}, plan...)
	}
	var mu sync.Mutex
	cur := -1                   // index of the running operation
	attempts := map[int64]int{} // msg_id -> Send calls so far
	firstPayload := map[int64][]byte{}
	dupSeen := make(chan struct{}) // two different messages under one id: the script cannot go on (callers may hang)
	var dupOnce sync.Once
	kindOfInvoke := func(cf clientFrame) string {
		if cf.TypeID != idHarnessRequest || len(cf.Payload) < 12 {
			return ""
		}
		i := int(binary.LittleEndian.Uint64(cf.Payload[4:]))
		if i < 0 || i >= len(plan) {
			return ""
		}
		return plan[i]
	}
	e.srv.decide = func(cf clientFrame) bool {
		mu.Lock()
		defer mu.Unlock()
		attempts[cf.MsgID]++
		a := attempts[cf.MsgID]
		if p, ok := firstPayload[cf.MsgID]; !ok {
			firstPayload[cf.MsgID] = cf.Payload
		} else if !bytes.Equal(p, cf.Payload) {
			dupOnce.Do(func() { close(dupSeen) })
			return false
		}
		switch cf.TypeID {
		case idHarnessRequest:
			switch kindOfInvoke(cf) {
			case "invoke-fail-first":
				return a == 1
			case "invoke-resend-fail":
				return a >= 2
			}
		case idPing:
			return cur >= 0 && plan[cur] == "ping-fail"
		}
		return false
	}
	respond := func(cf clientFrame) {
		switch cf.TypeID {
		case idPing, idPingDelayDisconnect:
			p := pongPayload(cf.MsgID, int64(binary.LittleEndian.Uint64(cf.Payload[4:])))
			e.push(e.frame(e.header(e.freshID(1), 0, len(p)), p, -1))
		case idHarnessRequest:
			mu.Lock()
			a := attempts[cf.MsgID]
			mu.Unlock()
			k := kindOfInvoke(cf)
			if k == "invoke" || (k == "invoke-resend-ok" && a >= 2) || (k == "invoke-resend-twice" && a >= 3) {
				p := rpcResultPayload(cf.MsgID, int64(binary.LittleEndian.Uint64(cf.Payload[4:])))
				e.push(e.frame(e.header(e.freshID(1), 1, len(p)), p, -1))
			}
		}
	}
	unexpected := 0
	travels := 0
	ok := e.run(respond, func(ctx context.Context, _ int64) {
		for i, kind := range plan {
			if ctx.Err() != nil {
				return
			}
			mu.Lock()
			cur = i
			mu.Unlock()
			before := e.srv.seen.get()
			done := make(chan error, 1)
			go func() {
				if kind == "ping" || kind == "ping-fail" {
					done <- e.conn.Ping(ctx)
					return
				}
				var res harnessResult
				done <- e.conn.Invoke(ctx, harnessRequest{tag: int64(i)}, &res)
			}()
			wantSends := 1
			switch kind {
			case "invoke-resend-fail", "invoke-resend-ok":
				wantSends = 2
			case "invoke-resend-twice":
				wantSends = 3
			}
			var err error
			finished := false
			deadline := time.Now().Add(paceWatchdog)
			for !finished {
				seen := e.srv.seen.get() - before
				if seen >= 1 && seen < wantSends {
					// the request is on the wire, unanswered: let the engine's retry timer expire
					e.clk.Travel(faultRetry)
					travels++
				}
				select {
				case err = <-done:
					finished = true
				case <-dupSeen:
					return // the verdict is taken from the captured frames
				case <-time.After(3 * time.Millisecond): // pacing only
				}
				if !finished && time.Now().After(deadline) {
					c.Inconclusive(fmt.Sprintf("fault run %d: operation %d (%s) did not complete within the watchdog", ri, i, kind))
					return
				}
			}
			wantErr := kind == "invoke-fail-first" || kind == "ping-fail" || kind == "invoke-resend-fail"
			if (err != nil) != wantErr {
				unexpected++
			}
		}
	})
	if !ok {
		return
	}
	select {
	case <-dupSeen:
		unexpected = 0 // the script was abandoned
	default:
	}
	if unexpected > 0 {
		c.Inconclusive(fmt.Sprintf("fault run %d: %d operations ended differently from the script (harness expectation)", ri, unexpected))
	}
	all := e.srv.generated()
	c.Eval(len(all))
	c.Add("fault_frames_generated", int64(len(all)))
	c.Add("fault_clock_travels", int64(travels))
	desc := func(f clientFrame) map[string]any {
		return map[string]any{"msg_id": f.MsgID, "seq_no": f.SeqNo, "type": typeName(f.TypeID), "send_failed_by_harness": f.Failed, "send_order": f.Order, "script_op": kindOfInvoke(f)}
	}
	first := map[int64]clientFrame{}
	var gen []clientFrame // first Send per msg_id, in generation order
	failedFirst, failedResend, resent := 0, 0, 0
	dupIDs := false
	for _, f := range all {
		p, dup := first[f.MsgID]
		if !dup {
			first[f.MsgID] = f
			gen = append(gen, f)
			if f.Failed {
				failedFirst++
			}
			continue
		}
		resent++
		if f.Failed {
			failedResend++
		}
		if p.SeqNo != f.SeqNo || !bytes.Equal(p.Payload, f.Payload) {
			c.Violate("wire|duplicate-msg-id", map[string]any{"level": "wire, send-failure arm", "run": ri, "first": desc(p), "second": desc(f)})
			dupIDs = true
		}
	}
	if dupIDs {
		// generation order is reconstructed from the first Send per msg_id: not
		// defined when two messages share an id
		c.Add("fault_runs_seq_rule_skipped", 1)
		return
	}
	c.Add("fault_first_sends_failed", int64(failedFirst))
	c.Add("fault_resends_failed", int64(failedResend))
	c.Add("fault_retransmissions", int64(resent))
	var lastID int64
	content := int32(0)
	for i, f := range gen {
		isContent := f.TypeID == idHarnessRequest
		want := 2 * content
		if isContent {
			want++
		}
		wit := func() map[string]any {
			var before []map[string]any
			for j := max(0, i-4); j < i; j++ {
				before = append(before, desc(gen[j]))
			}
			return map[string]any{"level": "wire, send-failure arm (sequential script; generation order = first Send per msg_id)", "run": ri, "clock": wc.name,
				"script": plan, "frame": desc(f), "content_messages_generated_before": content, "expected_seq_no": want, "generated_before": before}
		}
		if f.MsgID%4 != 0 {
			c.Violate("wire|msg-id-not-client-typed", wit())
		}
		if i > 0 && f.MsgID <= lastID {
			c.Violate("wire|msg-id-not-increasing", wit())
		}
		lastID = f.MsgID
		if f.SeqNo != want {
			c.Violate("wire|seq-no-mismatch", wit())
		}
		if isContent {
			content++
		}
		if i > 0 {
			c.Distinct(fmt.Sprintf("fault/%s%s>%s%s", typeName(gen[i-1].TypeID), failTag(gen[i-1]), typeName(f.TypeID), failTag(f)))
		}
	}
	for i := 1; i < len(plan); i++ {
		c.Distinct("fault-script/" + plan[i-1] + ">" + plan[i])
	}
	if ri < 2 {
		var fr []any
		for _, f := range gen[:min(len(gen), 6)] {
			fr = append(fr, desc(f))
		}
		c.Sample("fault-run", map[string]any{"run": ri, "script": plan[:min(len(plan), 6)], "generated": fr})
	}
}

func failTag(f clientFrame) string {
	if f.Failed {
		return "(send-failed)"
	}
	return ""
}
