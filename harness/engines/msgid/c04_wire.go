package main

import (
	"bytes"
	"compress/gzip"
	"context"
	"encoding/binary"
	"fmt"
	"io"
	"sync"
	"sync/atomic"
	"time"

	"github.com/gotd/td/bin"

	"verif/harness/mon"
)

// Connection-level arm of C04: what a real mtproto.Conn writes for a request
// must decrypt (reference model) — and, on the compression branch, gunzip
// (stdlib) — to exactly the bytes the request encoded, under the message id of
// THAT request. Concurrent senders share the connection (Conn.write takes only a
// read lock), payload sizes lie below and above the compression threshold.

const (
	idGzipPacked = 0x3072cfa1
	idBigRequest = 0x5eed0004
)

// bigRequest encodes to id | tag | size | size bytes that are a function of (tag, kind).
type bigRequest struct {
	tag  int64
	size int
	kind int // 0 compressible, 1 pseudo-random
}

func bigBody(tag int64, size, kind int) []byte {
	b := make([]byte, size)
	x := uint64(tag)*0x9e3779b97f4a7c15 + 1
	for i := range b {
		if kind == 0 {
			b[i] = byte(tag) + byte(i%7)
		} else {
			x ^= x << 13
			x ^= x >> 7
			x ^= x << 17
			b[i] = byte(x)
		}
	}
	return b
}

func (q bigRequest) expected() []byte {
	var b bin.Buffer
	_ = q.Encode(&b)
	return b.Buf
}

func (q bigRequest) Encode(b *bin.Buffer) error {
	b.PutID(idBigRequest)
	b.PutLong(q.tag)
	b.PutInt32(int32(q.size))
	b.PutInt32(int32(q.kind))
	b.Put(bigBody(q.tag, q.size, q.kind))
	return nil
}

// tlBytes parses a TL `bytes` value at the start of p.
func tlBytes(p []byte) ([]byte, bool) {
	if len(p) == 0 {
		return nil, false
	}
	n, off := int(p[0]), 1
	if p[0] == 254 {
		if len(p) < 4 {
			return nil, false
		}
		n, off = int(p[1])|int(p[2])<<8|int(p[3])<<16, 4
	} else if p[0] == 255 {
		return nil, false
	}
	if off+n > len(p) {
		return nil, false
	}
	return p[off : off+n], true
}

func gunzipStd(data []byte) ([]byte, error) {
	zr, err := gzip.NewReader(bytes.NewReader(data))
	if err != nil {
		return nil, err
	}
	return io.ReadAll(io.LimitReader(zr, 64<<20))
}

func runC04Wire(c *mon.Ctx) {
	c.Rule("connection level: a real mtproto.Conn (CompressThreshold in {64, 256, 1024, 4096, disabled}) sends 2..8 concurrent streams of requests whose payload is a " +
		"function of a unique tag (sizes below / at / above the threshold, compressible and incompressible); every frame captured at the fake transport is decrypted by the " +
		"reference model, gzip_packed bodies are inflated with compress/gzip, and the payload found under each message id must equal byte-for-byte the encoding of the request " +
		"that the harness's result routing ties to that id (rpc_result carries the tag read from the frame back to the caller: a caller receiving another tag means its id " +
		"carried another request's payload); padding 12..1024 and 16-byte alignment checked per frame; distinct non-trivial = (threshold, branch gzip|plain|nocompress, size bucket, streams)")
	c.Assume("refmodel decrypt (specification transcription), compress/gzip and crypto/aes, crypto/sha256 are the trusted base")
	runs := c.N(25, 300)
	for ri := 0; ri < runs; ri++ {
		c04WireRun(c, ri)
	}
	if c.DistinctCount() < 2 {
		c.Inconclusive("fewer than 2 distinct non-trivial cases observed")
	}
}

func c04WireRun(c *mon.Ctx, ri int) {
	r := c.RandN("c04-wire", ri)
	thr := []int{64, 256, 1024, 4096, -1}[ri%5]
	e := newConnEnv(c, r, connOpts{ackBatch: 1 + r.IntN(4), compress: thr})
	e.keepBad = true
	streams := 2 + r.IntN(7)
	perG := 6 + r.IntN(10)
	base := thr
	if base < 0 {
		base = 1024
	}
	type plan struct{ q bigRequest }
	plans := make([][]plan, streams)
	for g := range plans {
		for k := 0; k < perG; k++ {
			var size int
			switch r.IntN(6) {
			case 0:
				size = r.IntN(base/2+1) &^ 3
			case 1:
				size = (base - 24 + 4*r.IntN(5)) &^ 3 // around the threshold (20 bytes of header fields)
			case 2:
				size = (base + 4*r.IntN(64)) &^ 3
			case 3:
				size = (base*2 + r.IntN(base*8)) &^ 3
			case 4:
				size = (16<<10 + r.IntN(c.N(48<<10, 96<<10))) &^ 3 // large: long gzip window
			default:
				size = r.IntN(4*base) &^ 3
			}
			if size < 0 {
				size = 0
			}
			plans[g] = append(plans[g], plan{bigRequest{tag: int64(ri)<<40 | int64(g)<<20 | int64(k) | 1<<62, size: size, kind: r.IntN(3) / 2}})
		}
	}
	type seen struct {
		tag     int64
		ok      bool
		why     string
		gz      bool
		msgID   int64
		length  int
		padding int
	}
	var mu sync.Mutex
	byMsg := map[int64]seen{}
	wit := func(extra map[string]any) map[string]any {
		w := map[string]any{"level": "wire (frames written by a real mtproto.Conn)", "run": ri, "compress_threshold": thr, "streams": streams}
		for k, v := range extra {
			w[k] = v
		}
		return w
	}
	respond := func(cf clientFrame) {
		switch cf.TypeID {
		case idPing, idPingDelayDisconnect:
			p := pongPayload(cf.MsgID, int64(binary.LittleEndian.Uint64(cf.Payload[4:])))
			e.push(e.frame(e.header(e.freshID(1), 0, len(p)), p, -1))
			return
		case idGzipPacked, idBigRequest:
		default:
			return
		}
		if cf.Padding < 12 || cf.Padding > 1024 || (len(cf.Raw)-24)%16 != 0 {
			c.Violate("wire|padding-or-alignment", wit(map[string]any{"padding": cf.Padding, "body": len(cf.Raw) - 24}))
		}
		s := seen{msgID: cf.MsgID, length: len(cf.Payload), padding: cf.Padding}
		inner := cf.Payload
		if cf.TypeID == idGzipPacked {
			s.gz = true
			packed, ok := tlBytes(cf.Payload[4:])
			if !ok {
				s.why = "gzip_packed bytes field malformed"
			} else if out, err := gunzipStd(packed); err != nil {
				s.why = "gunzip: " + err.Error()
			} else {
				inner = out
			}
		}
		if s.why == "" {
			if len(inner) < 20 || binary.LittleEndian.Uint32(inner) != idBigRequest {
				s.why = "payload is not a harness request"
			} else {
				s.tag = int64(binary.LittleEndian.Uint64(inner[4:]))
				q := bigRequest{tag: s.tag, size: int(int32(binary.LittleEndian.Uint32(inner[12:]))), kind: int(int32(binary.LittleEndian.Uint32(inner[16:])))}
				if q.size < 0 || q.size > 1<<24 || !bytes.Equal(q.expected(), inner) {
					s.why = "payload bytes differ from the encoding of the request named by its tag"
				} else {
					s.ok = true
				}
			}
		}
		mu.Lock()
		prev, dup := byMsg[cf.MsgID]
		if !dup {
			byMsg[cf.MsgID] = s
		}
		mu.Unlock()
		if dup && (prev.tag != s.tag || prev.ok != s.ok) {
			c.Violate("wire|two-payloads-under-one-msg-id", wit(map[string]any{"msg_id": cf.MsgID}))
		}
		// answer with the tag READ FROM THE WIRE, so the caller learns what its id carried
		p := rpcResultPayload(cf.MsgID, s.tag)
		if !s.ok {
			p = rpcResultPayload(cf.MsgID, -1)
		}
		e.push(e.frame(e.header(e.freshID(1), 1, len(p)), p, -1))
	}
	var done, mismatched, corrupt atomic.Int64
	ok := e.run(respond, func(ctx context.Context, _ int64) {
		var wg sync.WaitGroup
		for g := 0; g < streams; g++ {
			wg.Add(1)
			go func(g int) {
				defer wg.Done()
				for _, pl := range plans[g] {
					var res harnessResult
					c.Eval(1)
					if err := e.conn.Invoke(ctx, pl.q, &res); err != nil {
						return
					}
					done.Add(1)
					switch {
					case res.tag == pl.q.tag:
					case res.tag == -1:
						corrupt.Add(1)
						c.Violate("wire|payload-corrupt", wit(map[string]any{"sent_tag": pl.q.tag, "size": pl.q.size, "kind": pl.q.kind}))
					default:
						mismatched.Add(1)
						c.Violate("wire|payload-of-another-request-under-this-msg-id", wit(map[string]any{"sent_tag": pl.q.tag, "wire_tag": res.tag, "size": pl.q.size, "kind": pl.q.kind}))
					}
				}
			}(g)
		}
		allDone := make(chan struct{})
		go func() { wg.Wait(); close(allDone) }()
		deadline := time.After(paceWatchdog)
	wait:
		for {
			select {
			case <-allDone:
				break wait
			case <-deadline:
				c.Inconclusive(fmt.Sprintf("c04 wire run %d: operations did not complete within the watchdog", ri))
				break wait
			case <-time.After(20 * time.Millisecond):
				// a frame the peer cannot decrypt / parse is never answered: do not wait for its caller
				e.srv.mu.Lock()
				nbad := len(e.srv.bad)
				e.srv.mu.Unlock()
				if nbad > 0 {
					break wait
				}
			}
		}
	})
	e.srv.mu.Lock()
	bad := append([]string(nil), e.srv.bad...)
	e.srv.mu.Unlock()
	for _, b := range bad {
		c.Violate("wire|frame-not-decodable-by-the-peer", wit(map[string]any{"what": b}))
	}
	if !ok && len(bad) == 0 {
		return
	}
	mu.Lock()
	defer mu.Unlock()
	tags := map[int64]int{}
	for _, s := range byMsg {
		if !s.ok {
			c.Violate("wire|payload-corrupt", wit(map[string]any{"msg_id": s.msgID, "why": s.why, "gzip": s.gz, "payload_len": s.length}))
			continue
		}
		tags[s.tag]++
		branch := "plain"
		if s.gz {
			branch = "gzip"
		} else if thr < 0 {
			branch = "nocompress"
		}
		bucket := 0
		for x := s.length; x > 0; x >>= 2 {
			bucket++
		}
		c.Distinct(fmt.Sprintf("wire/thr%d/%s/len%d/streams%d", thr, branch, bucket, streams))
	}
	for t, n := range tags {
		if n > 1 {
			c.Violate("wire|same-request-payload-under-several-msg-ids", wit(map[string]any{"tag": t, "msg_ids": n}))
		}
	}
	c.Add("wire_requests_completed", done.Load())
	c.Add("wire_frames_checked", int64(len(byMsg)))
	if ri < 2 {
		c.Sample("wire-run", map[string]any{"run": ri, "compress_threshold": thr, "streams": streams, "requests_completed": done.Load(), "frames_checked": len(byMsg)})
	}
}
