package main

import (
	"context"
	"encoding/binary"
	"fmt"
	"math/rand/v2"
	"sync"
	"sync/atomic"
	"time"

	"github.com/gotd/neo"

	"github.com/gotd/td/clock"
	"github.com/gotd/td/crypto"
	"github.com/gotd/td/mtproto"
	"github.com/gotd/td/transport"

	"verif/harness/mon"
	"verif/harness/refmodel"
)

// watchdog for pacing waits: generous, firing is inconclusive, never a verdict.
const paceWatchdog = 90 * time.Second

// clientFrame is one frame written by the real Conn, decrypted by the reference model.
type clientFrame struct {
	MsgID   int64
	SeqNo   int32
	Session int64
	Salt    int64
	TypeID  uint32
	Payload []byte
	Padding int
	KeyOK   bool
	Raw     []byte
}

// server captures and answers the client's frames (the harness plays the server).
type server struct {
	mu      sync.Mutex
	key     crypto.AuthKey
	frames  []clientFrame
	bad     []string // frames the reference model could not decrypt
	seen    *notifier
	respond func(cf clientFrame) // called outside mu, in the writer's goroutine
}

func (s *server) onSend(raw []byte) {
	d, err := refmodel.Decrypt(s.key.Value[:], raw, false)
	if err != nil || !d.MsgKeyOK || int(d.Len) < 4 || int(d.Len) > len(d.Padded) {
		s.mu.Lock()
		s.bad = append(s.bad, fmt.Sprintf("undecryptable client frame (%d bytes): %v", len(raw), err))
		s.mu.Unlock()
		s.seen.inc()
		return
	}
	cf := clientFrame{
		MsgID: d.MsgID, SeqNo: d.SeqNo, Session: d.Session, Salt: d.Salt,
		TypeID:  binary.LittleEndian.Uint32(d.Padded),
		Payload: append([]byte(nil), d.Padded[:d.Len]...), Padding: d.PaddingLen, KeyOK: true, Raw: raw,
	}
	s.mu.Lock()
	s.frames = append(s.frames, cf)
	s.mu.Unlock()
	if s.respond != nil {
		s.respond(cf)
	}
	s.seen.inc()
}

func (s *server) snapshot() []clientFrame {
	s.mu.Lock()
	defer s.mu.Unlock()
	return append([]clientFrame(nil), s.frames...)
}

// connEnv: one real mtproto.Conn on the fake transport.
type connEnv struct {
	c    *mon.Ctx
	r    *rand.Rand
	key  crypto.AuthKey
	salt int64
	clk  *neo.Time
	fc   *fakeConn
	h    *recHandler
	lg   *recLogger
	ev   *notifier
	srv  *server
	conn *mtproto.Conn

	// rmu guards sr, lastFrac and used: the responder runs in the client's
	// writer goroutines, concurrently with the scenario body.
	rmu      sync.Mutex
	sr       *rand.Rand
	lastFrac int64
	used     map[int64]bool

	session  int64
	overflow atomic.Bool
	keepBad  bool // undecodable client frames are judged by the caller (C04 arm), not reported as a harness problem
}

type connOpts struct {
	ackBatch int
	compress int // Options.CompressThreshold; 0 means disabled (-1)
}

func newConnEnv(c *mon.Ctx, r *rand.Rand, o connOpts) *connEnv {
	return newConnEnvClock(c, r, o, func(t *neo.Time) clock.Clock { return t })
}

// newConnEnvClock: the connection clock is derived from the fake time by mk
// (the harness itself always reads the underlying neo.Time).
func newConnEnvClock(c *mon.Ctx, r *rand.Rand, o connOpts, mk func(*neo.Time) clock.Clock) *connEnv {
	e := &connEnv{c: c, r: r, key: randKey(r), salt: int64(r.Uint64()), used: map[int64]bool{}}
	e.sr = rand.New(rand.NewPCG(r.Uint64(), r.Uint64()))
	e.clk = neo.NewTime(time.Unix(1_760_000_000+int64(r.IntN(50_000_000)), int64(r.IntN(1e9))))
	e.ev = newNotifier()
	e.h = newRecHandler(e.ev)
	e.lg = &recLogger{events: e.ev}
	e.srv = &server{key: e.key, seen: newNotifier()}
	e.fc = newFakeConn(e.srv.onSend)
	if o.ackBatch == 0 {
		o.ackBatch = 1
	}
	if o.compress == 0 {
		o.compress = -1
	}
	e.conn = mtproto.New(func(context.Context) (transport.Conn, error) { return e.fc, nil }, mtproto.Options{
		Key: e.key, Salt: e.salt, Clock: mk(e.clk), Random: &seededReader{r: rand.New(rand.NewPCG(r.Uint64(), r.Uint64()))},
		Handler: e.h, Logger: e.lg,
		AckBatchSize: o.ackBatch, AckInterval: 24 * time.Hour,
		PingInterval: 24 * 365 * time.Hour, PingTimeout: time.Hour,
		SaltFetchInterval: 24 * 365 * time.Hour, RetryInterval: 24 * time.Hour,
		CompressThreshold: o.compress, DialTimeout: 10 * time.Minute,
	})
	return e
}

// push queues a server frame for the read loop; false if the queue is full.
func (e *connEnv) push(wire []byte) bool {
	select {
	case e.fc.in <- wire:
		return true
	default:
		e.overflow.Store(true)
		return false
	}
}

// freshID returns an unused server id for the current clock reading, greater
// than every id returned before on this connection (gaps of at least 8 are left).
func (e *connEnv) freshID(typ int64) int64 {
	e.rmu.Lock()
	defer e.rmu.Unlock()
	now := e.clk.Now()
	for {
		e.lastFrac += int64(4 * (2 + e.sr.IntN(500)))
		id := serverID(now.Unix(), e.lastFrac, typ)
		if !e.used[id] {
			e.used[id] = true
			return id
		}
	}
}

// frame encrypts a server frame; padding < 0 picks a valid aligned padding.
// Safe for concurrent use.
func (e *connEnv) frame(h refmodel.Header, payload []byte, padding int) []byte {
	e.rmu.Lock()
	defer e.rmu.Unlock()
	if padding < 0 {
		padding = alignedPadding(e.sr, len(payload))
	}
	return serverFrame(e.sr, e.key, h, payload, padding)
}

func (e *connEnv) nowSec() int64 { return e.clk.Now().Unix() }

// header for a frame in the current session.
func (e *connEnv) header(id int64, seq int32, n int) refmodel.Header {
	return refmodel.Header{Salt: e.salt, Session: e.session, MsgID: id, SeqNo: seq, Len: int32(n)}
}

// run starts Conn.Run, learns the session id from the client's first frame (a
// ping, answered by the harness) and then calls body inside the user callback.
// It returns after Run has returned, i.e. after the read loop has waited for
// every frame goroutine (full quiescence). pongID is the id of the pong the
// client accepted before body started.
func (e *connEnv) run(respond func(cf clientFrame), body func(ctx context.Context, pongID int64)) (ok bool) {
	ctx, cancel := context.WithCancel(context.Background())
	defer cancel()
	var pongMu sync.Mutex
	var pongID int64
	var gotSession bool
	e.srv.respond = func(cf clientFrame) {
		pongMu.Lock()
		first := !gotSession
		if first {
			gotSession = true
			e.session = cf.Session
		}
		pongMu.Unlock()
		if first {
			if cf.TypeID != idPing || len(cf.Payload) != 12 {
				e.c.Inconclusive("first client frame is not the harness ping")
				return
			}
			id := e.freshID(1)
			pongMu.Lock()
			pongID = id
			pongMu.Unlock()
			p := pongPayload(cf.MsgID, int64(binary.LittleEndian.Uint64(cf.Payload[4:])))
			e.push(e.frame(e.header(id, 0, len(p)), p, -1))
			return
		}
		if respond != nil {
			respond(cf)
		}
	}
	done := make(chan error, 1)
	go func() {
		done <- e.conn.Run(ctx, func(ctx context.Context) error {
			pctx, pcancel := context.WithTimeout(ctx, paceWatchdog)
			err := e.conn.Ping(pctx)
			pcancel()
			if err != nil {
				e.c.Inconclusive("initial ping round trip failed: " + err.Error())
				cancel()
				return nil
			}
			pongMu.Lock()
			id := pongID
			pongMu.Unlock()
			body(ctx, id)
			cancel()
			return nil
		})
	}()
	select {
	case <-done:
	case <-time.After(10 * time.Minute):
		e.c.Inconclusive("Conn.Run did not return after cancellation (watchdog)")
		return false
	}
	if e.overflow.Load() {
		e.c.Inconclusive("harness frame queue overflow")
		return false
	}
	e.srv.mu.Lock()
	bad := append([]string(nil), e.srv.bad...)
	e.srv.mu.Unlock()
	for _, b := range bad {
		if e.keepBad {
			break
		}
		// the client wrote something the reference model cannot read: C04's business, but
		// then this run's wire observations are incomplete.
		e.c.Inconclusive(b)
	}
	return true
}

// ackedIDs extracts the msg ids of all msgs_ack frames the client wrote.
func ackedIDs(frames []clientFrame) map[int64]int {
	out := map[int64]int{}
	for _, f := range frames {
		if f.TypeID != idMsgsAck || len(f.Payload) < 12 || binary.LittleEndian.Uint32(f.Payload[4:]) != idVector {
			continue
		}
		n := int(binary.LittleEndian.Uint32(f.Payload[8:]))
		for i := 0; i < n && 12+8*i+8 <= len(f.Payload); i++ {
			out[int64(binary.LittleEndian.Uint64(f.Payload[12+8*i:]))]++
		}
	}
	return out
}
