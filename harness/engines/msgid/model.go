package main

import (
	"sort"
)

// Sequential model of the replay rule.
//
// The property says "neither equal to any of the last N accepted ids nor lower
// than all of them once N are stored". "The last N accepted ids" has two
// readings when ids arrive out of order:
//
//	(V) the N highest accepted ids — Telegram's rule quoted in the source of
//	    MessageIDBuf.Consume: "the oldest (i. e. the lowest) is discarded";
//	(A) the N most recently accepted ids.
//
// The model keeps both sets and only demands what both readings demand:
// an id in both sets must be dropped; once N ids are stored an id below the
// minimum of (A) (which is ≤ the minimum of (V)) must be dropped; an id in
// neither set and above the minimum of (V) (or any such id while fewer than N
// are stored) must be accepted. Everything else is left unasserted.
type window struct {
	n       int
	arrival []int64 // distinct accepted ids, oldest first, at most n
	top     []int64 // distinct accepted ids, ascending, at most n (the n highest)
}

type verdict int

const (
	unspecified verdict = iota
	mustAccept
	mustDrop
)

func (v verdict) String() string {
	switch v {
	case mustAccept:
		return "must-accept"
	case mustDrop:
		return "must-drop"
	}
	return "unspecified"
}

func newWindow(n int) *window { return &window{n: n} }

func (w *window) inArrival(id int64) bool {
	for _, x := range w.arrival {
		if x == id {
			return true
		}
	}
	return false
}

func (w *window) inTop(id int64) bool {
	i := sort.Search(len(w.top), func(i int) bool { return w.top[i] >= id })
	return i < len(w.top) && w.top[i] == id
}

func (w *window) full() bool { return len(w.top) >= w.n && len(w.arrival) >= w.n }

// predict returns what the property demands for id in the current state.
func (w *window) predict(id int64) (verdict, string) {
	a, v := w.inArrival(id), w.inTop(id)
	if a && v {
		return mustDrop, "replay-equal"
	}
	if a || v {
		return unspecified, "in-one-reading"
	}
	if !w.full() {
		if len(w.top) >= w.n || len(w.arrival) >= w.n {
			return unspecified, "fullness-differs"
		}
		return mustAccept, "fresh-window-not-full"
	}
	minA := w.arrival[0]
	for _, x := range w.arrival {
		if x < minA {
			minA = x
		}
	}
	minV := w.top[0]
	switch {
	case id < minA && id < minV:
		return mustDrop, "below-window"
	case id > minV && id > minA:
		return mustAccept, "fresh-above-minimum"
	}
	return unspecified, "between-minima"
}

// add records an id the implementation accepted.
func (w *window) add(id int64) {
	// reading (A): most recent, distinct
	for i, x := range w.arrival {
		if x == id {
			w.arrival = append(w.arrival[:i], w.arrival[i+1:]...)
			break
		}
	}
	w.arrival = append(w.arrival, id)
	if len(w.arrival) > w.n {
		w.arrival = w.arrival[1:]
	}
	// reading (V): the n highest, distinct
	i := sort.Search(len(w.top), func(i int) bool { return w.top[i] >= id })
	if i < len(w.top) && w.top[i] == id {
		return
	}
	w.top = append(w.top, 0)
	copy(w.top[i+1:], w.top[i:])
	w.top[i] = id
	if len(w.top) > w.n {
		w.top = w.top[1:]
	}
}

func (w *window) snapshot() map[string]any {
	return map[string]any{"n": w.n, "arrival_last": tail(w.arrival, 6), "top_low": head(w.top, 3), "top_high": tail(w.top, 3), "stored": len(w.top)}
}

func tail(s []int64, k int) []int64 {
	if len(s) > k {
		s = s[len(s)-k:]
	}
	return append([]int64(nil), s...)
}

func head(s []int64, k int) []int64 {
	if len(s) > k {
		s = s[:k]
	}
	return append([]int64(nil), s...)
}

// tgSet is the state of the porcupine model: Telegram's rule (reading V),
// immutable sorted slice of at most n ids.
type tgSet []int64

func tgStep(n int, st tgSet, id int64) (bool, tgSet) {
	i := sort.Search(len(st), func(i int) bool { return st[i] >= id })
	if i < len(st) && st[i] == id {
		return false, st
	}
	if len(st) >= n && i == 0 {
		return false, st // lower than all stored values
	}
	ns := make(tgSet, 0, len(st)+1)
	ns = append(ns, st[:i]...)
	ns = append(ns, id)
	ns = append(ns, st[i:]...)
	if len(ns) > n {
		ns = ns[1:]
	}
	return true, ns
}

func tgEqual(a, b tgSet) bool {
	if len(a) != len(b) {
		return false
	}
	for i := range a {
		if a[i] != b[i] {
			return false
		}
	}
	return true
}

func tgHash(a tgSet) uint64 {
	h := uint64(1469598103934665603)
	for _, x := range a {
		h ^= uint64(x)
		h *= 1099511628211
	}
	return h
}
