package main

import (
	"bytes"
	"context"
	"encoding/binary"
	"fmt"
	"sort"
	"sync"
	"sync/atomic"
	"time"

	"github.com/gotd/neo"

	"github.com/gotd/td/clock"

	"verif/harness/mon"
)

// steppingClock is the connection clock of the wire runs: every reading
// advances the fake time by the next step of a fixed table (a clock that
// advances by a few nanoseconds between calls, or not at all, or coarsely).
type steppingClock struct {
	t     *neo.Time
	steps []time.Duration
	i     atomic.Int64
}

func (s *steppingClock) Now() time.Time {
	i := s.i.Add(1)
	if d := s.steps[int(i)%len(s.steps)]; d != 0 {
		return s.t.Travel(d)
	}
	return s.t.Now()
}
func (s *steppingClock) Timer(d time.Duration) clock.Timer   { return s.t.Timer(d) }
func (s *steppingClock) Ticker(d time.Duration) clock.Ticker { return s.t.Ticker(d) }

var wireClocks = []struct {
	name  string
	steps []time.Duration
}{
	{"1ns", []time.Duration{1}},
	{"0-1ns", []time.Duration{0, 1}},
	{"1-2-3ns", []time.Duration{1, 2, 3}},
	{"mostly-0-then-1ns", []time.Duration{0, 0, 0, 1}},
	{"frozen", []time.Duration{0}},
	{"2ns", []time.Duration{2}},
	{"0-0-3ns", []time.Duration{0, 0, 3}},
	{"4ns", []time.Duration{4}},
	{"1us", []time.Duration{1000}},
	{"0-0-0-1us", []time.Duration{0, 0, 0, 1000}},
	{"1ms", []time.Duration{1_000_000}},
	{"mixed", []time.Duration{0, 1, 0, 2, 40, 0, 3, 1, 1, 900}},
}

func typeName(id uint32) string {
	switch id {
	case idPing:
		return "ping"
	case idPingDelayDisconnect:
		return "ping_delay_disconnect"
	case idMsgsAck:
		return "msgs_ack"
	case idGetFutureSalts:
		return "get_future_salts"
	case idHarnessRequest:
		return "invoke"
	}
	return fmt.Sprintf("%#x", id)
}

// c08Wire: concurrent Invoke / Ping / ack / salt traffic of a real Conn; the
// frames captured at the fake transport are decrypted by the reference model
// and the msg_id / seq_no rules are replayed on them.
func c08Wire(c *mon.Ctx) {
	runs := c.N(50, 1000)
	for ri := 0; ri < runs; ri++ {
		wireRun(c, ri)
	}
}

func wireRun(c *mon.Ctx, ri int) {
	r := c.RandN("c08-wire", ri)
	wc := wireClocks[ri%len(wireClocks)]
	ackBatch := 1 + r.IntN(4)
	// two runs out of three use a slow (yielding) id source: same generator, wider
	// windows between drawing an id and numbering / writing the message
	yields := []int{0, 1, 3}[ri/len(wireClocks)%3]
	if ri < len(wireClocks) {
		yields = []int{0, 1, 3}[ri%3]
	}
	e := newConnEnvClock(c, r, connOpts{ackBatch: ackBatch, yieldIDs: yields}, func(t *neo.Time) clock.Clock {
		return &steppingClock{t: t, steps: wc.steps}
	})
	goroutines := 2 + r.IntN(6)
	perG := 8 + r.IntN(10)
	updates := 20 + r.IntN(30)
	type opPlan struct{ invoke bool }
	plans := make([][]opPlan, goroutines)
	for g := range plans {
		for k := 0; k < perG; k++ {
			plans[g] = append(plans[g], opPlan{invoke: r.IntN(3) != 0})
		}
	}
	startNano := e.clk.Now().UnixNano()
	dupSeen := make(chan struct{})
	var dupOnce sync.Once
	var idMu sync.Mutex
	wireIDs := map[int64][]byte{}
	respond := func(cf clientFrame) {
		idMu.Lock()
		prev, dup := wireIDs[cf.MsgID]
		if !dup {
			wireIDs[cf.MsgID] = cf.Payload
		}
		idMu.Unlock()
		if dup && !bytes.Equal(prev, cf.Payload) {
			// two different messages under one id: callers may hang (the rpc engine
			// keys requests by id) — end the run, the verdict is taken from the capture
			dupOnce.Do(func() { close(dupSeen) })
		}
		switch cf.TypeID {
		case idPing, idPingDelayDisconnect:
			p := pongPayload(cf.MsgID, int64(binary.LittleEndian.Uint64(cf.Payload[4:])))
			e.push(e.frame(e.header(e.freshID(1), 0, len(p)), p, -1))
		case idHarnessRequest:
			p := rpcResultPayload(cf.MsgID, int64(binary.LittleEndian.Uint64(cf.Payload[4:])))
			e.push(e.frame(e.header(e.freshID(1), 1, len(p)), p, -1))
		}
	}
	var opsDone, opsFailed, invokesStarted atomic.Int64
	ok := e.run(respond, func(ctx context.Context, _ int64) {
		// new_session_created starts the salt loop (one more service message source)
		p := newSessionPayload(0, int64(r.Uint64()), e.salt)
		e.push(e.frame(e.header(e.freshID(3), 1, len(p)), p, -1))
		var wg sync.WaitGroup
		for g := 0; g < goroutines; g++ {
			wg.Add(1)
			go func(g int) {
				defer wg.Done()
				for k, op := range plans[g] {
					var err error
					if op.invoke {
						var res harnessResult
						tag := int64(g)<<32 | int64(k)
						invokesStarted.Add(1)
						err = e.conn.Invoke(ctx, harnessRequest{tag: tag}, &res)
						if err == nil && res.tag != tag {
							c.Add("wire_result_tag_mismatch", 1)
						}
					} else {
						err = e.conn.Ping(ctx)
					}
					if err != nil {
						opsFailed.Add(1)
						return
					}
					opsDone.Add(1)
				}
			}(g)
		}
		// server-originated updates: content-related, so the client's ack loop writes msgs_ack
		wg.Add(1)
		go func() {
			defer wg.Done()
			for i := 0; i < updates && ctx.Err() == nil; i++ {
				pl := markerPayload(int32(i+1), 0)
				e.push(e.frame(e.header(e.freshID(3), int32(2*i+1), len(pl)), pl, -1))
				if i%4 == 0 {
					// let the client work between updates (pacing only)
					e.srv.seen.wait(e.srv.seen.get()+1, 5*time.Millisecond)
				}
			}
		}()
		allDone := make(chan struct{})
		go func() { wg.Wait(); close(allDone) }()
		select {
		case <-allDone:
		case <-dupSeen:
		case <-time.After(paceWatchdog):
			c.Inconclusive(fmt.Sprintf("wire run %d: operations did not complete within the watchdog", ri))
		}
	})
	if !ok {
		return
	}
	frames := e.srv.snapshot()
	endNano := e.clk.Now().UnixNano()
	c.Eval(len(frames))
	c.Add("wire_frames", int64(len(frames)))
	c.Add("wire_ops_completed", opsDone.Load())
	wit := func(extra map[string]any) map[string]any {
		w := map[string]any{"level": "wire (frames written by a real mtproto.Conn)", "run": ri, "clock": wc.name, "goroutines": goroutines, "frames": len(frames), "ack_batch": ackBatch, "id_source_yields": yields}
		for k, v := range extra {
			w[k] = v
		}
		return w
	}
	desc := func(f clientFrame) map[string]any {
		return map[string]any{"msg_id": f.MsgID, "seq_no": f.SeqNo, "type": typeName(f.TypeID), "payload_len": len(f.Payload)}
	}
	byID := map[int64]clientFrame{}
	var uniq []clientFrame
	dupIDs := false
	for _, f := range frames {
		if f.Session != e.session {
			c.Violate("wire|foreign-session-id", wit(map[string]any{"frame": desc(f)}))
		}
		if f.MsgID%4 != 0 {
			c.Violate("wire|msg-id-not-client-typed", wit(map[string]any{"frame": desc(f)}))
		}
		if n := idNano(f.MsgID); n < floor4(startNano) || n > endNano+16*int64(len(frames))+2000 {
			c.Violate("wire|msg-id-far-from-clock", wit(map[string]any{"frame": desc(f), "clock_start_ns": startNano, "clock_end_ns": endNano}))
		}
		if p, dup := byID[f.MsgID]; dup {
			if p.SeqNo == f.SeqNo && bytes.Equal(p.Payload, f.Payload) {
				c.Add("wire_retransmissions", 1)
				continue
			}
			c.Violate("wire|duplicate-msg-id", wit(map[string]any{"first": desc(p), "second": desc(f)}))
			dupIDs = true
			continue
		}
		byID[f.MsgID] = f
		uniq = append(uniq, f)
	}
	capturedInvokes := int64(0)
	for _, f := range uniq {
		if f.TypeID == idHarnessRequest {
			capturedInvokes++
		}
	}
	if dupIDs || capturedInvokes != invokesStarted.Load() || opsFailed.Load() > 0 {
		// "content messages with a smaller msg_id" is not well defined when two
		// different messages share an id, and not observable when a content id
		// was generated but its frame never reached the transport (cancelled
		// run): the seq_no rule is not replayed on such a run.
		c.Add("wire_runs_seq_rule_skipped", 1)
		return
	}
	c.Add("wire_runs_seq_rule_replayed", 1)
	sort.Slice(uniq, func(i, j int) bool { return uniq[i].MsgID < uniq[j].MsgID })
	content := int32(0)
	for i, f := range uniq {
		isContent := f.SeqNo&1 == 1
		want := 2 * content
		if isContent {
			want++
		}
		if f.SeqNo != want {
			var before []map[string]any
			for j := max(0, i-3); j < i; j++ {
				before = append(before, desc(uniq[j]))
			}
			c.Violate("wire|seq-no-mismatch", wit(map[string]any{"frame": desc(f), "content_messages_with_smaller_id": content, "expected_seq_no": want, "previous_by_id": before}))
		}
		switch f.TypeID {
		case idHarnessRequest:
			if !isContent {
				c.Violate("wire|content-message-even-seq", wit(map[string]any{"frame": desc(f)}))
			}
		case idPing, idPingDelayDisconnect, idMsgsAck, idGetFutureSalts:
			if isContent {
				c.Violate("wire|service-message-odd-seq", wit(map[string]any{"frame": desc(f)}))
			}
		}
		if isContent {
			content++
		}
		if i > 0 {
			c.Distinct(fmt.Sprintf("wire/%s/%s>%s", wc.name, typeName(uniq[i-1].TypeID), typeName(f.TypeID)))
		}
	}
	if ri < 2 && len(uniq) > 2 {
		c.Sample("wire-frames", map[string]any{"run": ri, "clock": wc.name, "first_by_id": []any{desc(uniq[0]), desc(uniq[1]), desc(uniq[2])}})
	}
}
