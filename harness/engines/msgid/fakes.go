package main

import (
	"context"
	"encoding/binary"
	"io"
	"math/rand/v2"
	"strings"
	"sync"
	"time"

	"github.com/gotd/log"

	"github.com/gotd/td/bin"
	"github.com/gotd/td/crypto"
	"github.com/gotd/td/mtproto"

	"verif/harness/refmodel"
)

// TL constructor ids used by the harness-played server (hand-written, the
// harness never calls gotd/td encoders for server frames).
const (
	idUpdateShort         = 0x78d4dec1
	idUpdateConfig        = 0xa229dd06
	idPing                = 0x7abe77ec
	idPingDelayDisconnect = 0xf3427b8c
	idPong                = 0x347773c5
	idMsgsAck             = 0x62d6b459
	idVector              = 0x1cb5c415
	idRPCResult           = 0xf35c6d01
	idNewSessionCreated   = 0x9ec20908
	idGetFutureSalts      = 0xb921bd04
	idFutureSalts         = 0xae500895
	idHarnessRequest      = 0x5eed0001 // opaque content request sent through Conn.Invoke
	idHarnessResult       = 0x5eed0002
)

// seededReader is an io.Reader over a seeded PCG stream (Options.Random).
type seededReader struct {
	mu sync.Mutex
	r  *rand.Rand
}

func (s *seededReader) Read(p []byte) (int, error) {
	s.mu.Lock()
	defer s.mu.Unlock()
	for i := range p {
		p[i] = byte(s.r.Uint32())
	}
	return len(p), nil
}

func randBytes(r *rand.Rand, n int) []byte {
	b := make([]byte, n)
	for i := range b {
		b[i] = byte(r.Uint32())
	}
	return b
}

func randKey(r *rand.Rand) crypto.AuthKey {
	var k crypto.Key
	copy(k[:], randBytes(r, 256))
	return k.WithID()
}

// notifier: a counter with wait-until-at-least semantics (pacing only).
type notifier struct {
	mu sync.Mutex
	n  int
	ch chan struct{}
}

func newNotifier() *notifier { return &notifier{ch: make(chan struct{})} }

func (n *notifier) inc() {
	n.mu.Lock()
	n.n++
	close(n.ch)
	n.ch = make(chan struct{})
	n.mu.Unlock()
}

func (n *notifier) get() int {
	n.mu.Lock()
	defer n.mu.Unlock()
	return n.n
}

// wait blocks until the counter is ≥ want; false when the watchdog fires.
func (n *notifier) wait(want int, watchdog time.Duration) bool {
	deadline := time.NewTimer(watchdog)
	defer deadline.Stop()
	for {
		n.mu.Lock()
		if n.n >= want {
			n.mu.Unlock()
			return true
		}
		ch := n.ch
		n.mu.Unlock()
		select {
		case <-ch:
		case <-deadline.C:
			return false
		}
	}
}

// fakeConn is the harness-owned transport.Conn. Frames sent by the client are
// handed to onSend (call event at the boundary); frames for the client are
// queued in `in` by the harness.
type fakeConn struct {
	in        chan []byte
	closed    chan struct{}
	closeOnce sync.Once
	onSend    func(frame []byte) error
	recvd     *notifier // frames handed to the read loop
}

func newFakeConn(onSend func([]byte) error) *fakeConn {
	return &fakeConn{in: make(chan []byte, 4096), closed: make(chan struct{}), onSend: onSend, recvd: newNotifier()}
}

func (f *fakeConn) Send(ctx context.Context, b *bin.Buffer) error {
	select {
	case <-f.closed:
		return io.ErrClosedPipe
	default:
	}
	if err := ctx.Err(); err != nil {
		return err
	}
	return f.onSend(append([]byte(nil), b.Buf...))
}

func (f *fakeConn) Recv(ctx context.Context, b *bin.Buffer) error {
	select {
	case frame := <-f.in:
		b.Buf = append(b.Buf[:0], frame...)
		f.recvd.inc()
		return nil
	case <-ctx.Done():
		return ctx.Err()
	case <-f.closed:
		return io.EOF
	}
}

func (f *fakeConn) Close() error {
	f.closeOnce.Do(func() { close(f.closed) })
	return nil
}

// recHandler is the harness-owned mtproto.Handler: records every message that
// reaches OnMessage (marker = the `date` of the hand-written updateShort).
type recHandler struct {
	mu      sync.Mutex
	markers map[int32]int // marker -> number of OnMessage calls
	other   int           // messages that are not marker updates
	events  *notifier
}

func newRecHandler(ev *notifier) *recHandler {
	return &recHandler{markers: map[int32]int{}, events: ev}
}

func (h *recHandler) OnMessage(b *bin.Buffer) error {
	buf := b.Buf
	h.mu.Lock()
	if len(buf) >= 12 && binary.LittleEndian.Uint32(buf) == idUpdateShort && binary.LittleEndian.Uint32(buf[4:]) == idUpdateConfig {
		h.markers[int32(binary.LittleEndian.Uint32(buf[8:]))]++
	} else {
		h.other++
	}
	h.mu.Unlock()
	h.events.inc()
	return nil
}

func (h *recHandler) OnSession(mtproto.Session) error { return nil }

func (h *recHandler) seen(marker int32) int {
	h.mu.Lock()
	defer h.mu.Unlock()
	return h.markers[marker]
}

// recLogger is the harness-owned log.Logger. It is used for pacing only: the
// two records that end the life of a dropped frame ("Ignoring rejected
// message", "Failed to process message") bump the shared terminal-event
// counter. Verdicts never depend on log records.
type recLogger struct {
	mu       sync.Mutex
	rejected int
	failed   int
	lastErr  string
	events   *notifier
}

func (l *recLogger) Enabled(_ context.Context, level log.Level) bool { return level >= log.LevelWarn }

func (l *recLogger) Log(_ context.Context, level log.Level, msg string, attrs ...log.Attr) {
	if level < log.LevelWarn {
		return
	}
	switch msg {
	case "Ignoring rejected message", "Failed to process message":
	default:
		return
	}
	var es string
	for _, a := range attrs {
		if a.Value.Kind() == log.KindError {
			es = a.Value.String()
		}
	}
	l.mu.Lock()
	if strings.HasPrefix(msg, "Ignoring") {
		l.rejected++
	} else {
		l.failed++
	}
	l.lastErr = es
	l.mu.Unlock()
	l.events.inc()
}

func (l *recLogger) last() string {
	l.mu.Lock()
	defer l.mu.Unlock()
	return l.lastErr
}

// serverID builds a message id the way the specification describes it for the
// time reading sec + frac ns: (unixtime << 32) | fractional part, the two low
// bits replaced by the type (1 response, 3 server-originated, 0 client, 2 invalid).
func serverID(sec int64, fracNs int64, typ int64) int64 {
	return sec<<32 | (fracNs &^ 3) | typ
}

// markerPayload is a hand-written updateShort{update: updateConfig, date: marker}
// followed by `filler` zero bytes (the handler only reads the first 12 bytes).
func markerPayload(marker int32, filler int) []byte {
	b := make([]byte, 12+filler)
	binary.LittleEndian.PutUint32(b[0:], idUpdateShort)
	binary.LittleEndian.PutUint32(b[4:], idUpdateConfig)
	binary.LittleEndian.PutUint32(b[8:], uint32(marker))
	return b
}

// fillerFor returns the number of filler bytes that makes
// 32 (header) + 12 + filler + padding a multiple of 16.
func fillerFor(padding int) int {
	return ((4-padding)%16 + 16) % 16
}

func pongPayload(reqMsgID, pingID int64) []byte {
	b := make([]byte, 20)
	binary.LittleEndian.PutUint32(b[0:], idPong)
	binary.LittleEndian.PutUint64(b[4:], uint64(reqMsgID))
	binary.LittleEndian.PutUint64(b[12:], uint64(pingID))
	return b
}

func rpcResultPayload(reqMsgID int64, tag int64) []byte {
	b := make([]byte, 24)
	binary.LittleEndian.PutUint32(b[0:], idRPCResult)
	binary.LittleEndian.PutUint64(b[4:], uint64(reqMsgID))
	binary.LittleEndian.PutUint32(b[12:], idHarnessResult)
	binary.LittleEndian.PutUint64(b[16:], uint64(tag))
	return b
}

func newSessionPayload(firstMsgID, uniqueID, salt int64) []byte {
	b := make([]byte, 28)
	binary.LittleEndian.PutUint32(b[0:], idNewSessionCreated)
	binary.LittleEndian.PutUint64(b[4:], uint64(firstMsgID))
	binary.LittleEndian.PutUint64(b[12:], uint64(uniqueID))
	binary.LittleEndian.PutUint64(b[20:], uint64(salt))
	return b
}

// serverFrame encrypts payload as the server would, with exactly `padding`
// random bytes of padding (caller guarantees the 16-byte alignment).
func serverFrame(r *rand.Rand, key crypto.AuthKey, h refmodel.Header, payload []byte, padding int) []byte {
	return refmodel.Encrypt(key.Value[:], h, payload, randBytes(r, padding), true)
}

// alignedPadding returns a padding length in 12..1024 that aligns a payload of
// n bytes (n%4 == 0) to 16 bytes.
func alignedPadding(r *rand.Rand, n int) int {
	base := ((16-(32+n)%16)%16 + 16) % 16 // 0,4,8,12
	for base < 12 {
		base += 16
	}
	return base + 16*r.IntN(3)
}

// harnessRequest is the opaque content request sent through Conn.Invoke.
type harnessRequest struct{ tag int64 }

func (q harnessRequest) Encode(b *bin.Buffer) error {
	b.PutID(idHarnessRequest)
	b.PutLong(q.tag)
	return nil
}

type harnessResult struct{ tag int64 }

func (q *harnessResult) Decode(b *bin.Buffer) error {
	if err := b.ConsumeID(idHarnessResult); err != nil {
		return err
	}
	v, err := b.Long()
	q.tag = v
	return err
}
