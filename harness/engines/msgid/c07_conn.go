package main

import (
	"context"
	"fmt"
	"math/rand/v2"
	"time"

	"verif/harness/mon"
	"verif/harness/refmodel"
)

// frameSpec describes one frame the harness-played server injects.
type frameSpec struct {
	Class      string `json:"class"`
	ID         int64  `json:"msg_id"`
	Seq        int32  `json:"seq_no"`
	Session    int64  `json:"-"`
	SessionSet bool   `json:"wrong_session"`
	KeyVariant string `json:"key_variant,omitempty"`
	Padding    int    `json:"padding"` // -1: valid aligned padding chosen by the harness
	Static     string `json:"static_reason,omitempty"`
}

type frameRec struct {
	spec    frameSpec
	marker  int32
	pred    verdict
	reason  string
	interim bool
	burst   bool
}

// c07conn: one connection-level scenario run.
type c07conn struct {
	*connEnv
	ctx      context.Context
	scenario string
	index    int
	win      *window
	recs     []*frameRec
	awaited  int
	dead     bool
	marker   int32
}

// timeClass classifies the creation time of id against now: "" (inside the
// window under every reading of the low 32 bits), "too-old", "too-new", or
// "edge" (not asserted either way).
func timeClass(id int64, now time.Time) string {
	sec := id >> 32
	lower, upper := time.Unix(sec, 0), time.Unix(sec+1, 0)
	switch {
	case now.Sub(upper) > 300*time.Second:
		return "too-old"
	case lower.Sub(now) > 30*time.Second:
		return "too-new"
	case now.Sub(lower) <= 300*time.Second && upper.Sub(now) <= 30*time.Second:
		return ""
	}
	return "edge"
}

func (s *c07conn) valid(class string) frameSpec {
	seq := int32(2 * s.r.IntN(50))
	if s.r.IntN(4) != 0 {
		seq++ // content-related: the client must acknowledge it
	}
	return frameSpec{Class: class, ID: s.freshID(int64(1 + 2*s.r.IntN(2))), Seq: seq, Padding: -1}
}

func (s *c07conn) withID(class string, id int64) frameSpec {
	return frameSpec{Class: class, ID: id, Seq: 1, Padding: -1}
}

func (s *c07conn) build(spec frameSpec) ([]byte, int32) {
	s.marker++
	marker := s.marker
	var payload []byte
	padding := spec.Padding
	if padding < 0 {
		payload = markerPayload(marker, 4*s.r.IntN(6))
	} else {
		payload = markerPayload(marker, fillerFor(padding)+16*s.r.IntN(2))
	}
	h := s.header(spec.ID, spec.Seq, len(payload))
	if spec.SessionSet {
		h.Session = spec.Session
	}
	switch spec.KeyVariant {
	case "":
		return s.frame(h, payload, padding), marker
	case "client-side":
		s.rmu.Lock()
		defer s.rmu.Unlock()
		return refmodel.Encrypt(s.key.Value[:], h, payload, randBytes(s.sr, alignedPadding(s.sr, len(payload))), false), marker
	case "tampered":
		w := s.frame(h, payload, padding)
		w[8+s.r.IntN(len(w)-8)] ^= 1 << s.r.IntN(8)
		return w, marker
	default: // foreign-key, foreign-key-forged-id
		s.rmu.Lock()
		defer s.rmu.Unlock()
		k2 := randKey(s.sr)
		w := refmodel.Encrypt(k2.Value[:], h, payload, randBytes(s.sr, alignedPadding(s.sr, len(payload))), true)
		if spec.KeyVariant == "foreign-key-forged-id" {
			copy(w[:8], s.key.ID[:])
		}
		return w, marker
	}
}

func (s *c07conn) predict(spec frameSpec) (verdict, string) {
	if spec.Static == "edge" {
		return unspecified, "edge"
	}
	if spec.Static != "" {
		return mustDrop, spec.Static
	}
	switch tc := timeClass(spec.ID, s.clk.Now()); tc {
	case "":
	case "edge":
		return unspecified, "edge"
	default:
		return mustDrop, tc
	}
	switch spec.ID & 3 {
	case 0:
		return mustDrop, "client-typed-id"
	case 2:
		return mustDrop, "invalid-type-bits"
	}
	return s.win.predict(spec.ID)
}

func (s *c07conn) witness(rec *frameRec, accepted bool) map[string]any {
	var prev []map[string]any
	for i := max(0, len(s.recs)-7); i < len(s.recs); i++ {
		p := s.recs[i]
		prev = append(prev, map[string]any{"msg_id": p.spec.ID, "class": p.spec.Class, "model": p.pred.String(), "reason": p.reason, "reached_handler": p.interim})
	}
	now := s.clk.Now()
	return map[string]any{
		"level": "connection (real mtproto.Conn on fake transport)", "scenario": s.scenario, "connection_index": s.index,
		"frame": rec.spec, "frame_index": len(s.recs), "model": rec.pred.String(), "reason": rec.reason,
		"reached_handler": accepted, "client_clock_unix": now.Unix(), "msg_id_unix": rec.spec.ID >> 32, "msg_id_low32": rec.spec.ID & 0xffffffff,
		"preceding_frames": prev, "window_model": s.win.snapshot(), "last_client_reject_reason": s.lg.last(),
	}
}

func (s *c07conn) judge(rec *frameRec, accepted bool) {
	s.c.Eval(1)
	switch {
	case rec.pred == mustDrop && accepted:
		s.c.Violate("accepted|"+rec.reason, s.witness(rec, accepted))
		s.c.Add("conn_level_violations/accepted|"+rec.reason, 1)
	case rec.pred == mustAccept && !accepted:
		s.c.Violate("dropped|"+rec.reason, s.witness(rec, accepted))
		s.c.Add("conn_level_violations/dropped|"+rec.reason, 1)
	}
	if rec.pred == unspecified {
		s.c.Add("conn_frames_unasserted", 1)
	} else {
		s.c.Distinct(fmt.Sprintf("conn/%s/%s/%s", s.scenario, rec.spec.Class, rec.reason))
	}
}

// await waits for n more terminal events (handler call or drop record).
func (s *c07conn) await(n int, what string) bool {
	s.awaited += n
	if !s.ev.wait(s.awaited, paceWatchdog) {
		s.c.Inconclusive(fmt.Sprintf("no terminal event for injected frame (%s/%s) within watchdog", s.scenario, what))
		s.dead = true
		return false
	}
	s.lg.mu.Lock()
	failed := s.lg.failed
	s.lg.mu.Unlock()
	if failed > 0 {
		s.dead = true // the read loop halts after a decrypt failure
	}
	return true
}

// inject sends one frame and waits until the client has finished with it.
func (s *c07conn) inject(spec frameSpec) bool {
	if s.dead || s.ctx.Err() != nil {
		return false
	}
	wire, marker := s.build(spec)
	pred, reason := s.predict(spec)
	rec := &frameRec{spec: spec, marker: marker, pred: pred, reason: reason}
	if !s.push(wire) {
		s.dead = true
		return false
	}
	if !s.await(1, spec.Class) {
		return false
	}
	accepted := s.h.seen(marker) > 0
	rec.interim = accepted
	s.judge(rec, accepted)
	s.recs = append(s.recs, rec)
	if accepted {
		s.win.add(spec.ID)
	}
	return accepted
}

// burst sends frames back-to-back (their goroutines race inside the client).
// sameID: all frames carry one fresh id — at most one may be accepted, and one must be.
// otherwise: distinct fresh ids while the window has room — all must be accepted.
func (s *c07conn) burst(specs []frameSpec, sameID bool) {
	if s.dead || s.ctx.Err() != nil {
		return
	}
	var recs []*frameRec
	var wires [][]byte
	for _, spec := range specs {
		wire, marker := s.build(spec)
		pred, reason := s.predict(spec)
		recs = append(recs, &frameRec{spec: spec, marker: marker, pred: pred, reason: reason, burst: true})
		wires = append(wires, wire)
	}
	for _, w := range wires {
		if !s.push(w) {
			s.dead = true
			return
		}
	}
	if !s.await(len(wires), "burst") {
		return
	}
	acc := 0
	for _, rec := range recs {
		rec.interim = s.h.seen(rec.marker) > 0
		if rec.interim {
			acc++
		}
	}
	if sameID {
		s.c.Eval(len(recs))
		first := recs[0]
		switch {
		case acc > 1 && first.pred == mustAccept:
			first.reason = "replay-concurrent"
			w := s.witness(first, true)
			w["copies_sent"], w["copies_reaching_handler"] = len(recs), acc
			s.c.Violate("accepted|replay-concurrent", w)
		case acc == 0 && first.pred == mustAccept:
			s.c.Violate("dropped|"+first.reason, s.witness(first, false))
		default:
			s.c.Distinct(fmt.Sprintf("conn/%s/concurrent-copies-%d", s.scenario, len(recs)))
		}
	} else {
		for _, rec := range recs {
			s.judge(rec, rec.interim)
		}
	}
	for _, rec := range recs {
		s.recs = append(s.recs, rec)
		if rec.interim {
			s.win.add(rec.spec.ID)
		}
	}
}

// below returns an unused id below the model's minimum (same second).
func (s *c07conn) below() (int64, bool) {
	if len(s.win.top) == 0 {
		return 0, false
	}
	s.rmu.Lock()
	defer s.rmu.Unlock()
	for try := 0; try < 20; try++ {
		id := s.win.top[0] - int64(4*(1+s.r.IntN(2000)))
		if id>>32 == s.win.top[0]>>32 && !s.used[id] {
			s.used[id] = true
			return id, true
		}
	}
	return 0, false
}

// gap returns an unused id strictly between two stored ids.
func (s *c07conn) gap() (int64, bool) {
	if len(s.win.top) < 2 {
		return 0, false
	}
	s.rmu.Lock()
	defer s.rmu.Unlock()
	for try := 0; try < 20; try++ {
		id := s.win.top[s.r.IntN(len(s.win.top)-1)] + 4
		if !s.used[id] {
			s.used[id] = true
			return id, true
		}
	}
	return 0, false
}

func (s *c07conn) scenarioBody(r *rand.Rand, name string, param int) {
	switch name {
	case "aba":
		a, b := s.valid("fresh"), s.valid("fresh")
		s.inject(a)
		s.inject(b)
		s.inject(s.withID("replay-older", a.ID))
		c := s.valid("fresh")
		s.inject(c)
		s.inject(s.withID("replay-older", b.ID))
		s.inject(s.withID("replay-older", a.ID))
		s.inject(s.withID("replay-newest", c.ID))
		var sent []int64
		sent = append(sent, a.ID, b.ID, c.ID)
		for i := 0; i < 10+r.IntN(30); i++ {
			if r.IntN(2) == 0 {
				v := s.valid("fresh")
				s.inject(v)
				sent = append(sent, v.ID)
			} else {
				s.inject(s.withID("replay-older", sent[r.IntN(len(sent))]))
			}
		}
	case "fill-replay":
		for i := 0; i < 99+r.IntN(4); i++ {
			s.inject(s.valid("fill"))
		}
		var evicted []int64
		for i := 0; i < 45 && !s.dead; i++ {
			top := s.win.top
			if len(top) == 0 {
				break
			}
			switch r.IntN(7) {
			case 0:
				s.inject(s.withID("replay-oldest-stored", top[0]))
			case 1:
				s.inject(s.withID("replay-middle-stored", top[len(top)/2]))
			case 2:
				s.inject(s.withID("replay-newest-stored", top[len(top)-1]))
			case 3:
				if id, ok := s.below(); ok {
					s.inject(s.withID("below-minimum", id))
				}
			case 4:
				if id, ok := s.gap(); ok {
					low := top[0]
					if s.inject(s.withID("fresh-in-gap", id)) {
						evicted = append(evicted, low)
					}
				}
			case 5:
				if len(evicted) > 0 {
					s.inject(s.withID("replay-evicted", evicted[r.IntN(len(evicted))]))
				}
			default:
				low := top[0]
				if s.inject(s.valid("fresh")) {
					evicted = append(evicted, low)
				}
			}
		}
	case "time-window":
		offs := []int64{0, -1, -30, -120, -298, -299, -300, -301, -302, -303, -400, -600, -3000, -86400, -315360000,
			1, 10, 28, 29, 30, 31, 32, 33, 60, 3600, 86400, 31536000}
		r.Shuffle(len(offs), func(i, j int) { offs[i], offs[j] = offs[j], offs[i] })
		for round := 0; round < 3 && !s.dead; round++ {
			for _, off := range offs {
				sec := s.nowSec() + off
				id := serverID(sec, int64(r.IntN(500_000_000)), int64(1+2*r.IntN(2)))
				s.rmu.Lock()
				dup := s.used[id]
				s.used[id] = true
				s.rmu.Unlock()
				if dup || len(s.recs) > 88 {
					continue
				}
				s.inject(s.withID(fmt.Sprintf("time%+d", off), id))
			}
			// the connection clock moves: what was fresh becomes old
			s.clk.Travel(time.Duration(40+r.IntN(400)) * time.Second)
			if round == 1 && len(s.recs) > 0 {
				// an id accepted earlier whose creation time has left the window since
				old := s.recs[r.IntN(len(s.recs))]
				s.inject(s.withID("replay-after-clock-moved", old.spec.ID))
			}
		}
	case "types":
		for i := 0; i < 24; i++ {
			typ := int64(i % 4)
			s.inject(frameSpec{Class: fmt.Sprintf("type-bits-%d", typ), ID: s.freshID(typ), Seq: int32(i%2*2 + 1), Padding: -1})
		}
	case "session":
		for i := 0; i < 20; i++ {
			v := s.valid("fresh")
			if i%2 == 1 {
				v.Class, v.SessionSet, v.Static = "wrong-session", true, "wrong-session"
				v.Session = []int64{s.session ^ 1, 0, int64(r.Uint64()), -s.session, s.session ^ (-1 << 63), s.session + 1<<32}[r.IntN(6)]
				if v.Session == s.session {
					continue
				}
			}
			s.inject(v)
		}
	case "padding-valid":
		ps := []int{12, 16, 20, 1016, 1020, 1024}
		for i := 0; i < 50; i++ {
			ps = append(ps, 12+4*r.IntN(254))
		}
		for _, p := range ps {
			v := s.valid("padding-valid")
			v.Padding = p
			s.inject(v)
		}
	case "padding-bad":
		s.inject(s.valid("fresh"))
		s.inject(s.valid("fresh"))
		v := s.valid("padding")
		v.Padding = param
		switch {
		case param%4 != 0:
			v.Class, v.Static = "len-mod4", "len-mod4"
		case param < 12:
			v.Class, v.Static = "padding-short", "padding-short"
		case param > 1024:
			v.Class, v.Static = "padding-long", "padding-long"
		}
		s.inject(v)
	case "bad-key":
		s.inject(s.valid("fresh"))
		v := s.valid("bad-key")
		v.KeyVariant = []string{"foreign-key", "foreign-key-forged-id", "client-side", "tampered"}[param%4]
		v.Class, v.Static = v.KeyVariant, "not-under-session-key"
		s.inject(v)
	case "dup-burst":
		for i := 0; i < 12 && !s.dead; i++ {
			id := s.freshID(1)
			var specs []frameSpec
			for k := 0; k < 2+r.IntN(5); k++ {
				specs = append(specs, s.withID("concurrent-copies", id))
			}
			s.burst(specs, true)
			s.inject(s.withID("replay-newest", id))
		}
	case "fresh-burst":
		room := s.win.n - len(s.win.top) - 2
		for room > 4 && !s.dead {
			b := min(room, 8+r.IntN(40))
			var specs []frameSpec
			for k := 0; k < b; k++ {
				specs = append(specs, s.valid("burst-fresh"))
			}
			// shuffled: arrival order differs from id order
			r.Shuffle(len(specs), func(i, j int) { specs[i], specs[j] = specs[j], specs[i] })
			s.burst(specs, false)
			room -= b
		}
	default: // random-mix
		var accepted []int64
		for i := 0; i < 150 && !s.dead; i++ {
			var ok bool
			var spec frameSpec
			switch x := r.IntN(20); {
			case x < 8:
				spec = s.valid("fresh")
			case x < 12 && len(s.win.top) > 0:
				spec = s.withID("replay-stored", s.win.top[r.IntN(len(s.win.top))])
			case x < 14 && len(accepted) > 0:
				spec = s.withID("replay-any-accepted", accepted[r.IntN(len(accepted))])
			case x < 16:
				var id int64
				if id, ok = s.below(); !ok {
					continue
				}
				spec = s.withID("below-minimum", id)
			case x < 18:
				var id int64
				if id, ok = s.gap(); !ok {
					continue
				}
				spec = s.withID("fresh-in-gap", id)
			case x < 19:
				spec = s.valid("wrong-session")
				spec.SessionSet, spec.Session, spec.Static = true, s.session+1+int64(r.IntN(1000)), "wrong-session"
			default:
				spec = s.withID("too-old", serverID(s.nowSec()-int64(302+r.IntN(5000)), int64(r.IntN(500_000_000)), 1))
			}
			if s.inject(spec) {
				accepted = append(accepted, spec.ID)
			}
			if r.IntN(40) == 0 {
				s.clk.Travel(time.Duration(1+r.IntN(3)) * time.Second)
			}
		}
	}
}

// runScenario runs one scenario on a fresh connection and does the end-of-run checks.
func runScenario(c *mon.Ctx, index int, name string, param int) {
	r := c.RandN("c07-conn", index)
	e := newConnEnv(c, r, connOpts{ackBatch: 1})
	e.lastFrac = int64(100_000 + 4*r.IntN(10_000))
	s := &c07conn{connEnv: e, scenario: name, index: index, win: newWindow(100), marker: int32(index) << 12}
	ok := e.run(nil, func(ctx context.Context, pongID int64) {
		s.ctx = ctx
		s.win.add(pongID) // accepted: Ping returned
		s.scenarioBody(r, name, param)
	})
	if !ok {
		return
	}
	// Quiescent now: Conn.Run returned, every frame goroutine has finished.
	acceptedIDs := map[int64]bool{}
	oddAccepted := map[int64]bool{}
	byID := map[int64]*frameRec{}
	for _, rec := range s.recs {
		final := e.h.seen(rec.marker)
		if (final > 0) != rec.interim {
			c.Inconclusive(fmt.Sprintf("pacing mismatch in %s: frame outcome changed after its terminal event", name))
		}
		if final > 1 {
			c.Violate("handled-twice", s.witness(rec, true))
		}
		if final > 0 {
			acceptedIDs[rec.spec.ID] = true
			if rec.spec.Seq&1 == 1 {
				oddAccepted[rec.spec.ID] = true
			}
		}
		if _, dup := byID[rec.spec.ID]; !dup {
			byID[rec.spec.ID] = rec
		}
	}
	acks := ackedIDs(e.srv.snapshot())
	for id := range acks {
		switch rec := byID[id]; {
		case rec == nil:
			c.Inconclusive(fmt.Sprintf("client acknowledged an id the harness never sent: %d", id))
		case !acceptedIDs[id]:
			w := s.witness(rec, false)
			w["acked_id"] = id
			c.Violate("acked-dropped-frame|"+rec.reason, w)
		}
	}
	c.Add("conn_acks_observed", int64(len(acks)))
	c.Add("conn_frames_injected", int64(len(s.recs)))
	c.Add("conn_connections", 1)
	if index < 2 && len(s.recs) > 0 {
		c.Sample("conn-frame", map[string]any{"scenario": name, "frame": s.recs[len(s.recs)-1].spec, "model": s.recs[len(s.recs)-1].pred.String(), "reached_handler": s.recs[len(s.recs)-1].interim})
	}
}

func c07Connections(c *mon.Ctx) {
	type job struct {
		name  string
		param int
	}
	var jobs []job
	mult := c.N(1, 20)
	// every invalid padding length 0..40 and 1025..1056, one connection each
	// (a decrypt failure halts the read loop)
	for p := 0; p <= 1056; p++ {
		bad := p < 12 || p > 1024 || p%4 != 0
		if bad && (p <= 40 || p >= 1008) {
			jobs = append(jobs, job{"padding-bad", p})
		}
	}
	for m := 0; m < mult; m++ {
		add := func(name string, n int) {
			for i := 0; i < n; i++ {
				jobs = append(jobs, job{name, i})
			}
		}
		add("bad-key", 8)
		add("aba", 12)
		add("fill-replay", 25)
		add("time-window", 20)
		add("types", 8)
		add("session", 8)
		add("padding-valid", 10)
		add("dup-burst", 10)
		add("fresh-burst", 8)
		add("random-mix", 26)
		if m > 0 {
			r := c.RandN("c07-conn-pad", m)
			for i := 0; i < 30; i++ {
				p := r.IntN(1200)
				if p < 12 || p > 1024 || p%4 != 0 {
					jobs = append(jobs, job{"padding-bad", p})
				}
			}
		}
	}
	for i, j := range jobs {
		runScenario(c, i, j.name, j.param)
	}
}
