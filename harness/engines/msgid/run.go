package main

import (
	"verif/harness/mon"
)

func runC07(c *mon.Ctx) {
	c.Rule("three monitors. (1) proto.MessageIDBuf.Consume on generated id sequences (8 patterns: ascending with replays, small cycling sets, small domains, " +
		"descending, fill-then-probe, two interleaved streams, sawtooth, random 63-bit with duplicates; N in {1,2,4,100}) against a sequential window model that " +
		"asserts only what both readings of 'last N accepted ids' demand, plus concurrent Consume histories checked with porcupine against Telegram's rule. " +
		"(2) Cipher.Decrypt on hand-encrypted server frames with every padding length 0..1100 and lying length fields. (3) a real mtproto.Conn on a fake transport: " +
		"the harness plays the server (hand-rolled encryptor), injects frames carrying unique marker updates one at a time (each frame's terminal event is awaited; " +
		"bursts only where the verdict is order-independent) in scenarios aba / fill-replay / time-window / types / session / padding-valid / padding-bad (every bad " +
		"length 0..40, 1008..1056) / bad-key / dup-burst / fresh-burst / random-mix; oracle: a frame the model says must be dropped reaches Handler.OnMessage or is " +
		"acknowledged, or a frame the model says must be accepted does not reach it by the time Conn.Run has returned. distinct non-trivial = (level, scenario or " +
		"pattern, frame class, model reason) combinations that were asserted")
	c.Assume("refmodel (hand-rolled MTProto 2.0 encryptor written from the specification) produces what a server would send; crypto/aes, crypto/sha256")
	c.Assume("replay window semantics: Telegram security guidelines rule quoted in the MessageIDBuf.Consume source (lowest id is discarded) for the porcupine model; " +
		"the sequential oracles assert only the intersection with the 'most recent N' reading")
	c.Assume("creation time of a msg_id lies in [id>>32, id>>32 + 1 s); frames within 1 s of the 300 s / 30 s limits are not asserted")
	c.Assume("log records are used for pacing only (never for verdicts); end-of-connection quiescence = Conn.Run returned (read loop waits for every frame goroutine)")
	c07Sequences(c)
	c07Porcupine(c)
	c07Padding(c)
	c07Connections(c)
	if c.DistinctCount() < 2 {
		c.Inconclusive("fewer than 2 distinct non-trivial cases observed")
	}
}

func runC08(c *mon.Ctx) {
	c.Rule("three monitors. (1) proto.MessageIDGen.New driven by scripted clocks (constant steps 0..13 ns, 100 ns..15.6 ms, random 0..3 / 1..3 / 0..12 / 0..40 ns, mostly " +
		"frozen, frozen then 1..3 ns, backward jumps, mixtures, coarse truncated clocks, second-boundary crossings); every returned id is checked online: divisible by 4, " +
		"strictly greater than the previous one, encoded time monotone, not behind the clock reading and not more than one bump (16 ns) ahead of max(reading, previous id). " +
		"(2) 2..8 concurrent callers on one generator with an atomic scripted clock, porcupine (strictly increasing register) cross-checked by a pairwise real-time-order test. " +
		"(3) a real mtproto.Conn with concurrent Invoke, Ping, ack and salt traffic on a clock that advances 0..3 ns (or coarsely) per reading; frames captured at the fake " +
		"transport are decrypted by the reference model, de-duplicated by msg_id (identical retransmissions only), sorted by msg_id and the seq_no rule is replayed. " +
		"(4) send-failure arm: sequential scripts of Invoke / Ping on a real Conn whose fake transport fails selected Send calls (first transmissions, and retransmissions " +
		"provoked by withholding the answer and travelling the fake clock past RetryInterval) while the connection stays up; over every frame handed to Send, failed ones " +
		"included (read by decrypting the bytes), ids must increase in generation order and seq_no must equal 2 x content messages generated before (+1 for content). " +
		"distinct non-trivial = clock script x observed adopt/bump decision 5-grams; concurrent shape x step set; wire clock x adjacent message-type pairs in id order")
	c.Assume("the time a msg_id encodes is read the way gotd/td defines it (MessageID.Time: seconds<<32 | nanoseconds)")
	c.Assume("'close to the clock reading' = never behind the reading taken in the call and never more than one minimum-resolution bump ahead of max(reading, previous id)")
	c.Assume("refmodel decrypts client frames (specification transcription); rpc_result / pong frames are hand-written by the harness")
	c08Scripted(c)
	c08Concurrent(c)
	c08Wire(c)
	c08WireFaults(c)
	if c.DistinctCount() < 2 {
		c.Inconclusive("fewer than 2 distinct non-trivial cases observed")
	}
}
