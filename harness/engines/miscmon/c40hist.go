package main

import (
	"context"
	"fmt"
	"time"

	"github.com/gotd/td/tgerr"

	"verif/harness/mon"
)

// History arm of C40: every FloodWait call must wait on the clock given to
// THAT call (or on the system clock when no option is given), whatever clocks
// earlier or concurrent calls used.
//
// Deciding observations are logical: the harness clocks record every timer
// created on them, so "an option-less call created its timer on the fake clock
// of an earlier call" is seen at the clock boundary. Real time is used only
// (a) as the unavoidable 1 s an option-less FLOOD_WAIT_0 call sleeps on the
// system clock, (b) in the sound direction "returned although less than 1 s of
// real time passed" (a loaded machine only makes things later), (c) as
// watchdogs whose firing is inconclusive.

type c40Hist struct {
	c      *mon.Ctx
	clocks map[string]*c40Clock
	start  time.Time
	trace  []string
}

func (h *c40Hist) timerCounts() map[string]int {
	m := map[string]int{}
	for name, k := range h.clocks {
		m[name] = len(k.timerList())
	}
	return m
}

func (h *c40Hist) witness(extra map[string]any) map[string]any {
	w := map[string]any{"sequence_so_far": append([]string{}, h.trace...)}
	for k, v := range extra {
		w[k] = v
	}
	return w
}

type c40CallRet struct {
	ok  bool
	err error
	pv  any
}

func (h *c40Hist) launch(ctx context.Context, ferr error, opts ...tgerr.FloodWaitOption) chan c40CallRet {
	done := make(chan c40CallRet, 1)
	go func() {
		var r c40CallRet
		r.pv, _ = mon.Try(func() { r.ok, r.err = tgerr.FloodWait(ctx, ferr, opts...) })
		done <- r
	}()
	return done
}

// waitTimer blocks until some harness clock has one more timer than in `before`,
// the call returns, or the watchdog fires. It returns the name of the clock.
func (h *c40Hist) waitTimer(before map[string]int, done chan c40CallRet) (clock string, ret *c40CallRet, watchdog bool) {
	deadline := time.Now().Add(c40Watchdog)
	for {
		for name, n := range h.timerCounts() {
			if n > before[name] {
				return name, nil, false
			}
		}
		select {
		case r := <-done:
			return "", &r, false
		case <-time.After(time.Millisecond):
		}
		if time.Now().After(deadline) {
			return "", nil, true
		}
	}
}

// release advances the named fake clock until the call returns (used after a verdict, to not leak goroutines).
func (h *c40Hist) release(name string, done chan c40CallRet) *c40CallRet {
	for i := 0; i < 2000; i++ {
		h.clocks[name].Travel(time.Hour)
		select {
		case r := <-done:
			return &r
		case <-time.After(5 * time.Millisecond):
		}
	}
	return nil
}

// fake performs one call with FloodWaitWithClock(clocks[name]) for FLOOD_WAIT_n.
func (h *c40Hist) fake(name string, n int, kind string) {
	c := h.c
	c.Eval(1)
	h.trace = append(h.trace, fmt.Sprintf("FloodWait(%s_%d, WithClock(%s))", kind, n, name))
	clk := h.clocks[name]
	ferr := tgerr.New(420, fmt.Sprintf("%s_%d", kind, n))
	before := h.timerCounts()
	ctx, cancel := context.WithCancel(context.Background())
	defer cancel()
	done := h.launch(ctx, ferr, tgerr.FloodWaitWithClock(clk))
	on, ret, wd := h.waitTimer(before, done)
	want := time.Duration(n)*time.Second + c40Margin
	switch {
	case wd:
		// no timer on any harness clock and no return: it may sit on the system clock (a foreign clock for this call)
		cancel()
		<-done
		c.Inconclusive("c40 history: call with a fake clock created no timer on any harness clock within the watchdog (" + fmt.Sprint(h.trace) + ")")
		return
	case ret != nil:
		c.Violate("history|fake-clock-call-returned-without-waiting", h.witness(map[string]any{"returned": fmt.Sprintf("(%v, %v)", ret.ok, ret.err)}))
		return
	case on != name:
		c.Violate("history|timer-created-on-the-clock-of-another-call", h.witness(map[string]any{"expected_clock": name, "timer_on": on}))
		h.release(on, done)
		return
	}
	// own clock: must stay blocked until n s + margin of ITS fake time, other clocks are irrelevant
	for other, k := range h.clocks {
		if other != name {
			k.Travel(want + time.Hour)
		}
	}
	clk.Travel(want - time.Nanosecond)
	time.Sleep(c40Settle)
	select {
	case r := <-done:
		c.Violate("history|returned-before-n+margin-on-its-own-clock", h.witness(map[string]any{"returned": fmt.Sprintf("(%v, %v)", r.ok, r.err)}))
		return
	default:
	}
	clk.Travel(time.Nanosecond)
	select {
	case r := <-done:
		if r.pv != nil || !r.ok || r.err != ferr {
			c.Violate("history|did-not-return-true-and-the-error", h.witness(map[string]any{"returned": fmt.Sprintf("(%v, %v)", r.ok, r.err), "panic": fmt.Sprint(r.pv)}))
		}
	case <-time.After(c40Watchdog):
		c.Inconclusive("c40 history: fake-clock call did not return within the watchdog after its clock reached n+1s")
	}
}

// system performs one option-less call on FLOOD_WAIT_0: it must sleep about
// 1 s of real time on the system clock and return (true, err).
func (h *c40Hist) system(kind string) {
	c := h.c
	c.Eval(1)
	h.trace = append(h.trace, fmt.Sprintf("FloodWait(%s_0) without options", kind))
	ferr := tgerr.New(420, kind+"_0")
	before := h.timerCounts()
	ctx, cancel := context.WithCancel(context.Background())
	defer cancel()
	t0 := time.Now()
	done := h.launch(ctx, ferr)
	// advancing clocks used by earlier calls must be irrelevant for this call
	for _, k := range h.clocks {
		k.Travel(time.Hour)
	}
	on, ret, wd := h.waitTimer(before, done)
	switch {
	case wd:
		cancel()
		<-done
		c.Inconclusive("c40 history: option-less FLOOD_WAIT_0 call neither returned nor touched a harness clock within the watchdog")
	case ret != nil:
		elapsed := time.Since(t0) // upper bound of the time the call really took
		w := h.witness(map[string]any{"returned": fmt.Sprintf("(%v, %v)", ret.ok, ret.err), "real_elapsed_upper_bound": elapsed.String()})
		switch {
		case ret.pv != nil:
			w["panic"] = fmt.Sprint(ret.pv)
			c.Violate("history|optionless|panic", w)
		case elapsed < c40Margin:
			c.Violate("history|optionless-call-returned-before-1s-of-real-time", w)
		case !ret.ok || ret.err != ferr:
			c.Violate("history|optionless|did-not-return-true-and-the-error", w)
		}
	default:
		w := h.witness(map[string]any{"timer_on": on, "real_elapsed_when_seen": time.Since(t0).String()})
		r := h.release(on, done)
		if r != nil {
			w["after_travelling_that_clock"] = fmt.Sprintf("returned (%v, %v)", r.ok, r.err)
		} else {
			cancel()
			w["after_travelling_that_clock"] = "still blocked"
		}
		c.Violate("history|optionless-call-waits-on-the-fake-clock-of-an-earlier-call", w)
	}
}

// pair runs two calls with different fake clocks at the same time.
func (h *c40Hist) pair(nA, nB int) {
	c := h.c
	c.Eval(1)
	h.trace = append(h.trace, fmt.Sprintf("concurrently FloodWait(FLOOD_WAIT_%d, WithClock(A)) || FloodWait(FLOOD_PREMIUM_WAIT_%d, WithClock(B))", nA, nB))
	before := h.timerCounts()
	eA, eB := tgerr.New(420, fmt.Sprintf("FLOOD_WAIT_%d", nA)), tgerr.New(420, fmt.Sprintf("FLOOD_PREMIUM_WAIT_%d", nB))
	ctx, cancel := context.WithCancel(context.Background())
	defer cancel()
	dA := h.launch(ctx, eA, tgerr.FloodWaitWithClock(h.clocks["A"]))
	dB := h.launch(ctx, eB, tgerr.FloodWaitWithClock(h.clocks["B"]))
	deadline := time.Now().Add(c40Watchdog)
	var rA, rB *c40CallRet
	for {
		now := h.timerCounts()
		if now["A"]-before["A"]+now["B"]-before["B"] >= 2 {
			if now["A"]-before["A"] != 1 {
				c.Violate("history|concurrent-calls-shared-a-clock", h.witness(map[string]any{"new_timers_on_A": now["A"] - before["A"], "new_timers_on_B": now["B"] - before["B"]}))
			}
			break
		}
		// no fake time has passed yet: a call that is already back did not wait at all
		select {
		case r := <-dA:
			rA = &r
		case r := <-dB:
			rB = &r
		default:
		}
		if rA != nil || rB != nil {
			c.Violate("history|concurrent-call-returned-without-waiting", h.witness(map[string]any{"A_returned": rA != nil, "B_returned": rB != nil}))
			break
		}
		if time.Now().After(deadline) {
			c.Inconclusive("c40 history: concurrent pair did not create two timers within the watchdog")
			break
		}
		time.Sleep(time.Millisecond)
	}
	// let both finish
	cancelled := false
	for _, d := range []struct {
		ch  chan c40CallRet
		got *c40CallRet
	}{{dA, rA}, {dB, rB}} {
		if d.got != nil {
			continue
		}
		fin := false
		for i := 0; i < 200 && !fin; i++ {
			h.clocks["A"].Travel(time.Duration(nA+nB+2) * time.Second)
			h.clocks["B"].Travel(time.Duration(nA+nB+2) * time.Second)
			select {
			case <-d.ch:
				fin = true
			case <-time.After(5 * time.Millisecond):
			}
		}
		if !fin && !cancelled {
			// waits on neither fake clock (a verdict or an inconclusive was already recorded above): stop it
			cancel()
			cancelled = true
			select {
			case <-d.ch:
			case <-time.After(c40Watchdog):
				c.Inconclusive("c40 history: concurrent pair did not finish within the watchdog")
				return
			}
		}
	}
}

func c40HistoryArm(c *mon.Ctx) {
	r := c.Rand("c40-history")
	seqs := [][]string{
		{"sys"},                      // before any fake clock was used
		{"A", "sys"},                 // clock, then none
		{"A", "B", "sys", "A"},       // two clocks, none, first clock again
		{"sys", "B", "A", "B"},       // reverse order
		{"pair", "A", "pair", "sys"}, // concurrent calls with different clocks
	}
	extra := c.N(0, 12)
	for i := 0; i < extra; i++ {
		var s []string
		for k := 2 + r.IntN(4); k > 0; k-- {
			s = append(s, []string{"A", "B", "sys", "pair", "A", "B"}[r.IntN(6)])
		}
		seqs = append(seqs, s)
	}
	kinds := []string{tgerr.ErrFloodWait, tgerr.ErrPremiumFloodWait}
	sysCalls := 0
	// the two fake clocks live for the whole arm: whatever clock an earlier call (of any
	// sequence) left behind is one the arm watches
	start := time.Unix(1_700_000_000, 0)
	clocks := map[string]*c40Clock{"A": newC40Clock(start), "B": newC40Clock(start.Add(1000 * time.Hour))}
	for si, seq := range seqs {
		h := &c40Hist{c: c, start: start, clocks: clocks}
		for i, op := range seq {
			kind := kinds[(si+i)%2]
			switch op {
			case "sys":
				h.system(kind)
				sysCalls++
			case "pair":
				for k := 0; k < 8; k++ {
					h.pair(r.IntN(100), r.IntN(100))
				}
			default:
				h.fake(op, []int{0, 1, 30, 86400, r.IntN(100000)}[r.IntN(5)], kind)
			}
		}
		c.Distinct(fmt.Sprintf("history/%v", seq))
		if si == 2 {
			c.Sample("history", map[string]any{"sequence": h.trace})
		}
	}
	c.Set("history_sequences", len(seqs))
	c.Set("history_optionless_calls_1s_real_each", sysCalls)
}
