package main

import (
	"context"
	"errors"
	"fmt"
	"math/rand/v2"
	"sort"
	"strings"

	"github.com/gotd/td/bin"
	"github.com/gotd/td/telegram/query/dialogs"
	"github.com/gotd/td/telegram/query/messages"
	"github.com/gotd/td/tg"

	"verif/harness/mon"
)

// ---------------------------------------------------------------------------
// C39 — history and dialog iterators yield every item once, in server order,
// and stop after the last item.
//
// The real query builders and iterators run on top of tg.NewClient(fake
// invoker). The fake invoker is a paginated server over a generated history:
// it receives the real request objects, answers with the real response
// constructors (encoded and decoded through the real TL codec) and counts
// queries.
// ---------------------------------------------------------------------------

type c39Invoker func(req bin.Encoder) (bin.Encoder, error)

func (f c39Invoker) Invoke(_ context.Context, input bin.Encoder, output bin.Decoder) error {
	resp, err := f(input)
	if err != nil {
		return err
	}
	b := &bin.Buffer{}
	if err := resp.Encode(b); err != nil {
		return &c39HarnessErr{"encode response: " + err.Error()}
	}
	if err := output.Decode(b); err != nil {
		return &c39HarnessErr{"decode response: " + err.Error()}
	}
	return nil
}

// c39HarnessErr marks an error that is the fake's fault (never a verdict).
type c39HarnessErr struct{ s string }

func (e *c39HarnessErr) Error() string { return "c39 harness: " + e.s }

var errC39Bound = errors.New("c39: query bound exceeded")

type c39Msg struct {
	ID    int  `json:"id"`
	Date  int  `json:"date"`
	Empty bool `json:"empty,omitempty"`
}

// c39History generates n messages with strictly descending unique ids and
// unique dates (date order = id order), gaps of 1..3 between ids.
func c39History(r *rand.Rand, n int, withEmpty bool) []c39Msg {
	h := make([]c39Msg, n)
	id := 1 + r.IntN(5)
	date := 1_600_000_000 + r.IntN(1000)
	for i := n - 1; i >= 0; i-- {
		h[i] = c39Msg{ID: id, Date: date}
		if withEmpty && r.IntN(4) == 0 {
			h[i].Empty = true
		}
		id += 1 + r.IntN(3)
		date += 1 + r.IntN(100)
	}
	return h
}

// c39SkewDates keeps the ids strictly descending but makes the dates NOT monotone
// in the ids: random local swaps, one message with a much newer and one with a
// much older date (clock skew, imported / scheduled messages), runs of equal dates.
func c39SkewDates(r *rand.Rand, h []c39Msg) []c39Msg {
	h = append([]c39Msg{}, h...)
	n := len(h)
	if n < 2 {
		return h
	}
	for k := 0; k < 1+n/3; k++ {
		i := r.IntN(n - 1)
		j := min(n-1, i+1+r.IntN(3))
		h[i].Date, h[j].Date = h[j].Date, h[i].Date
	}
	switch r.IntN(3) {
	case 0:
		h[r.IntN(n)].Date += 100000 // much newer than its neighbours
	case 1:
		h[r.IntN(n)].Date -= 100000 // much older
	default:
		h[r.IntN(n)].Date += 100000
		h[r.IntN(n)].Date -= 100000
	}
	if r.IntN(2) == 0 {
		i := r.IntN(n - 1)
		for j := i; j < min(n, i+1+r.IntN(4)); j++ {
			h[j].Date = h[i].Date
		}
	}
	return h
}

type c39ReqLog struct {
	OffsetID   int    `json:"offset_id"`
	OffsetDate int    `json:"offset_date,omitempty"`
	OffsetRate int    `json:"offset_rate,omitempty"`
	OffsetPeer string `json:"offset_peer,omitempty"`
	AddOffset  int    `json:"add_offset,omitempty"`
	Limit      int    `json:"limit"`
	From       int    `json:"answered_from_index"`
	Returned   int    `json:"returned"`
	Kind       string `json:"response"`
}

// c39MsgServer is the fake paginated message server.
//
// Pagination semantics (https://core.telegram.org/api/offsets): the result list
// is ordered newest first; offset_id selects the first message with a smaller
// id, offset_date the first message with a smaller date, add_offset shifts the
// window start, limit bounds the window. Which of offset_id / offset_date wins
// when both are given is a server detail the client must not depend on, hence
// the variants `prec`: "id", "date", "both" (stricter of the two); for global
// search "rate" (only offset_rate = next_rate of the previous answer counts).
// With unique dates ordered like the ids, a consistent (id, date) pair selects
// the same position in every variant.
type c39MsgServer struct {
	hist     []c39Msg
	respKind string // slice | channel | full-or-slice | tail-full
	prec     string
	channel  bool
	global   bool
	cap      int // 0: the server honours any limit; > 0: limits above cap are silently truncated to cap (Telegram: 100)

	bound    int
	queries  int
	exceeded bool
	harness  string
	log      []c39ReqLog
}

func (s *c39MsgServer) position(offID, offDate, offRate int) int {
	byID := func() int {
		for i, m := range s.hist {
			if m.ID < offID {
				return i
			}
		}
		return len(s.hist)
	}
	byDate := func(d int) int {
		for i, m := range s.hist {
			if m.Date < d {
				return i
			}
		}
		return len(s.hist)
	}
	switch s.prec {
	case "id":
		if offID != 0 {
			return byID()
		}
		if offDate != 0 {
			return byDate(offDate)
		}
	case "date":
		if offDate != 0 {
			return byDate(offDate)
		}
		if offID != 0 {
			return byID()
		}
	case "both":
		p := 0
		if offID != 0 {
			p = byID()
		}
		if offDate != 0 {
			if q := byDate(offDate); q > p {
				p = q
			}
		}
		return p
	case "rate":
		// offset_rate is the primary key of global search pagination; without it
		// the server starts from the top whatever offset_id says.
		if offRate != 0 {
			return byDate(offRate)
		}
	}
	return 0
}

func (s *c39MsgServer) peer() tg.PeerClass {
	if s.channel {
		return &tg.PeerChannel{ChannelID: 20}
	}
	return &tg.PeerUser{UserID: 10}
}

func (s *c39MsgServer) handle(req bin.Encoder) (bin.Encoder, error) {
	var l c39ReqLog
	switch r := req.(type) {
	case *tg.MessagesGetHistoryRequest:
		l = c39ReqLog{OffsetID: r.OffsetID, OffsetDate: r.OffsetDate, AddOffset: r.AddOffset, Limit: r.Limit}
	case *tg.MessagesSearchRequest:
		l = c39ReqLog{OffsetID: r.OffsetID, AddOffset: r.AddOffset, Limit: r.Limit}
	case *tg.MessagesSearchGlobalRequest:
		l = c39ReqLog{OffsetID: r.OffsetID, OffsetRate: r.OffsetRate, Limit: r.Limit}
		if r.OffsetPeer != nil {
			l.OffsetPeer = r.OffsetPeer.TypeName()
		}
	default:
		s.harness = fmt.Sprintf("unexpected request %T", req)
		return nil, &c39HarnessErr{s.harness}
	}
	s.queries++
	if s.queries > s.bound {
		s.exceeded = true
		return nil, errC39Bound
	}
	n := len(s.hist)
	p := s.position(l.OffsetID, l.OffsetDate, l.OffsetRate) + l.AddOffset
	if p < 0 {
		p = 0
	}
	if p > n {
		p = n
	}
	lim := l.Limit
	if s.cap > 0 && lim > s.cap {
		lim = s.cap
	}
	if s.respKind == "all-at-once" { // non-paginating server: the whole rest of the list as messages.messages
		lim = n
	}
	e := p + lim
	if lim < 0 {
		e = p
	}
	if e > n {
		e = n
	}
	page := s.hist[p:e]
	msgs := make([]tg.MessageClass, 0, len(page))
	for _, m := range page {
		if m.Empty {
			me := &tg.MessageEmpty{ID: m.ID}
			me.SetPeerID(s.peer())
			msgs = append(msgs, me)
			continue
		}
		msgs = append(msgs, &tg.Message{ID: m.ID, PeerID: s.peer(), Date: m.Date, Message: fmt.Sprintf("m%d", m.ID)})
	}
	users := []tg.UserClass{&tg.User{ID: 10, AccessHash: 77, FirstName: "u"}}
	chats := []tg.ChatClass{&tg.Channel{ID: 20, AccessHash: 88, Title: "c", Photo: &tg.ChatPhotoEmpty{}}}

	full := false
	switch s.respKind {
	case "full-or-slice": // messages.messages only when the answer is the complete list
		full = p == 0 && e == n
	case "tail-full", "all-at-once": // messages.messages whenever the answer reaches the end of the list
		full = e == n
	}
	l.From, l.Returned = p, len(page)
	var resp bin.Encoder
	switch {
	case full:
		l.Kind = "messages.messages"
		resp = &tg.MessagesMessages{Messages: msgs, Users: users, Chats: chats}
	case s.respKind == "channel":
		l.Kind = "messages.channelMessages"
		resp = &tg.MessagesChannelMessages{Pts: 1000, Count: n, Messages: msgs, Users: users, Chats: chats}
	default:
		l.Kind = "messages.messagesSlice"
		sl := &tg.MessagesMessagesSlice{Count: n, Messages: msgs, Users: users, Chats: chats}
		if s.global && len(page) > 0 {
			sl.SetNextRate(page[len(page)-1].Date)
		}
		resp = sl
	}
	s.log = append(s.log, l)
	return resp, nil
}

func c39Bound(n, limit int) int { return (n+limit-1)/limit + 2 }

// c39Diff classifies the difference between the yielded and the expected sequence.
func c39Diff(got, want []int64) string {
	if len(got) == len(want) {
		same := true
		for i := range got {
			if got[i] != want[i] {
				same = false
				break
			}
		}
		if same {
			return ""
		}
	}
	wantSet := map[int64]bool{}
	for _, x := range want {
		wantSet[x] = true
	}
	seen := map[int64]int{}
	var parts []string
	extra, dup := false, false
	for _, x := range got {
		seen[x]++
		if seen[x] == 2 {
			dup = true
		}
		if !wantSet[x] {
			extra = true
		}
	}
	missing := false
	for _, x := range want {
		if seen[x] == 0 {
			missing = true
		}
	}
	if missing {
		parts = append(parts, "missing")
	}
	if dup {
		parts = append(parts, "duplicate")
	}
	if extra {
		parts = append(parts, "extra")
	}
	if len(parts) == 0 {
		parts = append(parts, "reordered")
	}
	return strings.Join(parts, "+")
}

type c39MsgCfg struct {
	endpoint string // history | search | global
	respKind string
	prec     string
	cap      int
}

func (g c39MsgCfg) String() string {
	s := g.endpoint + "|" + g.respKind + "|server=" + g.prec
	if g.cap > 0 {
		s += fmt.Sprintf("|server-cap=%d", g.cap)
	}
	return s
}

// c39Eff is the page size the server really uses.
func c39Eff(limit, cap int) int {
	if cap > 0 && limit > cap {
		return cap
	}
	return limit
}

// c39Short abbreviates long id lists in witnesses.
func c39Short(x []int64) any {
	if len(x) <= 60 {
		return x
	}
	return map[string]any{"len": len(x), "first": x[:8], "last": x[len(x)-8:]}
}

func c39ShortLog(l []c39ReqLog) any {
	if len(l) <= 24 {
		return l
	}
	return map[string]any{"len": len(l), "first": l[:8], "last": l[len(l)-8:]}
}

// c39PrefixStopAfterCappedPage: limit above the server's cap, the iteration
// yielded a strict prefix and stopped after a page of exactly cap items.
func c39PrefixStopAfterCappedPage(cap, limit int, log []c39ReqLog, got, want []int64) bool {
	if cap == 0 || limit <= cap || len(got) >= len(want) || len(log) == 0 {
		return false
	}
	for i := range got {
		if got[i] != want[i] {
			return false
		}
	}
	for _, l := range log {
		if l.Returned == cap {
			return true
		}
	}
	return false
}

// c39RunMessages runs one complete iteration and judges it.
// start: initial offset_id given to the builder (0 = from the newest message).
func c39RunMessages(c *mon.Ctx, cfg c39MsgCfg, hist []c39Msg, limit, start int, tag string) {
	c.Eval(1)
	n := len(hist)
	srv := &c39MsgServer{hist: hist, respKind: cfg.respKind, prec: cfg.prec, channel: cfg.respKind == "channel", global: cfg.endpoint == "global", cap: cfg.cap}
	first := 0
	if start != 0 {
		saved := srv.prec
		srv.prec = "id"
		first = srv.position(start, 0, 0)
		srv.prec = saved
	}
	// the messages iterator may legitimately request fewer items per page than the caller's batch size
	// (it clamps to Telegram's cap of 100): the non-termination bound is computed for min(limit, 100)
	srv.bound = c39Bound(n-first, c39Eff(c39Eff(limit, 100), cfg.cap))
	var want []int64
	for _, m := range hist[first:] {
		if !m.Empty {
			want = append(want, int64(m.ID))
		}
	}
	raw := tg.NewClient(c39Invoker(srv.handle))
	qb := messages.NewQueryBuilder(raw)
	var peer tg.InputPeerClass = &tg.InputPeerUser{UserID: 10, AccessHash: 77}
	if srv.channel {
		peer = &tg.InputPeerChannel{ChannelID: 20, AccessHash: 88}
	}
	var it *messages.Iterator
	switch cfg.endpoint {
	case "history":
		it = qb.GetHistory(peer).BatchSize(limit).OffsetID(start).Iter()
	case "search":
		it = qb.Search(peer).Q("x").BatchSize(limit).OffsetID(start).Iter()
	case "global":
		it = qb.SearchGlobal().Q("x").BatchSize(limit).OffsetID(start).Iter()
	}
	var got []int64
	runaway := false
	ctx := context.Background()
	pv, stack := mon.Try(func() {
		for it.Next(ctx) {
			got = append(got, int64(it.Value().Msg.GetID()))
			if len(got) > 4*n+16 {
				runaway = true
				return
			}
		}
	})
	w := func() map[string]any {
		m := map[string]any{
			"iterator": "messages", "config": cfg.String(), "n": n, "limit": limit, "start_offset_id": start, "arm": tag,
			"want": c39Short(want), "got": c39Short(got), "yielded": len(got), "expected": len(want),
			"queries": srv.queries, "query_bound": srv.bound, "requests": c39ShortLog(srv.log),
		}
		if n <= 60 {
			m["history"] = hist
		} else {
			m["history"] = fmt.Sprintf("%d messages, ids %d..%d descending, generated by c39History(seed stream, n)", n, hist[0].ID, hist[n-1].ID)
		}
		return m
	}
	sig := "messages|" + cfg.String() + "|"
	if tag != "" {
		sig = tag + "|" + sig
	}
	if srv.harness != "" {
		c.Inconclusive("c39 fake server: " + srv.harness)
		return
	}
	var herr *c39HarnessErr
	err := it.Err()
	switch {
	case pv != nil:
		ww := w()
		ww["panic"], ww["stack"] = fmt.Sprint(pv), stack
		c.Violate(sig+"panic", ww)
	case err != nil && errors.As(err, &herr):
		c.Inconclusive(herr.Error())
	case srv.exceeded || runaway:
		c.Violate(sig+"no-termination-within-query-bound", w())
	case err != nil:
		ww := w()
		ww["error"] = err.Error()
		c.Violate(sig+"iterator-error", ww)
	default:
		if d := c39Diff(got, want); d != "" {
			if tag == "with-empty" && c39AllEmptyPageStop(srv, got, want) {
				// one defect class whatever the endpoint / response kind: own short signature
				c.Violate("with-empty|messages|stops-at-all-empty-page", w())
			} else if c39PrefixStopAfterCappedPage(cfg.cap, limit, srv.log, got, want) {
				// batch size above the server's cap: one defect class whatever the endpoint / kind
				c.Violate(fmt.Sprintf("capped-server|messages|batch-size>cap=%d|stops-after-capped-page", cfg.cap), w())
			} else {
				c.Violate(sig+d, w())
			}
		}
	}
	pages := 0
	if limit > 0 {
		pages = (n - first + limit - 1) / limit
	}
	rel := "lt"
	if n-first == 0 {
		rel = "empty"
	} else if (n-first)%limit == 0 {
		rel = "multiple"
	} else if limit > n-first {
		rel = "single-short"
	}
	if limit > 100 {
		rel += "/page>100"
	}
	c.Distinct(fmt.Sprintf("msg/%s/%s/pages=%d/%s", tag, cfg.String(), min(pages, 6), rel))
	if n == 7 && limit == 3 && start == 0 {
		c.Sample("messages-"+cfg.endpoint, map[string]any{"config": cfg.String(), "n": n, "limit": limit, "yielded": got, "queries": srv.queries, "requests": srv.log})
	}
}

// c39AllEmptyPageStop: the iteration yielded a strict prefix of the expected
// sequence and the last answered page consisted only of messageEmpty.
func c39AllEmptyPageStop(s *c39MsgServer, got, want []int64) bool {
	if len(got) >= len(want) || len(s.log) == 0 {
		return false
	}
	for i := range got {
		if got[i] != want[i] {
			return false
		}
	}
	l := s.log[len(s.log)-1]
	if l.Returned == 0 {
		return false
	}
	for _, m := range s.hist[l.From : l.From+l.Returned] {
		if !m.Empty {
			return false
		}
	}
	return true
}

// ---- dialogs ----------------------------------------------------------------

type c39Dlg struct {
	Kind int   `json:"kind"` // 0 user, 1 chat, 2 channel
	Peer int64 `json:"peer"`
	Top  int   `json:"top_message"`
	Date int   `json:"date"`
}

func (d c39Dlg) key() int64 { return int64(d.Kind)<<40 | d.Peer }

func (d c39Dlg) peer() tg.PeerClass {
	switch d.Kind {
	case 0:
		return &tg.PeerUser{UserID: d.Peer}
	case 1:
		return &tg.PeerChat{ChatID: d.Peer}
	}
	return &tg.PeerChannel{ChannelID: d.Peer}
}

// c39Dialogs generates n dialogs ordered as the server lists them: by top
// message date (newest first), then top message id, then peer id. With
// ties=false all dates are unique. With ties=true groups of dialogs share the
// date, and channel dialogs (own id spaces) may also share the top message id.
func c39Dialogs(r *rand.Rand, n int, ties bool) []c39Dlg {
	d := make([]c39Dlg, n)
	date := 1_600_000_000 + r.IntN(1000)
	top := 1 + r.IntN(5)
	perm := r.Perm(n)
	for i := n - 1; i >= 0; i-- {
		kind := r.IntN(3)
		if ties && i < n-1 && r.IntN(2) == 0 {
			// same date as the previous (older) dialog
			if r.IntN(2) == 0 {
				kind = 2
				if d[i+1].Kind == 2 {
					// same top id in a different channel
					d[i] = c39Dlg{Kind: 2, Peer: int64(1000 + perm[i]), Top: d[i+1].Top, Date: date}
					continue
				}
			}
			top += 1 + r.IntN(3)
			d[i] = c39Dlg{Kind: kind, Peer: int64(1000 + perm[i]), Top: top, Date: date}
			continue
		}
		date += 1 + r.IntN(100)
		top += 1 + r.IntN(3)
		d[i] = c39Dlg{Kind: kind, Peer: int64(1000 + perm[i]), Top: top, Date: date}
	}
	sort.SliceStable(d, func(a, b int) bool { return c39DlgLess(d[b], d[a].Date, d[a].Top, d[a].Peer, true) })
	return d
}

// c39DlgLess: dialog x sorts strictly after (is "older than") the offset tuple.
func c39DlgLess(x c39Dlg, date, id int, peer int64, usePeer bool) bool {
	if x.Date != date {
		return x.Date < date
	}
	if x.Top != id {
		return x.Top < id
	}
	if !usePeer {
		return false
	}
	return x.Peer < peer
}

type c39DlgServer struct {
	list     []c39Dlg
	respKind string // slice | full-or-slice | tail-full
	ties     bool
	cap      int

	bound    int
	queries  int
	exceeded bool
	harness  string
	log      []c39ReqLog
}

func (s *c39DlgServer) handle(req bin.Encoder) (bin.Encoder, error) {
	r, ok := req.(*tg.MessagesGetDialogsRequest)
	if !ok {
		s.harness = fmt.Sprintf("unexpected request %T", req)
		return nil, &c39HarnessErr{s.harness}
	}
	l := c39ReqLog{OffsetID: r.OffsetID, OffsetDate: r.OffsetDate, Limit: r.Limit}
	var (
		offPeer int64
		hasPeer bool
	)
	switch p := r.OffsetPeer.(type) {
	case *tg.InputPeerUser:
		offPeer, hasPeer = p.UserID, true
	case *tg.InputPeerChat:
		offPeer, hasPeer = p.ChatID, true
	case *tg.InputPeerChannel:
		offPeer, hasPeer = p.ChannelID, true
	}
	if r.OffsetPeer != nil {
		l.OffsetPeer = fmt.Sprintf("%s:%d", r.OffsetPeer.TypeName(), offPeer)
	}
	s.queries++
	if s.queries > s.bound {
		s.exceeded = true
		return nil, errC39Bound
	}
	n := len(s.list)
	p := 0
	if r.OffsetDate != 0 {
		p = n
		for i, d := range s.list {
			var older bool
			if s.ties {
				older = c39DlgLess(d, r.OffsetDate, r.OffsetID, offPeer, hasPeer)
			} else {
				older = d.Date < r.OffsetDate
			}
			if older {
				p = i
				break
			}
		}
	}
	e := min(p+max(c39Eff(r.Limit, s.cap), 0), n)
	if s.respKind == "all-at-once" {
		e = n
	}
	page := s.list[p:e]
	var (
		dl    []tg.DialogClass
		msgs  []tg.MessageClass
		users []tg.UserClass
		chats []tg.ChatClass
	)
	for _, d := range page {
		dl = append(dl, &tg.Dialog{Peer: d.peer(), TopMessage: d.Top})
		msgs = append(msgs, &tg.Message{ID: d.Top, PeerID: d.peer(), Date: d.Date, Message: "top"})
		switch d.Kind {
		case 0:
			users = append(users, &tg.User{ID: d.Peer, AccessHash: d.Peer * 7})
		case 1:
			chats = append(chats, &tg.Chat{ID: d.Peer, Title: "g", Photo: &tg.ChatPhotoEmpty{}})
		default:
			chats = append(chats, &tg.Channel{ID: d.Peer, AccessHash: d.Peer * 7, Title: "c", Photo: &tg.ChatPhotoEmpty{}})
		}
	}
	full := false
	switch s.respKind {
	case "full-or-slice":
		full = p == 0 && e == n
	case "tail-full", "all-at-once":
		full = e == n
	}
	l.From, l.Returned = p, len(page)
	var resp bin.Encoder
	if full {
		l.Kind = "messages.dialogs"
		resp = &tg.MessagesDialogs{Dialogs: dl, Messages: msgs, Chats: chats, Users: users}
	} else {
		l.Kind = "messages.dialogsSlice"
		resp = &tg.MessagesDialogsSlice{Count: n, Dialogs: dl, Messages: msgs, Chats: chats, Users: users}
	}
	s.log = append(s.log, l)
	return resp, nil
}

func c39RunDialogs(c *mon.Ctx, respKind string, ties bool, list []c39Dlg, limit, cap int, tag string) {
	c.Eval(1)
	n := len(list)
	srv := &c39DlgServer{list: list, respKind: respKind, ties: ties, cap: cap, bound: c39Bound(n, c39Eff(limit, cap))}
	raw := tg.NewClient(c39Invoker(srv.handle))
	it := dialogs.NewQueryBuilder(raw).GetDialogs().BatchSize(limit).Iter()
	var want, got []int64
	for _, d := range list {
		want = append(want, d.key())
	}
	runaway, foreign := false, ""
	ctx := context.Background()
	pv, stack := mon.Try(func() {
		for it.Next(ctx) {
			d, ok := it.Value().Dialog.(*tg.Dialog)
			if !ok {
				foreign = fmt.Sprintf("%T", it.Value().Dialog)
				return
			}
			var k c39Dlg
			switch p := d.Peer.(type) {
			case *tg.PeerUser:
				k = c39Dlg{Kind: 0, Peer: p.UserID}
			case *tg.PeerChat:
				k = c39Dlg{Kind: 1, Peer: p.ChatID}
			case *tg.PeerChannel:
				k = c39Dlg{Kind: 2, Peer: p.ChannelID}
			}
			got = append(got, k.key())
			if len(got) > 4*n+16 {
				runaway = true
				return
			}
		}
	})
	variant := "unique-dates"
	if ties {
		variant = "tied-dates"
	}
	cfg := "getDialogs|" + respKind + "|server=" + variant
	if cap > 0 {
		cfg += fmt.Sprintf("|server-cap=%d", cap)
	}
	w := func() map[string]any {
		m := map[string]any{
			"iterator": "dialogs", "config": cfg, "n": n, "limit": limit, "arm": tag,
			"want": c39Short(want), "got": c39Short(got), "yielded": len(got), "expected": len(want),
			"queries": srv.queries, "query_bound": srv.bound, "requests": c39ShortLog(srv.log),
		}
		if n <= 60 {
			m["dialogs"] = list
		}
		return m
	}
	sig := "dialogs|" + cfg + "|"
	if tag != "" {
		sig = tag + "|" + sig
	}
	if srv.harness != "" {
		c.Inconclusive("c39 fake server: " + srv.harness)
		return
	}
	var herr *c39HarnessErr
	err := it.Err()
	switch {
	case pv != nil:
		ww := w()
		ww["panic"], ww["stack"] = fmt.Sprint(pv), stack
		c.Violate(sig+"panic", ww)
	case foreign != "":
		c.Inconclusive("c39 dialogs: unexpected element type " + foreign)
	case err != nil && errors.As(err, &herr):
		c.Inconclusive(herr.Error())
	case srv.exceeded || runaway:
		c.Violate(sig+"no-termination-within-query-bound", w())
	case err != nil:
		ww := w()
		ww["error"] = err.Error()
		c.Violate(sig+"iterator-error", ww)
	default:
		if d := c39Diff(got, want); d != "" {
			c.Violate(sig+d, w())
		}
	}
	rel := "lt"
	if n == 0 {
		rel = "empty"
	} else if n%limit == 0 {
		rel = "multiple"
	} else if limit > n {
		rel = "single-short"
	}
	if limit > 100 {
		rel += "/page>100"
	}
	c.Distinct(fmt.Sprintf("dlg/%s/%s/pages=%d/%s", tag, cfg, min((n+limit-1)/limit, 6), rel))
	if n == 7 && limit == 3 {
		c.Sample("dialogs", map[string]any{"config": cfg, "n": n, "limit": limit, "yielded": got, "queries": srv.queries, "requests": srv.log})
	}
}

// ---- API arm: Total / FetchTotal / Collect / ForEach / Count around the iteration ----

// c39Iter is what both iterators offer.
type c39Iter interface {
	Next(ctx context.Context) bool
	Err() error
	Total(ctx context.Context) (int, error)
	FetchTotal(ctx context.Context) (int, error)
}

// c39API adapts one iterator family; every closure builds a fresh query builder.
type c39API struct {
	iter    func() (c39Iter, func() (int64, bool))
	collect func(ctx context.Context) ([]int64, error)
	forEach func(ctx context.Context, cb func(int64)) error
	count   func(ctx context.Context) (int, error)
}

var c39Modes = []string{"total-before", "total-middle", "total-after", "collect", "foreach", "count"}

type c39Drive struct {
	got     []int64
	totals  []int    // every value returned by Total/FetchTotal/Count
	calls   []string // which call produced totals[i]
	probes  int      // explicit count requests the mode is allowed to add to the query bound
	err     error
	runaway bool
	foreign bool
}

func (a c39API) drive(mode string, n int) (d c39Drive) {
	ctx := context.Background()
	guard := 4*n + 16
	total := func(name string, f func(context.Context) (int, error)) bool {
		t, err := f(ctx)
		if err != nil {
			d.err = fmt.Errorf("%s: %w", name, err)
			return false
		}
		d.totals, d.calls = append(d.totals, t), append(d.calls, name)
		return true
	}
	loop := func(it c39Iter, val func() (int64, bool), mid func() bool) {
		for it.Next(ctx) {
			v, ok := val()
			if !ok {
				d.foreign = true
				return
			}
			d.got = append(d.got, v)
			if len(d.got) > guard {
				d.runaway = true
				return
			}
			if mid != nil && len(d.got) == (n+1)/2 {
				if !mid() {
					return
				}
			}
		}
		if d.err == nil {
			d.err = it.Err()
		}
	}
	switch mode {
	case "total-before":
		it, val := a.iter()
		d.probes = 1
		if !total("Total-before", it.Total) {
			return
		}
		loop(it, val, nil)
		if d.err == nil && !d.runaway {
			total("Total-after", it.Total)
		}
	case "total-middle":
		it, val := a.iter()
		d.probes = 1
		loop(it, val, func() bool {
			return total("Total-middle", it.Total) && total("FetchTotal-middle", it.FetchTotal)
		})
	case "total-after":
		it, val := a.iter()
		d.probes = 1
		loop(it, val, nil)
		if d.err == nil && !d.runaway {
			_ = total("Total-after", it.Total) && total("FetchTotal-after", it.FetchTotal)
		}
	case "collect":
		d.probes = 1
		d.got, d.err = a.collect(ctx)
	case "foreach":
		d.err = a.forEach(ctx, func(v int64) { d.got = append(d.got, v) })
	case "count":
		d.probes = 1
		total("Count", a.count)
	}
	return d
}

// c39Judge applies the unchanged sequence oracle plus Total()==N.
func c39Judge(c *mon.Ctx, sig string, d c39Drive, pv any, stack string, want []int64, n int, checkTotals, seqMode bool,
	exceeded bool, harness string, w func() map[string]any) {
	if harness != "" {
		c.Inconclusive("c39 fake server: " + harness)
		return
	}
	var herr *c39HarnessErr
	wit := func() map[string]any {
		m := w()
		m["totals"], m["total_calls"] = d.totals, d.calls
		return m
	}
	switch {
	case pv != nil:
		ww := wit()
		ww["panic"], ww["stack"] = fmt.Sprint(pv), stack
		c.Violate(sig+"panic", ww)
		return
	case d.foreign:
		c.Inconclusive("c39: unexpected element type")
		return
	case d.err != nil && errors.As(d.err, &herr):
		c.Inconclusive(herr.Error())
		return
	case exceeded || d.runaway:
		c.Violate(sig+"no-termination-within-query-bound", wit())
		return
	case d.err != nil:
		ww := wit()
		ww["error"] = d.err.Error()
		c.Violate(sig+"iterator-error", ww)
		return
	}
	if seqMode {
		if diff := c39Diff(d.got, want); diff != "" {
			c.Violate(sig+diff, wit())
		}
	}
	if checkTotals {
		for i, t := range d.totals {
			if t != n {
				c.Violate(sig+"total-mismatch|"+strings.SplitN(d.calls[i], "-", 2)[0], wit())
				break
			}
		}
	}
}

func c39RunMessagesAPI(c *mon.Ctx, respKind, mode string, hist []c39Msg, limit int) {
	c.Eval(1)
	n := len(hist)
	cfg := c39MsgCfg{endpoint: "history", respKind: respKind, prec: "id"}
	srv := &c39MsgServer{hist: hist, respKind: respKind, prec: "id", channel: respKind == "channel"}
	var want []int64
	for _, m := range hist {
		want = append(want, int64(m.ID))
	}
	var peer tg.InputPeerClass = &tg.InputPeerUser{UserID: 10, AccessHash: 77}
	if srv.channel {
		peer = &tg.InputPeerChannel{ChannelID: 20, AccessHash: 88}
	}
	raw := tg.NewClient(c39Invoker(srv.handle))
	b := func() *messages.GetHistoryQueryBuilder {
		return messages.NewQueryBuilder(raw).GetHistory(peer).BatchSize(limit)
	}
	api := c39API{
		iter: func() (c39Iter, func() (int64, bool)) {
			it := b().Iter()
			return it, func() (int64, bool) { return int64(it.Value().Msg.GetID()), true }
		},
		collect: func(ctx context.Context) ([]int64, error) {
			el, err := b().Collect(ctx)
			var r []int64
			for _, e := range el {
				r = append(r, int64(e.Msg.GetID()))
			}
			return r, err
		},
		forEach: func(ctx context.Context, cb func(int64)) error {
			return b().ForEach(ctx, func(_ context.Context, e messages.Elem) error { cb(int64(e.Msg.GetID())); return nil })
		},
		count: func(ctx context.Context) (int, error) { return b().Count(ctx) },
	}
	var d c39Drive
	// bound: pages + the explicit count requests of the mode (set before the run: every mode adds at most 1)
	srv.bound = c39Bound(n, c39Eff(limit, 100)) + 1
	pv, stack := mon.Try(func() { d = api.drive(mode, n) })
	w := func() map[string]any {
		return map[string]any{"iterator": "messages", "config": cfg.String(), "mode": mode, "n": n, "limit": limit, "history": hist,
			"want": want, "got": d.got, "queries": srv.queries, "query_bound": srv.bound, "requests": c39ShortLog(srv.log)}
	}
	// messages.messages of the doubtful tail-full variant carries only the last page: no Total promise there
	c39Judge(c, "api|"+mode+"|messages|"+cfg.String()+"|", d, pv, stack, want, n, respKind != "tail-full", mode != "count", srv.exceeded, srv.harness, w)
	c.Distinct(fmt.Sprintf("api/msg/%s/%s/pages=%d/n=%d", mode, respKind, min((n+limit-1)/limit, 4), min(n, 3)))
	if n == 5 && limit == 2 && respKind == "slice" {
		c.Sample("api-messages", map[string]any{"mode": mode, "n": n, "limit": limit, "yielded": d.got, "totals": d.totals, "total_calls": d.calls, "queries": srv.queries})
	}
}

func c39RunDialogsAPI(c *mon.Ctx, respKind, mode string, list []c39Dlg, limit int) {
	c.Eval(1)
	n := len(list)
	srv := &c39DlgServer{list: list, respKind: respKind, bound: c39Bound(n, limit) + 1}
	var want []int64
	for _, d := range list {
		want = append(want, d.key())
	}
	key := func(e dialogs.Elem) (int64, bool) {
		d, ok := e.Dialog.(*tg.Dialog)
		if !ok {
			return 0, false
		}
		switch p := d.Peer.(type) {
		case *tg.PeerUser:
			return c39Dlg{Kind: 0, Peer: p.UserID}.key(), true
		case *tg.PeerChat:
			return c39Dlg{Kind: 1, Peer: p.ChatID}.key(), true
		case *tg.PeerChannel:
			return c39Dlg{Kind: 2, Peer: p.ChannelID}.key(), true
		}
		return 0, false
	}
	raw := tg.NewClient(c39Invoker(srv.handle))
	b := func() *dialogs.GetDialogsQueryBuilder {
		return dialogs.NewQueryBuilder(raw).GetDialogs().BatchSize(limit)
	}
	foreign := false
	api := c39API{
		iter: func() (c39Iter, func() (int64, bool)) {
			it := b().Iter()
			return it, func() (int64, bool) { return key(it.Value()) }
		},
		collect: func(ctx context.Context) ([]int64, error) {
			el, err := b().Collect(ctx)
			var r []int64
			for _, e := range el {
				k, ok := key(e)
				foreign = foreign || !ok
				r = append(r, k)
			}
			return r, err
		},
		forEach: func(ctx context.Context, cb func(int64)) error {
			return b().ForEach(ctx, func(_ context.Context, e dialogs.Elem) error {
				k, ok := key(e)
				foreign = foreign || !ok
				cb(k)
				return nil
			})
		},
		count: func(ctx context.Context) (int, error) { return b().Count(ctx) },
	}
	var d c39Drive
	pv, stack := mon.Try(func() { d = api.drive(mode, n) })
	d.foreign = d.foreign || foreign
	cfg := "getDialogs|" + respKind + "|server=unique-dates"
	w := func() map[string]any {
		return map[string]any{"iterator": "dialogs", "config": cfg, "mode": mode, "n": n, "limit": limit, "dialogs": list,
			"want": want, "got": d.got, "queries": srv.queries, "query_bound": srv.bound, "requests": c39ShortLog(srv.log)}
	}
	c39Judge(c, "api|"+mode+"|dialogs|"+cfg+"|", d, pv, stack, want, n, respKind != "tail-full", mode != "count", srv.exceeded, srv.harness, w)
	c.Distinct(fmt.Sprintf("api/dlg/%s/%s/pages=%d/n=%d", mode, respKind, min((n+limit-1)/limit, 4), min(n, 3)))
	if n == 5 && limit == 2 && respKind == "slice" {
		c.Sample("api-dialogs", map[string]any{"mode": mode, "n": n, "limit": limit, "yielded": d.got, "totals": d.totals, "total_calls": d.calls, "queries": srv.queries})
	}
}

func runC39(c *mon.Ctx) {
	relaxGC()
	c.Rule("EXHAUSTIVE grid N in 0..40 (thorough 0..150) x page size in 1..N+1 (861 resp. 11476 pairs, includes every exact multiple) for each server configuration: " +
		"messages iterator through the real GetHistory builder x response kinds {messagesSlice, channelMessages, messages.messages-when-complete-else-slice, " +
		"messages.messages-whenever-the-answer-reaches-the-end} x offset precedence variants {id, date, both}; Search builder (offset_id+add_offset) x 3 kinds; " +
		"SearchGlobal builder (offset_rate/offset_peer/offset_id, next_rate fed back) x 2 kinds x {id, rate}; dialogs iterator through the real GetDialogs builder x " +
		"{dialogsSlice, dialogs-when-complete, dialogs-at-end} x {unique dates, tied dates with (date,id,peer) lexicographic offsets}. Each run iterates to exhaustion; " +
		"the yielded id sequence must equal the server's list; more than ceil(N/limit)+2 queries = non-termination. Skewed-dates arm (both tiers, tag skewed-dates): ids strictly descending but dates not monotone (local swaps, one much newer / older, equal dates), N 0..20 x every page size " +
		"x GetHistory/Search x response kinds on the id-keyed server only, plus N 101/250. API arm (both tiers, signature prefix api|<mode>|): N in 0..12 (thorough 0..40) x every page size x response kinds (plus a non-paginating all-at-once server) x modes " +
		"{Total before / Total+FetchTotal in the middle / after the iteration, builder.Collect, ForEach, Count}: same sequence oracle, and every Total/FetchTotal/Count value must equal N " +
		"(not demanded for the tail-full variant). Large arm (both tiers, tag large): N in {99,100,101,120,199,200,201,250,1000} x " +
		"page size in {1 (N<=250),7,50,99,100,101,120,128,250,1000,N-1,N,N+1} x 7 message configurations (all 4 response kinds) + 4 dialog configurations, each against a server that " +
		"honours any limit and (page size > 100) a server that truncates limits to 100 like Telegram (config suffix server-cap=100; bound uses the effective page size), plus start offsets and a " +
		"random sample with N and page size up to 2000. Sampled extra arms: iteration started from an " +
		"offset_id (on an id and in a gap), histories with interleaved messageEmpty (signature prefix with-empty|), thorough: N up to 300. " +
		"distinct non-trivial = distinct (arm, configuration, number of pages capped at 6, relation of N to page size)")
	c.Assume("fake server implements Telegram pagination as documented at core.telegram.org/api/offsets over lists with unique descending ids and dates; answers are complete " +
		"(users/chats present) and pass through the real TL encoder/decoder")
	c.Assume("server variants other than server=id / server=unique-dates encode behaviours the real server may or may not have; their signatures carry the variant name")

	maxN := c.N(40, 150) // thorough enumerates the larger grid completely as well
	var msgCfgs []c39MsgCfg
	for _, k := range []string{"slice", "channel", "full-or-slice", "tail-full"} {
		for _, p := range []string{"id", "date", "both"} {
			msgCfgs = append(msgCfgs, c39MsgCfg{endpoint: "history", respKind: k, prec: p})
		}
	}
	for _, k := range []string{"slice", "channel", "full-or-slice"} {
		msgCfgs = append(msgCfgs, c39MsgCfg{endpoint: "search", respKind: k, prec: "id"})
	}
	for _, k := range []string{"slice", "full-or-slice"} {
		for _, p := range []string{"id", "rate"} {
			msgCfgs = append(msgCfgs, c39MsgCfg{endpoint: "global", respKind: k, prec: p})
		}
	}
	dlgKinds := []string{"slice", "full-or-slice", "tail-full"}

	grid := func(n, limit int) {
		hist := c39History(c.RandN("c39-hist", n), n, false)
		for _, cfg := range msgCfgs {
			c39RunMessages(c, cfg, hist, limit, 0, "")
		}
		for _, ties := range []bool{false, true} {
			list := c39Dialogs(c.RandN(fmt.Sprintf("c39-dlg-%v", ties), n), n, ties)
			for _, k := range dlgKinds {
				c39RunDialogs(c, k, ties, list, limit, 0, "")
			}
		}
	}
	pairs := 0
	for n := 0; n <= maxN; n++ {
		for limit := 1; limit <= n+1; limit++ {
			grid(n, limit)
			pairs++
		}
	}
	c.Set("grid_pairs", pairs)
	c.Set("grid_configs_messages", len(msgCfgs))
	c.Set("grid_configs_dialogs", 2*len(dlgKinds))
	c.Exhaustive(true)

	// skewed-dates arm (both tiers): ids strictly descending, dates not monotone. Only for the
	// id-keyed server (documented semantics: offset_id selects by id, offset_date is ignored when
	// offset_id is given); variants whose position depends on dates are not used here.
	skewCfgs := []c39MsgCfg{
		{endpoint: "history", respKind: "slice", prec: "id"}, {endpoint: "history", respKind: "channel", prec: "id"},
		{endpoint: "history", respKind: "full-or-slice", prec: "id"}, {endpoint: "history", respKind: "tail-full", prec: "id"},
		{endpoint: "search", respKind: "slice", prec: "id"}, {endpoint: "search", respKind: "channel", prec: "id"},
		{endpoint: "search", respKind: "full-or-slice", prec: "id"},
	}
	skewRuns := 0
	for n := 0; n <= 20; n++ {
		for v := 0; v < c.N(2, 8); v++ {
			sr := c.RandN(fmt.Sprintf("c39-skew-%d", v), n)
			hist := c39SkewDates(sr, c39History(sr, n, false))
			for limit := 1; limit <= n+1; limit++ {
				for _, cfg := range skewCfgs {
					c39RunMessages(c, cfg, hist, limit, 0, "skewed-dates")
					skewRuns++
				}
			}
		}
	}
	for _, n := range []int{101, 250} {
		sr := c.RandN("c39-skew-large", n)
		hist := c39SkewDates(sr, c39History(sr, n, false))
		for _, limit := range []int{7, 50, 100} {
			for _, cfg := range skewCfgs[:4] {
				c39RunMessages(c, cfg, hist, limit, 0, "skewed-dates")
				skewRuns++
			}
		}
	}
	c.Set("skewed_dates_runs", skewRuns)

	// API arm (both tiers): Total / FetchTotal before, in the middle of and after the iteration,
	// Collect, ForEach, Count; small N, every page size, every response kind incl. a
	// non-paginating server that returns the whole list at once.
	apiRuns := 0
	for n := 0; n <= c.N(12, 40); n++ {
		hist := c39History(c.RandN("c39-hist-api", n), n, false)
		dl := c39Dialogs(c.RandN("c39-dlg-api", n), n, false)
		for limit := 1; limit <= n+1; limit++ {
			for _, mode := range c39Modes {
				for _, k := range []string{"slice", "channel", "full-or-slice", "tail-full", "all-at-once"} {
					c39RunMessagesAPI(c, k, mode, hist, limit)
					apiRuns++
				}
				for _, k := range []string{"slice", "full-or-slice", "tail-full", "all-at-once"} {
					c39RunDialogsAPI(c, k, mode, dl, limit)
					apiRuns++
				}
			}
		}
	}
	c.Set("api_arm_runs", apiRuns)

	// large-N arm (both tiers) ------------------------------------------------
	// Page sizes around and above Telegram's per-request maximum (100) over histories
	// longer than that. Two server variants: one honours any limit, one silently
	// truncates limits above 100 as Telegram does (only run for page sizes > 100,
	// below that both variants are the same server).
	const tgCap = 100
	largeCfgs := []c39MsgCfg{
		{endpoint: "history", respKind: "slice", prec: "id"},
		{endpoint: "history", respKind: "channel", prec: "id"},
		{endpoint: "history", respKind: "full-or-slice", prec: "id"},
		{endpoint: "history", respKind: "tail-full", prec: "id"},
		{endpoint: "history", respKind: "slice", prec: "date"},
		{endpoint: "search", respKind: "channel", prec: "id"},
		{endpoint: "global", respKind: "slice", prec: "rate"},
	}
	lr := c.Rand("c39-large")
	largeRuns := 0
	for _, n := range []int{99, 100, 101, 120, 199, 200, 201, 250, 1000} {
		hist := c39History(c.RandN("c39-hist-large", n), n, false)
		dlgs := c39Dialogs(c.RandN("c39-dlg-large", n), n, false)
		dlgsTied := c39Dialogs(c.RandN("c39-dlg-large-tied", n), n, true)
		set := map[int]bool{7: true, 50: true, 99: true, 100: true, 101: true, 120: true, 128: true, 250: true, 1000: true, n - 1: true, n: true, n + 1: true}
		if n <= 250 {
			set[1] = true
		}
		var limits []int
		for l := range set {
			limits = append(limits, l)
		}
		sort.Ints(limits)
		for _, limit := range limits {
			caps := []int{0}
			if limit > tgCap {
				caps = append(caps, tgCap)
			}
			for _, cp := range caps {
				for _, cfg := range largeCfgs {
					cfg.cap = cp
					c39RunMessages(c, cfg, hist, limit, 0, "large")
					largeRuns++
				}
				for _, k := range dlgKinds {
					c39RunDialogs(c, k, false, dlgs, limit, cp, "large")
					largeRuns++
				}
				if limit >= 50 {
					c39RunDialogs(c, "slice", true, dlgsTied, limit, cp, "large")
					largeRuns++
				}
			}
		}
		// a few start offsets with page sizes at and above the cap
		for k := 0; k < 3; k++ {
			start := hist[lr.IntN(n)].ID + lr.IntN(2)
			for _, limit := range []int{100, 101, 120} {
				cfg := largeCfgs[lr.IntN(4)]
				c39RunMessages(c, cfg, hist, limit, start, "large-start-offset")
				cfg.cap = tgCap
				c39RunMessages(c, cfg, hist, limit, start, "large-start-offset")
				largeRuns += 2
			}
		}
	}
	// random large sample: N up to 2000, page sizes up to 2000 (log-uniform so that small,
	// medium and huge pages all occur)
	logU := func(hi int) int {
		bits := 1 + lr.IntN(11)
		v := 1 + lr.IntN(1<<bits)
		if v > hi {
			v = hi
		}
		return v
	}
	for i, nr := 0, c.N(40, 1500); i < nr; i++ {
		n := 1 + lr.IntN(2000)
		limit := logU(2000)
		if n/limit > 300 { // keep one run below ~300 queries
			limit = n/300 + 1
		}
		cp := []int{0, tgCap}[i%2]
		if i%3 == 2 {
			ties := lr.IntN(2) == 0 // the data and the server variant must agree
			c39RunDialogs(c, dlgKinds[lr.IntN(len(dlgKinds))], ties, c39Dialogs(lr, n, ties), limit, cp, "large-random")
		} else {
			cfg := largeCfgs[lr.IntN(len(largeCfgs))]
			cfg.cap = cp
			c39RunMessages(c, cfg, c39History(lr, n, false), limit, 0, "large-random")
		}
		largeRuns++
	}
	c.Set("large_arm_runs", largeRuns)

	// sampled arms ----------------------------------------------------------
	r := c.Rand("c39-extra")
	extra := c.N(3000, 60000)
	for i := 0; i < extra; i++ {
		n := 1 + r.IntN(maxN)
		limit := 1 + r.IntN(n+1)
		cfg := msgCfgs[r.IntN(len(msgCfgs))]
		if i%2 == 0 {
			// start from an offset: on an existing id, or in a gap / beyond both ends
			hist := c39History(r, n, false)
			start := hist[r.IntN(n)].ID
			switch r.IntN(4) {
			case 0:
				start++
			case 1:
				start = hist[0].ID + 1 + r.IntN(3)
			}
			if cfg.prec == "rate" {
				cfg.prec = "id"
			}
			c39RunMessages(c, cfg, hist, limit, start, "start-offset")
		} else {
			hist := c39History(r, n, true)
			cfg.prec = "id"
			c39RunMessages(c, cfg, hist, limit, 0, "with-empty")
		}
	}
	if !c.Quick() {
		for _, n := range []int{41, 50, 64, 99, 100, 101, 128, 200, 255, 256, 300} {
			limits := map[int]bool{1: true, 2: true, 3: true, 7: true, 10: true, 100: true, n - 1: true, n: true, n + 1: true, n / 2: true, n/2 + 1: true, n / 3: true}
			for k := 0; k < 10; k++ {
				limits[1+r.IntN(n+1)] = true
			}
			var ls []int
			for l := range limits {
				if l >= 1 {
					ls = append(ls, l)
				}
			}
			sort.Ints(ls)
			for _, l := range ls {
				grid(n, l)
			}
		}
	}
}
