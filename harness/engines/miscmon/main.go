// Engine miscmon: monitors for the pure helper packages
// (C38 fileid round-trip, C39 history/dialog iterators, C40 tgerr parsing and
// flood-wait timing).
package main

import (
	"runtime"
	"runtime/debug"

	"verif/harness/mon"
)

// relaxGC: the workloads allocate many short-lived objects over a tiny live
// heap, which makes the collector run thousands of cycles (expensive on a
// loaded many-core machine). A larger heap target (about 40 MiB) keeps the
// number of cycles small without touching much memory. The workloads are
// sequential (C40 needs one extra goroutine): two Ps avoid the idle-P overhead
// that was measured to triple the wall time on the loaded 16-core machine.
func relaxGC() {
	debug.SetGCPercent(1000)
	runtime.GOMAXPROCS(2)
}

func main() {
	mon.RegisterBatch("c38-decode", c38DecodeChild)
	mon.Main("miscmon", map[string]mon.PropFunc{
		"C38": runC38,
		"C39": runC39,
		"C40": runC40,
	})
}
