package main

import (
	"context"
	"errors"
	"fmt"
	"math/rand/v2"
	"strconv"
	"strings"
	"sync"
	"time"

	"github.com/gotd/neo"

	"github.com/gotd/td/clock"
	"github.com/gotd/td/tgerr"

	"verif/harness/mon"
)

// ---------------------------------------------------------------------------
// C40 — RPC errors are parsed into type and argument consistently; flood-wait
// errors make the caller wait n seconds plus the safety margin.
// ---------------------------------------------------------------------------

const c40Letters = "ABCDEFGHIJKLMNOPQRSTUVWXYZ"

var c40DigitWords = []string{"2FA", "X509V3", "A1", "1A", "B2B", "SHA256", "MD5", "V2", "3DS", "IPV6", "P2P", "0X", "X0", "00A", "9Z9"}

// c40Word returns an upper-case word; class "alpha" = [A-Z]+, "digit" = contains
// decimal digits but at least one letter (so it is not an argument).
func c40Word(r *rand.Rand) (w, class string) {
	switch r.IntN(4) {
	case 0:
		if r.IntN(2) == 0 {
			return c40DigitWords[r.IntN(len(c40DigitWords))], "digit"
		}
		// random mixed word with at least one letter and one digit
		n := 2 + r.IntN(6)
		b := make([]byte, n)
		for i := range b {
			if r.IntN(2) == 0 {
				b[i] = byte('0' + r.IntN(10))
			} else {
				b[i] = c40Letters[r.IntN(26)]
			}
		}
		b[r.IntN(n)] = c40Letters[r.IntN(26)]
		hasDigit := false
		for _, x := range b {
			if x >= '0' && x <= '9' {
				hasDigit = true
			}
		}
		if !hasDigit {
			return string(b), "alpha"
		}
		return string(b), "digit"
	default:
		n := 1 + r.IntN(9)
		b := make([]byte, n)
		for i := range b {
			b[i] = c40Letters[r.IntN(26)]
		}
		return string(b), "alpha"
	}
}

func c40Arg(r *rand.Rand) int {
	switch r.IntN(6) {
	case 0:
		return []int{0, 1, 2, 9, 10, 59, 60, 100, 255, 256, 3600, 86400, 1<<31 - 1, 1<<31 - 2, 1 << 30}[r.IntN(15)]
	case 1:
		return r.IntN(10)
	case 2:
		return r.IntN(100000)
	}
	return int(r.Uint32() >> 1)
}

// c40Clock is the harness-owned clock boundary: neo fake time plus a record of
// every timer the code under observation creates.
type c40Clock struct {
	*neo.Time
	mu      sync.Mutex
	timers  []time.Duration
	created chan struct{}
}

func newC40Clock(start time.Time) *c40Clock {
	return &c40Clock{Time: neo.NewTime(start), created: make(chan struct{}, 16)}
}

func (k *c40Clock) Timer(d time.Duration) clock.Timer {
	t := k.Time.Timer(d) // registered relative to the fake now, before the event is published
	k.mu.Lock()
	k.timers = append(k.timers, d)
	k.mu.Unlock()
	select {
	case k.created <- struct{}{}:
	default:
	}
	return t
}

func (k *c40Clock) Ticker(d time.Duration) clock.Ticker { return k.Time.Ticker(d) }

func (k *c40Clock) timerList() []time.Duration {
	k.mu.Lock()
	defer k.mu.Unlock()
	return append([]time.Duration(nil), k.timers...)
}

type c40Ret struct {
	ok  bool
	err error
	at  time.Time // fake instant observed immediately after the call returned
	pv  any
	stk string
}

const (
	c40Margin   = time.Second      // the margin the code documents: timer := d + 1*time.Second
	c40Watchdog = 90 * time.Second // real-time watchdog; firing = inconclusive, never a verdict
	c40Settle   = 2 * time.Millisecond
)

// c40Flood runs one FloodWait call under the fake clock.
func c40Flood(c *mon.Ctx, r *rand.Rand, i int) {
	c.Eval(1)
	kinds := []string{tgerr.ErrFloodWait, tgerr.ErrPremiumFloodWait}
	kind := kinds[i%2]
	var n int
	switch i % 5 {
	case 0:
		n = []int{0, 1, 2, 3, 5, 30, 59, 60, 3600, 86400, 1<<31 - 1}[(i/5)%11]
	case 1:
		n = r.IntN(10)
	case 2:
		n = r.IntN(100000)
	default:
		n = int(r.Uint32() >> 1)
	}
	code := 420
	msg := fmt.Sprintf("%s_%d", kind, n)
	base := tgerr.New(code, msg)
	var ferr error = base
	wrap := ""
	switch (i / 2) % 3 {
	case 1:
		wrap = "fmt-%w"
		ferr = fmt.Errorf("invoke: %w", base)
	case 2:
		wrap = "double-%w"
		ferr = fmt.Errorf("outer: %w", fmt.Errorf("inner: %w", base))
	}
	arm := []string{"wait", "wait", "cancel"}[(i/7)%3]
	want := time.Duration(n)*time.Second + c40Margin

	start := time.Unix(1_700_000_000, 0)
	clk := newC40Clock(start)
	ctx, cancel := context.WithCancel(context.Background())
	defer cancel()
	done := make(chan c40Ret, 1)
	go func() {
		var ret c40Ret
		ret.pv, ret.stk = mon.Try(func() {
			ret.ok, ret.err = tgerr.FloodWait(ctx, ferr, tgerr.FloodWaitWithClock(clk))
		})
		ret.at = clk.Now()
		done <- ret
	}()
	w := map[string]any{"message": msg, "kind": kind, "n": n, "wrap": wrap, "arm": arm, "required_wait": want.String()}
	sigp := "floodwait|" + kind + "|"

	var early *c40Ret
	poll := func() bool { // non-blocking after a settle pause: a late event is only a missed observation
		time.Sleep(c40Settle)
		select {
		case ret := <-done:
			early = &ret
			return true
		default:
			return false
		}
	}
	// 1. the call must create its timer (or return); watchdog only.
	select {
	case <-clk.created:
	case ret := <-done:
		early = &ret
	case <-time.After(c40Watchdog):
		c.Inconclusive("c40: FloodWait neither created a timer nor returned within the watchdog")
		return
	}
	timers := clk.timerList()
	w["timers_created"] = fmt.Sprint(timers)
	if early == nil {
		if len(timers) != 1 {
			c.Inconclusive(fmt.Sprintf("c40: unexpected timers %v", timers))
			return
		}
		if timers[0] < want {
			c.Violate(sigp+"timer-shorter-than-n+margin", w)
		}
		// 2. walk the fake clock towards n s + margin in steps; the call must still be blocked.
		steps := []time.Duration{time.Duration(n) * time.Second / 2, time.Duration(n) * time.Second, want - time.Nanosecond}
		for _, at := range steps {
			clk.Set(start.Add(at))
			if poll() {
				break
			}
		}
	}
	elapsed := func(ret *c40Ret) time.Duration { return ret.at.Sub(start) }
	if early != nil {
		w["returned_at_fake_elapsed"] = elapsed(early).String()
		w["returned"] = fmt.Sprintf("(%v, %v)", early.ok, early.err)
		if early.pv != nil {
			w["panic"], w["stack"] = fmt.Sprint(early.pv), early.stk
			c.Violate(sigp+"panic", w)
			return
		}
		// fake time never passed want-1ns, so this return is before n s + margin by construction
		c.Violate(sigp+"returned-before-n+margin", w)
		return
	}
	if arm == "cancel" {
		cancel()
		select {
		case ret := <-done:
			w["returned"] = fmt.Sprintf("(%v, %v)", ret.ok, ret.err)
			switch {
			case ret.pv != nil:
				w["panic"], w["stack"] = fmt.Sprint(ret.pv), ret.stk
				c.Violate(sigp+"panic", w)
			case ret.ok || !errors.Is(ret.err, context.Canceled):
				c.Violate(sigp+"cancel-not-reported", w)
			}
		case <-time.After(c40Watchdog):
			c.Inconclusive("c40: FloodWait did not return after context cancellation within the watchdog")
			return
		}
		c.Distinct(fmt.Sprintf("flood/%s/%s/cancel/digits=%d", kind, wrap, len(strconv.Itoa(n))))
		return
	}
	// 3. reach n s + margin (or the longer duration the code asked for): the call must return (true, err).
	final := want
	if timers[0] > final {
		final = timers[0]
	}
	clk.Set(start.Add(final))
	select {
	case ret := <-done:
		w["returned_at_fake_elapsed"] = elapsed(&ret).String()
		w["returned"] = fmt.Sprintf("(%v, %v)", ret.ok, ret.err)
		switch {
		case ret.pv != nil:
			w["panic"], w["stack"] = fmt.Sprint(ret.pv), ret.stk
			c.Violate(sigp+"panic", w)
		case elapsed(&ret) < want:
			c.Violate(sigp+"returned-before-n+margin", w)
		case !ret.ok || ret.err != ferr:
			c.Violate(sigp+"did-not-return-true-and-the-error", w)
		}
		if i < 6 {
			c.Sample("floodwait", w)
		}
	case <-time.After(c40Watchdog):
		c.Inconclusive(fmt.Sprintf("c40: FloodWait(%s) did not return within the watchdog after the fake clock reached %v", msg, final))
		return
	}
	c.Distinct(fmt.Sprintf("flood/%s/%s/wait/digits=%d", kind, wrap, len(strconv.Itoa(n))))
}

func runC40(c *mon.Ctx) {
	relaxGC()
	c.Rule("(1) tgerr.New(code, msg) on messages built from 1..5 upper-case words ([A-Z]+ and words with digits inside such as 2FA, X509V3) and ONE decimal argument " +
		"0..2^31-1 at every position 0..k: Type must be the words joined by '_', Argument the number, Code/Message unchanged; the same with 1..5 leading zeros on the " +
		"argument is checked under signature prefix leading-zeros| (numeric value unambiguous); (2) crash-only shapes: no argument, two arguments, number only, " +
		"empty parts, signed / overflowing numbers, lower case, unicode digits, arbitrary byte strings — New, Error(), IsType, AsFloodWait must not panic; " +
		"(3) tgerr.FloodWait(ctx, err, FloodWaitWithClock(fake)) for FLOOD_WAIT_n / FLOOD_PREMIUM_WAIT_n (bare and %w-wrapped): the harness clock records the timer the call " +
		"creates (must be >= n s + 1 s), walks neo fake time to n/2, n and n+1s-1ns (call must still be blocked), then to n+1s (call must return (true, same err)); " +
		"cancellation arm: cancel before the deadline -> (false, context.Canceled); non-flood errors must return (false, err) without creating a timer. " +
		"(4) history arm (signature prefix history|): sequences mixing FloodWait calls with FloodWaitWithClock(A), with another fake clock B, without options (system clock, " +
		"FLOOD_WAIT_0) and concurrent A||B pairs, in both orders: every timer must be created on the clock of its own call (seen at the harness clock boundary), an option-less call must " +
		"not touch a fake clock nor return before 1 s of real time, advancing foreign clocks must not release a call. distinct non-trivial = distinct (words, position, word classes, digits of the argument, leading zeros) resp. (kind, wrapping, arm, digits)")
	c.Assume("the safety margin is the 1 s the code documents (timer := d + 1*time.Second); github.com/gotd/neo fake time is trusted")

	// ---- (1) structured messages ---------------------------------------------
	r := c.Rand("c40-msg")
	nm := c.N(200000, 20000000)
	for i := 0; i < nm; i++ {
		k := 1 + r.IntN(5)
		words := make([]string, k)
		classes := make([]byte, k)
		for j := range words {
			var cl string
			words[j], cl = c40Word(r)
			classes[j] = cl[0]
		}
		pos := i % (k + 1)
		n := c40Arg(r)
		zeros := 0
		if i%4 == 3 {
			zeros = 1 + r.IntN(5)
		}
		arg := strings.Repeat("0", zeros) + strconv.Itoa(n)
		parts := append(append(append([]string{}, words[:pos]...), arg), words[pos:]...)
		msg := strings.Join(parts, "_")
		code := []int{400, 420, 303, 500, 401, 406, -503, 0}[r.IntN(8)]
		wantType := strings.Join(words, "_")
		c.Eval(1)
		var e *tgerr.Error
		pv, stack := mon.Try(func() { e = tgerr.New(code, msg); _ = e.Error() })
		w := map[string]any{"code": code, "message": msg, "want_type": wantType, "want_argument": n}
		pre := ""
		if zeros > 0 {
			pre = "leading-zeros|"
		}
		switch {
		case pv != nil:
			w["panic"], w["stack"] = fmt.Sprint(pv), stack
			c.Violate(pre+"panic|structured", w)
		case e == nil:
			c.Violate(pre+"nil-error", w)
		default:
			w["got_type"], w["got_argument"] = e.Type, e.Argument
			if e.Type != wantType {
				c.Violate(pre+"type-mismatch", w)
			}
			if e.Argument != n {
				c.Violate(pre+"argument-mismatch", w)
			}
			if e.Code != code || e.Message != msg {
				c.Violate(pre+"code-or-message-changed", w)
			}
			if !e.IsType(wantType) || !tgerr.Is(e, wantType) || !tgerr.IsCode(e, code) {
				c.Violate(pre+"is-helpers-disagree", w)
			}
		}
		c.Distinct(fmt.Sprintf("msg/k=%d/pos=%d/%s/digits=%d/zeros=%v", k, pos, classes, len(strconv.Itoa(n)), zeros > 0))
		if i < 2 || i == 7 || i == 11 {
			c.Sample("structured", w)
		}
	}

	// ---- (2) crash-only shapes -------------------------------------------------
	r = c.Rand("c40-crash")
	nc := c.N(100000, 5000000)
	crashKinds := map[string]int{}
	for i := 0; i < nc; i++ {
		var msg, kind string
		w1, _ := c40Word(r)
		w2, _ := c40Word(r)
		switch i % 12 {
		case 0:
			kind, msg = "no-argument", w1+"_"+w2
		case 1:
			kind, msg = "two-arguments", fmt.Sprintf("%s_%d_%s_%d", w1, c40Arg(r), w2, c40Arg(r))
		case 2:
			kind, msg = "number-only", strconv.Itoa(c40Arg(r))
		case 3:
			kind, msg = "empty-parts", []string{"_", "__", "_" + w1, w1 + "_", w1 + "__5", "_5", "5_", w1 + "_5_", "___5___"}[r.IntN(9)]
		case 4:
			kind, msg = "overflow", w1+"_"+strings.Repeat("9", 10+r.IntN(40))
		case 5:
			kind, msg = "signed", w1+"_"+[]string{"-", "+"}[r.IntN(2)]+strconv.Itoa(c40Arg(r))
		case 6:
			kind, msg = "lower-case", strings.ToLower(w1)+"_"+strconv.Itoa(c40Arg(r))
		case 7:
			kind, msg = "unicode-digits", w1+"_"+[]string{"٣", "１２", "५", "²", "1٣", "١٢"}[r.IntN(6)]
		case 8:
			kind, msg = "empty", ""
		case 9:
			kind = "random-bytes"
			b := make([]byte, r.IntN(64))
			for j := range b {
				b[j] = byte(r.Uint32())
			}
			msg = string(b)
		case 10:
			kind = "random-ascii-with-underscores"
			b := make([]byte, r.IntN(48))
			for j := range b {
				b[j] = "_0123456789AZaz -."[r.IntN(18)]
			}
			msg = string(b)
		default:
			kind, msg = "flood-without-argument", []string{"FLOOD_WAIT", "FLOOD_WAIT_", "FLOOD_WAIT_X", "FLOOD_PREMIUM_WAIT", "FLOOD_WAIT_1_2", "FLOOD_TEST_PHONE_WAIT_5"}[r.IntN(6)]
		}
		c.Eval(1)
		pv, stack := mon.Try(func() {
			e := tgerr.New(r.IntN(600), msg)
			_ = e.Error()
			_ = e.IsType(msg)
			_, _ = tgerr.AsFloodWait(e)
			_, _ = tgerr.As(fmt.Errorf("w: %w", e))
			_ = tgerr.Is(e, "X")
		})
		if pv != nil {
			c.Violate("panic|"+kind, map[string]any{"message": msg, "panic": fmt.Sprint(pv), "stack": stack})
		}
		crashKinds[kind]++
		c.Distinct("crash/" + kind)
	}
	c.Set("crash_only_shapes", crashKinds)

	// ---- (4) history arm: clocks must not leak between calls ----------------------
	// (runs before arm 3 so that the only fake clocks this process has used so far are
	// the two the arm watches)
	c40HistoryArm(c)

	// ---- (3) flood wait timing --------------------------------------------------
	r = c.Rand("c40-flood")
	nf := c.N(500, 20000)
	for i := 0; i < nf; i++ {
		c40Flood(c, r, i)
	}
	// non-flood errors: immediate (false, err), no timer
	others := []error{
		tgerr.New(400, "PEER_ID_INVALID"), tgerr.New(420, "SLOWMODE_WAIT_30"), tgerr.New(420, "FLOOD_TEST_PHONE_WAIT_5"),
		tgerr.New(303, "USER_MIGRATE_2"), errors.New("FLOOD_WAIT_5"), fmt.Errorf("wrapped: %w", tgerr.New(500, "INTERNAL")), context.DeadlineExceeded,
	}
	for i, e := range others {
		c.Eval(1)
		clk := newC40Clock(time.Unix(1_700_000_000, 0))
		var (
			ok  bool
			err error
		)
		done := make(chan struct{})
		var pv any
		go func() {
			pv, _ = mon.Try(func() { ok, err = tgerr.FloodWait(context.Background(), e, tgerr.FloodWaitWithClock(clk)) })
			close(done)
		}()
		select {
		case <-done:
			w := map[string]any{"error": e.Error(), "returned": fmt.Sprintf("(%v, %v)", ok, err), "timers_created": fmt.Sprint(clk.timerList())}
			if pv != nil {
				w["panic"] = fmt.Sprint(pv)
				c.Violate("floodwait|non-flood|panic", w)
			} else if ok || err != e {
				c.Violate("floodwait|non-flood|not-(false,err)", w)
			}
			c.Distinct(fmt.Sprintf("flood/non-flood/%d", i))
		case <-time.After(c40Watchdog):
			c.Inconclusive("c40: FloodWait on a non-flood error did not return within the watchdog: " + e.Error())
		}
	}
}
