package main

import (
	"fmt"
	"math/rand/v2"
	"reflect"
	"runtime"
	"sync"

	"github.com/gotd/td/fileid"

	"verif/harness/mon"
)

// History arm of C38: EncodeFileID / DecodeFileID are pure functions, so a
// value obtained from an earlier call must not change when later calls are
// made (sequentially or from other goroutines), and Encode must not modify its
// argument.

type c38Kept struct {
	want    fileid.FileID // private deep copy of the original id, never handed to the library
	encoded string
	decoded fileid.FileID // the value DecodeFileID returned, kept alive
	step    int
}

func c38DeepCopy(id fileid.FileID) fileid.FileID {
	if id.FileReference != nil {
		id.FileReference = append([]byte{}, id.FileReference...)
	}
	return id
}

// c38HistID: ids whose references differ a lot from one to the next.
func c38HistID(r *rand.Rand) fileid.FileID {
	var ref []byte
	switch r.IntN(8) {
	case 0:
		// no reference
	case 1:
		ref = make([]byte, 254+r.IntN(200)) // long TL form
	default:
		ref = make([]byte, 1+r.IntN(90))
	}
	for j := range ref {
		ref[j] = byte(r.Uint32())
		if r.IntN(6) == 0 {
			ref[j] = 0
		}
	}
	return c38ID(r, ref, -1, -1, -1)
}

// c38HistoryArm runs the sequential history monitor with a window of 8 values.
func c38HistoryArm(c *mon.Ctx) {
	const window = 8
	r := c.Rand("c38-history")
	n := c.N(20000, 2000000)
	var ring []c38Kept
	changed := 0
	for i := 0; i < n; i++ {
		id := c38HistID(r)
		want := c38DeepCopy(id)
		c.Eval(1)
		var (
			s    string
			got  fileid.FileID
			eerr error
			derr error
		)
		pv, stack := mon.Try(func() {
			s, eerr = fileid.EncodeFileID(id)
			if eerr == nil {
				got, derr = fileid.DecodeFileID(s)
			}
		})
		if pv != nil {
			c.Violate("history|panic|"+c38PanicSig(pv), map[string]any{"id": c38Witness(want), "panic": fmt.Sprint(pv), "stack": stack})
			continue
		}
		if !reflect.DeepEqual(c38Norm(id), c38Norm(want)) {
			c.Violate("history|encode-or-decode-modified-its-argument", map[string]any{"before": c38Witness(want), "after": c38Witness(id)})
		}
		if eerr != nil || derr != nil || !reflect.DeepEqual(c38Norm(got), c38Norm(want)) {
			// a plain round-trip failure: the round-trip arms own that verdict
			c38RoundTrip(c, "history/fresh", want)
			continue
		}
		// in between, sometimes decode garbage / a foreign valid id (results dropped)
		switch i % 5 {
		case 1:
			mon.Try(func() { _, _ = fileid.DecodeFileID("AAAA" + s) })
		case 3:
			other, _ := fileid.EncodeFileID(c38HistID(r))
			mon.Try(func() { _, _ = fileid.DecodeFileID(other) })
		}
		ring = append(ring, c38Kept{want: want, encoded: s, decoded: got, step: i})
		if len(ring) > window {
			ring = ring[1:]
		}
		// re-inspect every value still held
		for _, k := range ring {
			if !reflect.DeepEqual(c38Norm(k.decoded), c38Norm(k.want)) {
				changed++
				c.Violate("history|earlier-decoded-value-changed", map[string]any{
					"decoded_at_step": k.step, "inspected_at_step": i, "calls_in_between": i - k.step,
					"encoded": k.encoded, "value_when_decoded": c38Witness(k.want), "value_now": c38Witness(k.decoded),
				})
				continue
			}
			// re-encoding the kept value must still give the kept string, decoding the kept string the kept value
			if i%4 == 0 {
				var s2 string
				var g2 fileid.FileID
				var e1, e2 error
				mon.Try(func() { s2, e1 = fileid.EncodeFileID(k.decoded); g2, e2 = fileid.DecodeFileID(k.encoded) })
				if e1 != nil || e2 != nil || s2 != k.encoded || !reflect.DeepEqual(c38Norm(g2), c38Norm(k.want)) {
					c.Violate("history|kept-value-no-longer-round-trips", map[string]any{"encoded_then": k.encoded, "encoded_now": s2, "want": c38Witness(k.want), "decoded_now": c38Witness(g2)})
				}
			}
		}
		c.Distinct(fmt.Sprintf("history/seq/ref=%s/web=%v", c38RefKind(want.FileReference), want.URL != ""))
		if i == 20 {
			c.Sample("history", map[string]any{"held_values": len(ring), "latest": c38Witness(want), "encoded": s})
		}
	}
	c.Set("history_sequential_steps", n)
	c.Set("history_values_changed", changed)

	// ---- concurrent: several goroutines round-trip different ids -------------
	const workers = 6
	per := c.N(6000, 300000)
	prev := runtime.GOMAXPROCS(workers)
	defer runtime.GOMAXPROCS(prev)
	var wg sync.WaitGroup
	for g := 0; g < workers; g++ {
		wg.Add(1)
		go func(g int) {
			defer wg.Done()
			r := c.RandN("c38-history-conc", g)
			var ring []c38Kept
			for i := 0; i < per; i++ {
				id := c38HistID(r)
				want := c38DeepCopy(id)
				var (
					s   string
					got fileid.FileID
					err error
				)
				pv, stack := mon.Try(func() {
					if s, err = fileid.EncodeFileID(id); err == nil {
						got, err = fileid.DecodeFileID(s)
					}
				})
				c.Eval(1)
				if pv != nil {
					c.Violate("history|concurrent|panic|"+c38PanicSig(pv), map[string]any{"id": c38Witness(want), "panic": fmt.Sprint(pv), "stack": stack})
					continue
				}
				if i%16 == 0 {
					runtime.Gosched()
				}
				if err != nil || !reflect.DeepEqual(c38Norm(got), c38Norm(want)) {
					// sequentially this id round-trips (checked below): then the failure is interference
					var g2 fileid.FileID
					var e2 error
					mon.Try(func() { g2, e2 = fileid.DecodeFileID(s) })
					if e2 == nil && reflect.DeepEqual(c38Norm(g2), c38Norm(want)) {
						c.Violate("history|concurrent|decoded-value-differs-from-its-own-retry", map[string]any{"goroutine": g, "step": i, "encoded": s, "want": c38Witness(want), "got": c38Witness(got), "error": fmt.Sprint(err)})
					}
					continue
				}
				ring = append(ring, c38Kept{want: want, encoded: s, decoded: got, step: i})
				if len(ring) > 4 {
					ring = ring[1:]
				}
				for _, k := range ring {
					if !reflect.DeepEqual(c38Norm(k.decoded), c38Norm(k.want)) {
						c.Violate("history|concurrent|earlier-decoded-value-changed", map[string]any{
							"goroutine": g, "decoded_at_step": k.step, "inspected_at_step": i, "encoded": k.encoded,
							"value_when_decoded": c38Witness(k.want), "value_now": c38Witness(k.decoded),
						})
					}
				}
			}
			c.Distinct(fmt.Sprintf("history/concurrent/goroutine=%d", g))
		}(g)
	}
	wg.Wait()
	c.Set("history_concurrent_goroutines", workers)
	c.Set("history_concurrent_steps_each", per)
}
