package main

import (
	"bytes"
	"encoding/base64"
	"encoding/hex"
	"encoding/json"
	"fmt"
	"math/rand/v2"
	"reflect"
	"regexp"
	"strings"

	"github.com/gotd/td/bin"
	"github.com/gotd/td/constant"
	"github.com/gotd/td/fileid"

	"verif/harness/mon"
)

// ---------------------------------------------------------------------------
// C38 — Bot-API file ids round-trip for every file id value; decoding any
// string never panics.
// ---------------------------------------------------------------------------

const (
	c38Types    = int(fileid.DocumentAsFile) + 1
	c38PSSTypes = int(fileid.PhotoSizeSourceStickerSetThumbnailVersion) + 1
)

func c38PhotoType(t fileid.Type) bool {
	return t == fileid.Thumbnail || t == fileid.Photo || t == fileid.ProfilePhoto
}

var c38Ext64 = []int64{0, 1, -1, 1<<63 - 1, -1 << 63, 0x0100000000000000, 0x00000000000000ff, 0x0000ff0000000000, 255, 256, 1 << 32}

func c38Int64(r *rand.Rand) int64 {
	switch r.IntN(5) {
	case 0:
		return c38Ext64[r.IntN(len(c38Ext64))]
	case 1:
		return int64(r.Uint32()) // upper half zero
	case 2:
		return int64(r.Uint64() &^ 0xffffffff) // lower half zero
	}
	return int64(r.Uint64())
}

func c38Int32(r *rand.Rand) int32 {
	switch r.IntN(4) {
	case 0:
		return []int32{0, 1, -1, 1<<31 - 1, -1 << 31, 255, 256, 1 << 24}[r.IntN(8)]
	case 1:
		return int32(r.IntN(1 << 16))
	}
	return int32(r.Uint32())
}

func c38NonZero(r *rand.Rand, n int) []byte {
	b := make([]byte, n)
	for i := range b {
		b[i] = byte(1 + r.IntN(255))
	}
	return b
}

// c38PSS returns a canonical photo size source of the given kind: exactly the
// fields the kind carries on the wire are set, everything else stays zero
// (fields that the format does not carry cannot round-trip by construction and
// are outside "file id value").
func c38PSS(r *rand.Rand, kind int) fileid.PhotoSizeSource {
	p := fileid.PhotoSizeSource{Type: fileid.PhotoSizeSourceType(kind)}
	dialog := func() {
		p.DialogID = constant.TDLibPeerID(c38Int64(r))
		p.DialogAccessHash = c38Int64(r)
	}
	sticker := func() {
		p.StickerSetID = c38Int64(r)
		p.StickerSetAccessHash = c38Int64(r)
	}
	local := func() {
		p.VolumeID = c38Int64(r)
		p.LocalID = int(c38Int32(r))
	}
	switch p.Type {
	case fileid.PhotoSizeSourceLegacy:
		p.Secret = c38Int64(r)
	case fileid.PhotoSizeSourceThumbnail:
		p.FileType = fileid.Type(r.IntN(c38Types))
		if r.IntN(2) == 0 {
			p.ThumbnailType = rune("abcdmswxy"[r.IntN(9)])
		} else {
			p.ThumbnailType = c38Int32(r)
		}
	case fileid.PhotoSizeSourceDialogPhotoBig, fileid.PhotoSizeSourceDialogPhotoSmall:
		dialog()
	case fileid.PhotoSizeSourceStickerSetThumbnail:
		sticker()
	case fileid.PhotoSizeSourceFullLegacy:
		p.Secret = c38Int64(r)
		local()
	case fileid.PhotoSizeSourceDialogPhotoBigLegacy, fileid.PhotoSizeSourceDialogPhotoSmallLegacy:
		dialog()
		local()
	case fileid.PhotoSizeSourceStickerSetThumbnailLegacy:
		sticker()
		local()
	case fileid.PhotoSizeSourceStickerSetThumbnailVersion:
		sticker()
		p.StickerVersion = c38Int32(r)
	}
	return p
}

var c38URLs = []string{
	"https://example.com/a.png", "http://t.me/x", "https://xn--e1afmkfd.xn--p1ai/%D1%84?q=1&b=2#frag",
	"https://пример.рф/файл.jpg", "a", "ftp://u:p@h:21/p",
}

func c38URL(r *rand.Rand) string {
	switch r.IntN(3) {
	case 0:
		return c38URLs[r.IntN(len(c38URLs))]
	case 1:
		// long URL (TL long-string form, > 253 bytes)
		return "https://example.com/" + strings.Repeat("p/", 100+r.IntN(200)) + fmt.Sprint(r.Uint32())
	}
	n := 1 + r.IntN(60)
	b := make([]byte, n)
	for i := range b {
		b[i] = byte(0x21 + r.IntN(0x5e))
	}
	return string(b)
}

// c38ID builds a canonical file id around a given file reference.
// typ < 0 / pss < 0 / web < 0 mean "random".
func c38ID(r *rand.Rand, ref []byte, typ, pss, web int) fileid.FileID {
	if typ < 0 {
		typ = r.IntN(c38Types)
	}
	id := fileid.FileID{Type: fileid.Type(typ), FileReference: ref}
	switch r.IntN(4) {
	case 0:
		id.DC = int(r.Uint32() >> 1) // any non-negative 31-bit value
	default:
		id.DC = 1 + r.IntN(5)
	}
	if web < 0 {
		web = 0
		if r.IntN(6) == 0 {
			web = 1
		}
	}
	if web == 1 {
		// Web-location ids carry only type, dc, reference and URL.
		id.URL = c38URL(r)
		return id
	}
	id.ID = c38Int64(r)
	id.AccessHash = c38Int64(r)
	if c38PhotoType(id.Type) {
		if pss < 0 {
			pss = r.IntN(c38PSSTypes)
		}
		id.PhotoSizeSource = c38PSS(r, pss)
	}
	return id
}

// c38Serialize is the harness's own transcription of the pre-RLE byte layout.
// It is used ONLY to classify witnesses (longest zero run that reaches the RLE
// layer) and to build hostile inputs; verdicts never depend on it.
func c38Serialize(id fileid.FileID) []byte {
	var b bin.Buffer
	t := uint32(id.Type)
	if id.URL != "" {
		t |= 1 << 24
	}
	if len(id.FileReference) != 0 {
		t |= 1 << 25
	}
	b.PutUint32(t)
	b.PutUint32(uint32(id.DC))
	if len(id.FileReference) != 0 {
		b.PutBytes(id.FileReference)
	}
	if id.URL != "" {
		b.PutString(id.URL)
		return append(b.Buf, 4)
	}
	b.PutLong(id.ID)
	b.PutLong(id.AccessHash)
	if c38PhotoType(id.Type) {
		p := id.PhotoSizeSource
		b.PutInt(int(p.Type))
		dialog := func() { b.PutLong(int64(p.DialogID)); b.PutLong(p.DialogAccessHash) }
		sticker := func() { b.PutLong(p.StickerSetID); b.PutLong(p.StickerSetAccessHash) }
		local := func() { b.PutLong(p.VolumeID); b.PutInt(p.LocalID) }
		switch p.Type {
		case fileid.PhotoSizeSourceLegacy:
			b.PutLong(p.Secret)
		case fileid.PhotoSizeSourceThumbnail:
			b.PutUint32(uint32(p.FileType))
			b.PutInt32(p.ThumbnailType)
		case fileid.PhotoSizeSourceDialogPhotoBig, fileid.PhotoSizeSourceDialogPhotoSmall:
			dialog()
		case fileid.PhotoSizeSourceStickerSetThumbnail:
			sticker()
		case fileid.PhotoSizeSourceFullLegacy:
			b.PutLong(p.VolumeID)
			b.PutLong(p.Secret)
			b.PutInt(p.LocalID)
		case fileid.PhotoSizeSourceDialogPhotoBigLegacy, fileid.PhotoSizeSourceDialogPhotoSmallLegacy:
			dialog()
			local()
		case fileid.PhotoSizeSourceStickerSetThumbnailLegacy:
			sticker()
			local()
		case fileid.PhotoSizeSourceStickerSetThumbnailVersion:
			sticker()
			b.PutInt32(p.StickerVersion)
		}
	}
	return append(b.Buf, 34, 4)
}

func c38MaxZeroRun(b []byte) int {
	best, cur := 0, 0
	for _, x := range b {
		if x == 0 {
			cur++
			if cur > best {
				best = cur
			}
		} else {
			cur = 0
		}
	}
	return best
}

// c38RLEEncode / c38RLEDecode: harness reference of the Bot-API RLE (zero runs
// as 0,count with count 1..255), used to craft hostile inputs and to find the
// sub-version byte of a hostile input.
func c38RLEEncode(s []byte) []byte {
	var r []byte
	run := 0
	flush := func() {
		for run > 0 {
			n := run
			if n > 255 {
				n = 255
			}
			r = append(r, 0, byte(n))
			run -= n
		}
	}
	for _, x := range s {
		if x == 0 {
			run++
			continue
		}
		flush()
		r = append(r, x)
	}
	flush()
	return r
}

func c38RLEDecode(s []byte) []byte {
	var r []byte
	for i := 0; i < len(s); i++ {
		if s[i] == 0 {
			if i+1 < len(s) {
				r = append(r, make([]byte, int(s[i+1]))...)
				i++
			} else {
				r = append(r, 0)
			}
			continue
		}
		r = append(r, s[i])
	}
	return r
}

func c38RunClass(id fileid.FileID) string {
	if c38MaxZeroRun(c38Serialize(id)) >= 256 {
		return "zero-run>=256"
	}
	return "zero-run<256"
}

func c38Norm(id fileid.FileID) fileid.FileID {
	if len(id.FileReference) == 0 {
		id.FileReference = nil
	}
	return id
}

func c38Witness(id fileid.FileID) map[string]any {
	w := map[string]any{
		"type": int(id.Type), "dc": id.DC, "id": id.ID, "access_hash": id.AccessHash,
		"file_reference_hex": hex.EncodeToString(id.FileReference), "file_reference_len": len(id.FileReference),
		"file_reference_max_zero_run": c38MaxZeroRun(id.FileReference),
		"url":                         id.URL,
		"max_zero_run_before_rle":     c38MaxZeroRun(c38Serialize(id)),
	}
	if p, err := json.Marshal(id.PhotoSizeSource); err == nil {
		w["photo_size_source"] = json.RawMessage(p)
	}
	return w
}

var c38Digits = regexp.MustCompile(`[0-9]+`)

func c38PanicSig(pv any) string {
	s := fmt.Sprint(pv)
	if i := strings.IndexByte(s, '\n'); i >= 0 {
		s = s[:i]
	}
	s = c38Digits.ReplaceAllString(s, "N")
	if len(s) > 80 {
		s = s[:80]
	}
	return s
}

// c38RoundTrip is the monitor: Encode then Decode must give an equal id.
func c38RoundTrip(c *mon.Ctx, class string, id fileid.FileID) (ok bool) {
	c.Eval(1)
	var (
		s         string
		eerr      error
		derr      error
		got       fileid.FileID
		decodeRan bool
	)
	pv, stack := mon.Try(func() {
		s, eerr = fileid.EncodeFileID(id)
		if eerr == nil {
			decodeRan = true
			got, derr = fileid.DecodeFileID(s)
		}
	})
	fail := func(sig string, extra map[string]any) {
		w := c38Witness(id)
		w["class"] = class
		w["encoded"] = s
		for k, v := range extra {
			w[k] = v
		}
		c.Violate(sig, w)
	}
	switch {
	case pv != nil:
		stage := "encode"
		if decodeRan {
			stage = "decode-of-encoded"
		}
		fail("panic|"+stage+"|"+c38PanicSig(pv), map[string]any{"panic": fmt.Sprint(pv), "stack": stack})
	case eerr != nil:
		fail("roundtrip|encode-error|"+c38RunClass(id), map[string]any{"error": eerr.Error()})
	case derr != nil:
		fail("roundtrip|decode-error|"+c38RunClass(id), map[string]any{"error": derr.Error()})
	case !reflect.DeepEqual(c38Norm(id), c38Norm(got)):
		g := c38Witness(got)
		fail("roundtrip|different-id|"+c38RunClass(id), map[string]any{"decoded": g})
	default:
		return true
	}
	return false
}

func c38RefKind(ref []byte) string {
	switch n := len(ref); {
	case n == 0:
		return "none"
	case n < 254:
		return "short"
	default:
		return "long"
	}
}

func runC38(c *mon.Ctx) {
	relaxGC()
	c.Rule("(1) EXHAUSTIVE zero-run sweep: for every run length L in 0..1100 and every placement in {only, leading, trailing, middle, double, sparse} a file reference " +
		"with a zero run of length L is put into file ids of varying type/dc/ids/web-location and Encode->Decode must return an equal id; " +
		"(2) random canonical ids over every Type (18) x PhotoSizeSource kind (10) x web/non-web x reference shape; canonical = only the fields the wire format carries for " +
		"that kind are set, DC in 0..2^31-1, LocalID in int32; (3) hostile strings through DecodeFileID (mutated valid ids, crafted pre-RLE buffers with every version / sub-version / " +
		"photo-size kind incl. out-of-range, huge length prefixes, dangling RLE zero, base64 garbage, non-base64 text): any panic is a violation, and an id that decodes from a " +
		"sub-version >= 32 or web-location input is itself re-encoded and must round-trip (signature prefix reencode|); (4) a child-process batch of large RLE expansion inputs " +
		"(fatal errors); (5) history arm (signature prefix history|): the last 8 decoded values and their strings are kept alive and re-inspected after every later " +
		"Encode/Decode call (incl. decodes of garbage and of foreign ids), arguments must not be modified, and 6 goroutines round-trip different ids concurrently, each re-inspecting " +
		"its last 4 results — the functions are pure, a result must not depend on other calls. distinct non-trivial = distinct (arm, type, pss kind, web, reference shape / run length / hostile mutation, outcome)")
	c.Assume("equality is reflect.DeepEqual after mapping an empty file reference to nil; FileID values whose non-wire fields are set (e.g. ID together with URL, " +
		"PhotoSize string, negative DC) are outside the domain")
	c.Assume("harness transcription of the pre-RLE layout (c38Serialize + reference RLE) is used to classify witnesses and to craft hostile inputs; the only verdict that " +
		"depends on it is signature decode-of-reference-encoding| (a canonical id serialised by the harness must decode to itself), all round-trip verdicts use the real encoder only")

	// ---- (1) exhaustive zero-run sweep ---------------------------------------
	r := c.Rand("c38-sweep")
	placements := []string{"only", "leading", "trailing", "middle", "double", "sparse"}
	const maxRun = 1100
	sweepFail := map[int]bool{}
	for L := 0; L <= maxRun; L++ {
		for _, pl := range placements {
			var ref []byte
			z := make([]byte, L)
			switch pl {
			case "only":
				ref = z
			case "leading":
				ref = append(append([]byte{}, z...), c38NonZero(r, 1+r.IntN(12))...)
			case "trailing":
				ref = append(c38NonZero(r, 1+r.IntN(12)), z...)
			case "middle":
				ref = append(append(c38NonZero(r, 1+r.IntN(12)), z...), c38NonZero(r, 1+r.IntN(12))...)
			case "double":
				ref = append(append(append([]byte{}, z...), byte(1+r.IntN(255))), z...)
			case "sparse":
				// run of L, one byte, then a short run: exercises run restart after a long run
				ref = append(append(append(c38NonZero(r, 2), z...), 0xfe), make([]byte, 1+r.IntN(5))...)
				ref = append(ref, c38NonZero(r, 1)...)
			}
			reps := 2
			for k := 0; k < reps; k++ {
				id := c38ID(r, ref, -1, -1, k%2*(-1)) // k=0: non-web, k=1: random web
				if !c38RoundTrip(c, "sweep/"+pl, id) {
					sweepFail[L] = true
				}
			}
			c.Distinct(fmt.Sprintf("sweep/%s/L=%d", pl, L))
		}
	}
	c.Set("zero_run_lengths_swept", maxRun+1)
	c.Set("zero_run_placements", len(placements))
	if len(sweepFail) > 0 {
		var ls []int
		for L := 0; L <= maxRun; L++ {
			if sweepFail[L] {
				ls = append(ls, L)
			}
		}
		c.Set("zero_run_lengths_failing_count", len(ls))
		if len(ls) > 40 {
			ls = ls[:40]
		}
		c.Set("zero_run_lengths_failing_first", ls)
	}
	c.Exhaustive(true)

	// ---- (2) random canonical ids -------------------------------------------
	r = c.Rand("c38-random")
	n := c.N(60000, 6000000)
	for i := 0; i < n; i++ {
		var ref []byte
		shape := ""
		switch r.IntN(10) {
		case 0, 1, 2:
			shape = "nil"
			if r.IntN(4) == 0 {
				ref = []byte{}
			}
		case 3, 4, 5, 6:
			shape = "random"
			ref = make([]byte, 1+r.IntN(64))
			for j := range ref {
				ref[j] = byte(r.Uint32())
			}
		case 7, 8:
			shape = "mostly-zero"
			ref = make([]byte, 1+r.IntN(250))
			for j := 0; j < len(ref)/8; j++ {
				ref[r.IntN(len(ref))] = byte(r.Uint32())
			}
		default:
			shape = "long"
			ref = make([]byte, 254+r.IntN(500))
			for j := range ref {
				if r.IntN(3) > 0 {
					ref[j] = byte(r.Uint32())
				}
			}
		}
		// cycle deterministically through type x pss so every combination is hit
		typ := i % c38Types
		pss := (i / c38Types) % c38PSSTypes
		id := c38ID(r, ref, typ, pss, -1)
		ok := c38RoundTrip(c, "random/"+shape, id)
		key := fmt.Sprintf("random/type=%d/web=%v/ref=%s/%v", typ, id.URL != "", shape, ok)
		if c38PhotoType(id.Type) && id.URL == "" {
			key += fmt.Sprintf("/pss=%d", pss)
		}
		c.Distinct(key)
		if i < 3 || (i%9973 == 0) {
			s, _ := fileid.EncodeFileID(id)
			c.Sample("roundtrip", map[string]any{"id": c38Witness(id), "encoded": s})
		}
	}

	// ---- (3) hostile strings -------------------------------------------------
	r = c.Rand("c38-hostile")
	nh := c.N(100000, 10000000)
	b64 := base64.RawURLEncoding
	const alphabet = "ABCDEFGHIJKLMNOPQRSTUVWXYZabcdefghijklmnopqrstuvwxyz0123456789-_"
	var decodedOK, reencoded int64
	for i := 0; i < nh; i++ {
		var ref []byte
		if r.IntN(3) > 0 {
			ref = make([]byte, r.IntN(40))
			for j := range ref {
				if r.IntN(4) > 0 {
					ref[j] = byte(r.Uint32())
				}
			}
		}
		base := c38ID(r, ref, -1, -1, -1)
		raw := c38Serialize(base) // pre-RLE, ends with [subversion,] version
		var in string
		mut := ""
		switch r.IntN(14) {
		case 0:
			mut = "b64-char-flip"
			s := []byte(b64.EncodeToString(c38RLEEncode(raw)))
			for k := 1 + r.IntN(3); k > 0 && len(s) > 0; k-- {
				s[r.IntN(len(s))] = alphabet[r.IntN(64)]
			}
			in = string(s)
		case 1:
			mut = "b64-truncate"
			s := b64.EncodeToString(c38RLEEncode(raw))
			in = s[:r.IntN(len(s)+1)]
		case 2:
			mut = "b64-extend"
			s := []byte(b64.EncodeToString(c38RLEEncode(raw)))
			for k := 1 + r.IntN(8); k > 0; k-- {
				s = append(s, alphabet[r.IntN(64)])
			}
			in = string(s)
		case 3:
			mut = "version-byte"
			raw[len(raw)-1] = []byte{0, 1, 2, 3, 4, 5, 255, byte(r.Uint32())}[r.IntN(8)]
			in = b64.EncodeToString(c38RLEEncode(raw))
		case 4:
			mut = "sub-version"
			if len(raw) >= 2 {
				raw[len(raw)-2] = []byte{0, 1, 3, 4, 5, 21, 22, 23, 31, 32, 33, 34, 35, 255}[r.IntN(14)]
			}
			in = b64.EncodeToString(c38RLEEncode(raw))
		case 5:
			mut = "legacy-layout"
			// sub-version < 32 makes the decoder read volume_id (and secret/local_id) first:
			// give it a body of random length after the fixed header
			body := make([]byte, r.IntN(48))
			for j := range body {
				body[j] = byte(r.Uint32())
			}
			hdr := raw[:8]
			sub := byte(r.IntN(36))
			raw = append(append(append(append([]byte{}, hdr...), make([]byte, 16)...), body...), sub, 4)
			in = b64.EncodeToString(c38RLEEncode(raw))
		case 6:
			mut = "type-word"
			// any type id incl. unknown types and both flags
			t := uint32(r.IntN(24)) | uint32(r.IntN(4))<<24
			if r.IntN(8) == 0 {
				t = r.Uint32()
			}
			raw[0], raw[1], raw[2], raw[3] = byte(t), byte(t>>8), byte(t>>16), byte(t>>24)
			in = b64.EncodeToString(c38RLEEncode(raw))
		case 7:
			mut = "pss-kind"
			if c38PhotoType(base.Type) && base.URL == "" {
				off := len(raw) - 2
				// find the pss type word: it follows id+access_hash; recompute from layout
				hdr := 8
				if len(base.FileReference) != 0 {
					var bb bin.Buffer
					bb.PutBytes(base.FileReference)
					hdr += len(bb.Buf)
				}
				p := hdr + 16
				if p+4 <= off {
					v := uint32(int32(r.IntN(16) - 3))
					if r.IntN(6) == 0 {
						v = r.Uint32()
					}
					raw[p], raw[p+1], raw[p+2], raw[p+3] = byte(v), byte(v>>8), byte(v>>16), byte(v>>24)
				}
			}
			in = b64.EncodeToString(c38RLEEncode(raw))
		case 8:
			mut = "length-prefix"
			// reference flag with a huge / inconsistent TL bytes length
			t := uint32(base.Type) | 1<<25
			pre := []byte{byte(t), byte(t >> 8), byte(t >> 16), byte(t >> 24), 2, 0, 0, 0}
			var lp []byte
			switch r.IntN(4) {
			case 0:
				lp = []byte{0xfe, 0xff, 0xff, 0xff}
			case 1:
				lp = []byte{0xfe, byte(r.Uint32()), byte(r.Uint32()), byte(r.Uint32())}
			case 2:
				lp = []byte{0xff, 1, 2, 3}
			default:
				lp = []byte{byte(r.IntN(254))}
			}
			tail := make([]byte, r.IntN(40))
			for j := range tail {
				tail[j] = byte(r.Uint32())
			}
			raw = append(append(append(pre, lp...), tail...), 34, 4)
			in = b64.EncodeToString(c38RLEEncode(raw))
		case 9:
			mut = "rle-stream-mutation"
			e := c38RLEEncode(raw)
			switch r.IntN(4) {
			case 0: // dangling zero at the end
				e = append(e, 0)
			case 1: // zero-length run (0,0)
				p := r.IntN(len(e) + 1)
				e = append(append(append([]byte{}, e[:p]...), 0, 0), e[p:]...)
			case 2: // inserted big runs
				p := r.IntN(len(e) + 1)
				e = append(append(append([]byte{}, e[:p]...), 0, 255, 0, byte(r.Uint32())), e[p:]...)
			default: // drop a byte: shifts pair alignment
				p := r.IntN(len(e))
				e = append(append([]byte{}, e[:p]...), e[p+1:]...)
			}
			in = b64.EncodeToString(e)
		case 10:
			mut = "truncated-body"
			cut := r.IntN(len(raw))
			raw = append(append([]byte{}, raw[:cut]...), 34, 4)
			in = b64.EncodeToString(c38RLEEncode(raw))
		case 11:
			mut = "random-bytes"
			g := make([]byte, r.IntN(80))
			for j := range g {
				g[j] = byte(r.Uint32())
			}
			if r.IntN(2) == 0 && len(g) > 0 {
				g[len(g)-1] = 4
			}
			in = b64.EncodeToString(g)
		case 12:
			mut = "non-base64-text"
			g := make([]byte, r.IntN(40))
			for j := range g {
				g[j] = byte(r.IntN(256))
			}
			in = string(g)
			if r.IntN(4) == 0 {
				in = []string{"", "=", "====", "A", "AA", "AAA", " ", "\x00", "AAAA=", "BQACAgIAAxkBAAEK"}[r.IntN(10)]
			}
		default:
			mut = "valid"
			in = b64.EncodeToString(c38RLEEncode(raw))
		}
		c.Eval(1)
		var (
			got fileid.FileID
			err error
		)
		pv, stack := mon.Try(func() { got, err = fileid.DecodeFileID(in) })
		if pv != nil {
			c.Violate("panic|decode|"+mut+"|"+c38PanicSig(pv), map[string]any{"input": in, "mutation": mut, "panic": fmt.Sprint(pv), "stack": stack})
			continue
		}
		c.Distinct(fmt.Sprintf("hostile/%s/ok=%v", mut, err == nil))
		if err != nil {
			if i%20011 == 0 {
				c.Sample("hostile-rejected", map[string]any{"mutation": mut, "input": in, "error": err.Error()})
			}
			continue
		}
		decodedOK++
		if mut == "valid" && !reflect.DeepEqual(c38Norm(base), c38Norm(got)) {
			// a correctly RLE-encoded (by the harness reference encoder) canonical id must decode to itself
			c.Violate("decode-of-reference-encoding|different-id|"+c38RunClass(base), map[string]any{"input": in, "want": c38Witness(base), "got": c38Witness(got)})
		}
		// the decoded value is a file id value: it must itself round-trip, unless it came
		// from a legacy sub-version (< 32) whose extra fields the latest layout does not carry.
		if data, derr := b64.DecodeString(in); derr == nil {
			pre := c38RLEDecode(data)
			modern := got.URL != "" || (len(pre) >= 2 && pre[len(pre)-2] >= 32)
			if modern {
				reencoded++
				if !c38RoundTrip(c, "reencode/"+mut, got) {
					continue
				}
			}
		}
		if i%20011 == 1 {
			c.Sample("hostile-accepted", map[string]any{"mutation": mut, "input": in, "decoded": c38Witness(got)})
		}
	}
	c.Set("hostile_inputs", nh)
	c.Set("hostile_decoded_ok", decodedOK)
	c.Set("hostile_reencoded", reencoded)
	if decodedOK == 0 {
		c.Inconclusive("no hostile input decoded successfully: generator broken")
	}

	// ---- (3b) history arm: earlier results must survive later calls ----------
	c38HistoryArm(c)

	// ---- (4) large RLE expansions in a child process ------------------------
	var big [][]byte
	r = c.Rand("c38-big")
	for _, pairs := range []int{1000, 20000, 60000} {
		e := bytes.Repeat([]byte{0, 255}, pairs)
		big = append(big, []byte(b64.EncodeToString(append(e, 34, 4))))
		// valid header followed by a giant zero reference claimed by a long length prefix
		hdr := c38RLEEncode([]byte{byte(fileid.Document), 0, 0, 2 /* reference flag */, 2, 0, 0, 0 /* dc */, 0xfe, 0xff, 0xff, 0x0f /* 256 MiB claimed */})
		big = append(big, []byte(b64.EncodeToString(append(append(hdr, e...), 34, 4))))
	}
	for k := 0; k < 6; k++ {
		g := make([]byte, 200000+r.IntN(400000))
		for j := range g {
			g[j] = byte(r.Uint32())
			if r.IntN(3) == 0 {
				g[j] = 0
			}
		}
		big = append(big, []byte(b64.EncodeToString(g)))
	}
	outs := mon.RunBatch(c, "c38-decode", "big", big, mon.BatchOpts{MemLimitMB: 2048})
	for _, o := range outs {
		c.Eval(1)
		if o.Class != "ok" {
			if o.Class == "timeout" || o.Class == "missing" {
				c.Inconclusive("c38 big batch: input " + fmt.Sprint(o.Index) + " class " + o.Class)
				continue
			}
			c.Violate("fatal|decode-big|"+o.Class, map[string]any{"input_index": o.Index, "input_len": len(big[o.Index]), "stderr": o.Stderr})
			continue
		}
		c.Distinct(fmt.Sprintf("big/%d/%s", o.Index, string(o.Result)))
	}
}

// c38DecodeChild runs one hostile input in the child process.
func c38DecodeChild(input []byte) any {
	id, err := fileid.DecodeFileID(string(input))
	if err != nil {
		return map[string]any{"ok": false}
	}
	return map[string]any{"ok": true, "ref_len": len(id.FileReference)}
}
