// Engine proxyduplex: full-duplex concurrent arm for C18 (obfuscated2) and C19
// (FakeTLS), built with the race detector. Two real endpoints are connected by
// a bounded harness pipe (writers really block); every endpoint runs a writer
// and a reader goroutine at the same time; endpoint A's outgoing direction is
// additionally stalled by script in the middle of Write calls while inbound
// data keeps being delivered to A.
package main

import "verif/harness/mon"

func main() {
	mon.Main("proxyduplex", map[string]mon.PropFunc{
		"C18": func(c *mon.Ctx) { runDuplex(c, "obfs2") },
		"C19": func(c *mon.Ctx) { runDuplex(c, "faketls") },
	})
}
