package main

import (
	"io"
	"math/rand/v2"
	"sync"
)

// gate scripts the stalls of endpoint A's outgoing wire: a stalled Write is
// released once `delta` more bytes were delivered to A's reader (or the inbound
// side is finished, or the session was aborted). Logical conditions only.
type gate struct {
	mu        sync.Mutex
	cond      *sync.Cond
	delivered int64
	finished  bool
	aborted   bool
}

func newGate() *gate { g := &gate{}; g.cond = sync.NewCond(&g.mu); return g }

func (g *gate) add(n int) {
	g.mu.Lock()
	g.delivered += int64(n)
	g.mu.Unlock()
	g.cond.Broadcast()
}

func (g *gate) finish(abort bool) {
	g.mu.Lock()
	g.finished = true
	g.aborted = g.aborted || abort
	g.mu.Unlock()
	g.cond.Broadcast()
}

func (g *gate) waitMore(delta int64) {
	g.mu.Lock()
	target := g.delivered + delta
	for !g.aborted && !g.finished && g.delivered < target {
		g.cond.Wait()
	}
	g.mu.Unlock()
}

// wire is one direction of the duplex pipe with a bounded buffer. Write copies
// from the caller's slice at the moment space is available (as a kernel send
// retry or net.Pipe does), so a Write blocked by back-pressure still refers to
// the caller's bytes. Each wire has its own mutex: the two goroutines of one
// endpoint (writer on its outgoing wire, reader on its incoming wire) are not
// synchronised with each other by the harness.
type wire struct {
	mu      sync.Mutex
	cond    *sync.Cond
	buf     []byte // pending bytes are buf[head:]
	head    int
	cap     int
	log     []byte
	closed  bool
	blocked int // Write calls that had to wait for space (back-pressure events)

	// writer-goroutine-only state
	wr         *rand.Rand
	armed      bool
	stallEvery int
	gate       *gate // non-nil on endpoint A's outgoing wire
	stalls     int
	calls      int

	// reader-goroutine-only state
	rr       *rand.Rand
	maxChunk int
	onRead   *gate // non-nil on endpoint A's incoming wire
}

func newWire(capacity int, wr, rr *rand.Rand, maxChunk int) *wire {
	w := &wire{cap: capacity, wr: wr, rr: rr, maxChunk: maxChunk}
	w.cond = sync.NewCond(&w.mu)
	return w
}

func (w *wire) abort() {
	w.mu.Lock()
	w.closed = true
	w.mu.Unlock()
	w.cond.Broadcast()
}

func (w *wire) Write(p []byte) (int, error) {
	w.calls++
	stallAfter, delta := -1, int64(0)
	if w.gate != nil && w.armed && len(p) > 0 && w.stallEvery > 0 && w.wr.IntN(w.stallEvery) == 0 {
		// accept exactly stallAfter bytes of this call (fewer than a record header), then hold
		stallAfter = w.wr.IntN(min(len(p), 6))
		delta = []int64{1, 5, 6, 40, 700, 20000}[w.wr.IntN(6)]
	}
	n := 0
	for n < len(p) {
		if stallAfter == n {
			stallAfter = -1
			w.stalls++
			w.gate.waitMore(delta)
		}
		limit := len(p)
		if stallAfter > n {
			limit = stallAfter
		}
		w.mu.Lock()
		waited := false
		for !w.closed && len(w.buf)-w.head >= w.cap {
			waited = true
			w.cond.Wait()
		}
		if waited {
			w.blocked++
		}
		if w.closed {
			w.mu.Unlock()
			return n, io.ErrClosedPipe
		}
		k := min(w.cap-(len(w.buf)-w.head), limit-n)
		w.buf = append(w.buf, p[n:n+k]...) // reads the caller's slice now
		w.log = append(w.log, p[n:n+k]...)
		n += k
		w.mu.Unlock()
		w.cond.Broadcast()
	}
	return n, nil
}

func (w *wire) Read(p []byte) (int, error) {
	if len(p) == 0 {
		return 0, nil
	}
	limit := len(p)
	if w.maxChunk > 0 {
		limit = min(limit, 1+w.rr.IntN(w.maxChunk))
	}
	w.mu.Lock()
	for !w.closed && len(w.buf) == w.head {
		w.cond.Wait()
	}
	if w.closed {
		w.mu.Unlock()
		return 0, io.ErrClosedPipe
	}
	n := min(limit, len(w.buf)-w.head)
	copy(p, w.buf[w.head:w.head+n])
	w.head += n
	switch {
	case w.head == len(w.buf):
		w.buf, w.head = w.buf[:0], 0
	case w.head > 4096 && w.head > len(w.buf)/2:
		w.buf = append(w.buf[:0], w.buf[w.head:]...)
		w.head = 0
	}
	w.mu.Unlock()
	w.cond.Broadcast()
	if w.onRead != nil {
		w.onRead.add(n)
	}
	return n, nil
}

// end is one endpoint's view of the pipe.
type end struct{ in, out *wire }

func (e *end) Read(p []byte) (int, error)  { return e.in.Read(p) }
func (e *end) Write(p []byte) (int, error) { return e.out.Write(p) }
