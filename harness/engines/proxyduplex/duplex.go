package main

import (
	"bytes"
	"encoding/binary"
	"encoding/hex"
	"fmt"
	"io"
	"math/rand/v2"
	"sync"
	"time"

	"github.com/gotd/td/mtproxy"
	"github.com/gotd/td/mtproxy/faketls"
	"github.com/gotd/td/mtproxy/obfuscated2"

	"verif/harness/mon"
)

type randSrc struct{ r *rand.Rand }

func (s randSrc) Read(p []byte) (int, error) { fill(s.r, p); return len(p), nil }

func fill(r *rand.Rand, p []byte) {
	i := 0
	for ; i+8 <= len(p); i += 8 {
		binary.LittleEndian.PutUint64(p[i:], r.Uint64())
	}
	if i < len(p) {
		v := r.Uint64()
		for ; i < len(p); i++ {
			p[i] = byte(v)
			v >>= 8
		}
	}
}

type dupCase struct {
	Idx        int    `json:"idx"`
	Layer      string `json:"layer"`
	Capacity   int    `json:"pipe_capacity"`
	StallEvery int    `json:"stall_one_in_n_write_calls"`
	AIs        string `json:"endpoint_A_is"`
	BlocksAB   []int  `json:"block_lengths_a2b"`
	BlocksBA   []int  `json:"block_lengths_b2a"`
	ReadBufA   string `json:"read_sizes_A"`
	ReadBufB   string `json:"read_sizes_B"`
	MaxChunk   int    `json:"pipe_read_chunk_max"`
	Stalls     int    `json:"stalls_executed"`
	Blocked    int    `json:"writes_blocked_by_backpressure"`
}

var capacities = []int{1, 2, 3, 4, 5, 7, 16, 64, 1024, 4096, 65536}

func capClass(n int) string {
	switch {
	case n < 5:
		return "lt-header"
	case n < 64:
		return "tiny"
	case n <= 4096:
		return "mid"
	default:
		return "large"
	}
}

// planBlocks picks block lengths within a byte budget, dense around the record / chunk limits.
func planBlocks(r *rand.Rand, layer string, budget int) []int {
	var out []int
	for budget > 0 && len(out) < 24 {
		var l int
		switch k := r.IntN(20); {
		case k < 4:
			l = []int{1, 2, 4, 5, 6, 15, 16, 17, 64}[r.IntN(9)]
		case k < 12:
			l = 1 + r.IntN(1500)
		case k < 15:
			l = 1 + r.IntN(12000)
		case k < 18:
			l = []int{16383, 16384, 16385, 32767, 32768, 32769}[r.IntN(6)]
		default:
			l = []int{65535, 65536, 65537, 70000}[r.IntN(4)]
		}
		if l > budget {
			l = 1 + r.IntN(budget)
		}
		out = append(out, l)
		budget -= l
	}
	return out
}

func makeBlocks(r *rand.Rand, idx int, dir byte, lens []int) (blocks [][]byte, all []byte) {
	for i, l := range lens {
		b := make([]byte, l)
		fill(r, b)
		copy(b, fmt.Sprintf("%c%05d.%03d|", dir, idx, i)) // unique content
		blocks = append(blocks, b)
		all = append(all, b...)
	}
	return
}

type sideResult struct {
	writeErr   string
	writeShort bool
	readErr    string
	got        int
	diffAt     int // -1: equal so far
}

func firstDiff(a, b []byte) int {
	n := min(len(a), len(b))
	for i := 0; i < n; i++ {
		if a[i] != b[i] {
			return i
		}
	}
	return n
}

func readSize(r *rand.Rand, mode string) int {
	switch mode {
	case "1":
		return 1
	case "small":
		return 1 + r.IntN(64)
	case "huge":
		return 1 + r.IntN(100000)
	}
	return 1 + r.IntN(8192)
}

var readModes = []string{"1", "small", "mid", "huge"}

func runSession(c *mon.Ctx, layer string, idx int) (stalls, blocked int) {
	r := c.RandN("duplex-"+layer, idx)
	cs := &dupCase{Idx: idx, Layer: layer}
	cs.Capacity = capacities[r.IntN(len(capacities))]
	switch idx % 3 {
	case 0:
		cs.StallEvery = 0 // back-pressure only: no harness synchronisation at all between A's two goroutines
	case 1:
		cs.StallEvery = 2
	default:
		cs.StallEvery = 6
	}
	budget := min(max(cs.Capacity*300, 2000), 120000)
	if r.IntN(10) == 0 {
		budget = max(budget, 16500) // a full-size record through a tiny buffer as well
	}
	cs.BlocksAB, cs.BlocksBA = planBlocks(r, layer, budget), planBlocks(r, layer, budget)
	cs.ReadBufA, cs.ReadBufB = readModes[r.IntN(4)], readModes[r.IntN(4)]
	if budget > 20000 && cs.ReadBufA == "1" {
		cs.ReadBufA = "small"
	}
	if budget > 20000 && cs.ReadBufB == "1" {
		cs.ReadBufB = "small"
	}
	cs.MaxChunk = []int{0, 1, 3, 700, 70000}[r.IntN(5)]
	if budget > 20000 && cs.MaxChunk == 1 {
		cs.MaxChunk = 3
	}
	blocksAB, wantAB := makeBlocks(r, idx, 'A', cs.BlocksAB)
	blocksBA, wantBA := makeBlocks(r, idx, 'B', cs.BlocksBA)

	g := newGate()
	ab := newWire(cs.Capacity, rand.New(rand.NewPCG(r.Uint64(), 1)), rand.New(rand.NewPCG(r.Uint64(), 2)), cs.MaxChunk)
	ba := newWire(cs.Capacity, rand.New(rand.NewPCG(r.Uint64(), 3)), rand.New(rand.NewPCG(r.Uint64(), 4)), cs.MaxChunk)
	ab.gate, ab.stallEvery = g, cs.StallEvery
	ba.onRead = g
	endA, endB := &end{in: ba, out: ab}, &end{in: ab, out: ba}
	abort := func() { ab.abort(); ba.abort(); g.finish(true) }
	watchdog := time.AfterFunc(120*time.Second, func() {
		c.Inconclusive(fmt.Sprintf("%s session %d: watchdog (120 s) fired, pipe aborted", layer, idx))
		abort()
	})
	defer watchdog.Stop()

	fail := func(sig string, extra map[string]any) {
		w := map[string]any{"case": cs}
		for k, v := range extra {
			w[k] = v
		}
		c.Violate("duplex|"+sig, w)
	}

	var a, b io.ReadWriter
	switch layer {
	case "faketls":
		cs.AIs = "faketls"
		a = faketls.NewFakeTLS(randSrc{rand.New(rand.NewPCG(r.Uint64(), 5))}, endA)
		b = faketls.NewFakeTLS(randSrc{rand.New(rand.NewPCG(r.Uint64(), 6))}, endB)
	case "obfs2":
		tag := [][4]byte{{0xef, 0xef, 0xef, 0xef}, {0xee, 0xee, 0xee, 0xee}, {0xdd, 0xdd, 0xdd, 0xdd}}[r.IntN(3)]
		dc := (1 - 2*r.IntN(2)) * (1 + r.IntN(5))
		var secret []byte
		if r.IntN(2) == 0 {
			secret = make([]byte, 16)
			fill(r, secret)
		}
		// the client may be endpoint A (stalled side) or endpoint B
		cliEnd, srvEnd := endA, endB
		cs.AIs = "client"
		if r.IntN(2) == 0 {
			cliEnd, srvEnd = endB, endA
			cs.AIs = "server"
		}
		cli := obfuscated2.NewObfuscated2(randSrc{rand.New(rand.NewPCG(r.Uint64(), 5))}, cliEnd)
		herr := make(chan error, 1)
		go func() { herr <- cli.Handshake(tag, dc, mtproxy.Secret{Secret: secret}) }()
		srv, meta, err := obfuscated2.Accept(srvEnd, secret)
		if err != nil {
			abort()
			<-herr
			fail("accept-error", map[string]any{"err": err.Error()})
			return 0, 0
		}
		if err := <-herr; err != nil {
			abort()
			fail("handshake-error", map[string]any{"err": err.Error()})
			return 0, 0
		}
		if meta.Protocol != tag || int16(meta.DC) != int16(dc) {
			fail("meta-mismatch", map[string]any{"tag": hex.EncodeToString(meta.Protocol[:]), "dc": int16(meta.DC)})
			return 0, 0
		}
		if cs.AIs == "client" {
			a, b = cli, srv
		} else {
			a, b = srv, cli
		}
	}
	ab.armed = true // before the goroutines start: ordered by the go statements

	var wg sync.WaitGroup
	var resA, resB sideResult // resX: writer fields set by X's writer goroutine, reader fields by X's reader goroutine
	resA.diffAt, resB.diffAt = -1, -1
	writer := func(x io.Writer, blocks [][]byte, werr *string, short *bool, done func()) {
		defer wg.Done()
		defer done()
		for _, blk := range blocks {
			n, err := x.Write(blk)
			if err != nil {
				*werr = err.Error()
				return
			}
			if n != len(blk) {
				*short = true
				return
			}
		}
	}
	reader := func(x io.Reader, want []byte, mode string, rr *rand.Rand, res *sideResult) {
		defer wg.Done()
		buf := make([]byte, 100001)
		stalls := 0
		for res.got < len(want) {
			sz := readSize(rr, mode)
			n, err := x.Read(buf[:sz])
			if n > 0 {
				if res.got+n > len(want) || !bytes.Equal(buf[:n], want[res.got:res.got+n]) {
					res.diffAt = res.got + firstDiff(buf[:n], want[min(res.got, len(want)):min(res.got+n, len(want))])
					abort()
					return
				}
				res.got += n
			}
			if err != nil {
				res.readErr = err.Error()
				abort()
				return
			}
			if n == 0 {
				if stalls++; stalls > 1000 {
					res.readErr = "no progress"
					abort()
					return
				}
			}
		}
	}
	wg.Add(4)
	go writer(a, blocksAB, &resA.writeErr, &resA.writeShort, func() {})
	go writer(b, blocksBA, &resB.writeErr, &resB.writeShort, func() { g.finish(false) })
	go reader(a, wantBA, cs.ReadBufA, rand.New(rand.NewPCG(r.Uint64(), 7)), &resA)
	go reader(b, wantAB, cs.ReadBufB, rand.New(rand.NewPCG(r.Uint64(), 8)), &resB)
	wg.Wait()
	c.Eval(1)

	cs.Stalls, cs.Blocked = ab.stalls, ab.blocked+ba.blocked
	clean := true
	// reader verdicts first: a reader that saw wrong bytes aborts the pipe, writers then fail with "closed pipe"
	for _, s := range []struct {
		name string
		res  *sideResult
		want []byte
	}{{"a2b", &resB, wantAB}, {"b2a", &resA, wantBA}} {
		switch {
		case s.res.diffAt >= 0:
			clean = false
			fail("stream-differs", map[string]any{"direction": s.name, "first_diff_at": s.res.diffAt, "want_len": len(s.want)})
		case s.res.readErr != "" && s.res.readErr != io.ErrClosedPipe.Error():
			clean = false
			fail("stream-differs", map[string]any{"direction": s.name, "read_err": s.res.readErr, "read_ok_bytes": s.res.got, "want_len": len(s.want)})
		case s.res.got != len(s.want):
			clean = false
		}
	}
	for _, s := range []struct {
		name string
		res  *sideResult
	}{{"a2b", &resA}, {"b2a", &resB}} {
		if s.res.writeShort {
			clean = false
			fail("write-count-wrong", map[string]any{"direction": s.name})
		}
		if s.res.writeErr != "" {
			if clean { // not a consequence of an abort
				fail("write-error", map[string]any{"direction": s.name, "err": s.res.writeErr})
			}
			clean = false
		}
	}
	if layer == "faketls" {
		// independent walk of both wire logs
		for _, s := range []struct {
			name string
			w    *wire
			want []byte
		}{{"a2b", ab, wantAB}, {"b2a", ba, wantBA}} {
			payload, recs, partial, err := parseAll(s.w.log)
			switch {
			case err != nil:
				fail("wire-not-whole-records", map[string]any{"direction": s.name, "parse_error": err.Error(), "records_before": recs})
			case clean && partial:
				fail("wire-not-whole-records", map[string]any{"direction": s.name, "parse_error": "wire ends inside a record although every Write returned", "records_before": recs})
			case !bytes.HasPrefix(s.want, payload) || (clean && len(payload) != len(s.want)):
				fail("wire-payload-differs", map[string]any{"direction": s.name, "first_diff_at": firstDiff(payload, s.want), "payload_len": len(payload), "want_len": len(s.want)})
			}
			c.Add("duplex_records_parsed", int64(recs))
		}
	}
	c.Add("duplex_sessions", 1)
	c.Add("duplex_bytes", int64(len(wantAB)+len(wantBA)))
	c.Add("duplex_scripted_stalls", int64(cs.Stalls))
	c.Add("duplex_backpressure_blocked_writes", int64(cs.Blocked))
	stall := "stall-none"
	if cs.StallEvery > 0 {
		stall = fmt.Sprintf("stall-1in%d", cs.StallEvery)
	}
	vol := "small"
	if len(wantAB)+len(wantBA) > 60000 {
		vol = "big"
	}
	c.Distinct(fmt.Sprintf("duplex/%s/%s/%s/%s/%s/%s", layer, cs.AIs, capClass(cs.Capacity), stall, vol, cs.ReadBufA))
	c.Sample("duplex-"+stall, cs)
	return cs.Stalls, cs.Blocked
}

func runDuplex(c *mon.Ctx, layer string) {
	c.Rule("full-duplex arm (race detector on): two real " + layer + " endpoints joined by a harness duplex pipe with a bounded buffer per direction (1..65536 bytes, so writers block: back-pressure; " +
		"a blocked Write copies from the caller's slice when space appears, like a kernel send retry); each endpoint runs one writer and one reader goroutine simultaneously, unique-content blocks " +
		"(1..70000 bytes, dense around 16384/32768/65536) in both directions, random read sizes and pipe read chunking; in 2/3 of the sessions endpoint A's outgoing direction is stalled by script " +
		"after 0..5 bytes of a Write call were accepted until 1..20000 more inbound bytes were delivered to A's reader. Oracle: both byte streams read back identical, Write returns len/nil" +
		map[string]string{"faketls": ", both wire logs walk as whole well-formed records carrying exactly the written bytes", "obfs2": ", handshake metadata equal"}[layer] +
		"; data races with gotd/td frames are violations. distinct non-trivial = distinct (layer, role of A, capacity class, stall mode, volume, read-size mode)")
	c.Assume("the harness pipe's own state is mutex-protected per direction; the two goroutines of one endpoint share no harness state except the stall gate")
	n := c.N(120, 4000)
	stalls, blocked := 0, 0
	for i := 0; i < n; i++ {
		s, b := runSession(c, layer, i)
		stalls, blocked = stalls+s, blocked+b
		if c.Violations() > 0 && i >= 20 {
			break // framing loss is systematic: no need to repeat it thousands of times
		}
	}
	if c.Violations() == 0 && (stalls == 0 || blocked == 0) {
		c.Inconclusive(fmt.Sprintf("duplex arm observed no stall (%d) or no back-pressure (%d)", stalls, blocked))
	}
	if c.DistinctCount() < 2 {
		c.Inconclusive("fewer than 2 distinct non-trivial duplex sessions")
	}
}
