package main

import (
	"encoding/binary"
	"errors"
	"fmt"
)

// Independent TLS record walker (same rules as engine proxymon/ftls.go).

type tlsRec struct {
	Type byte
	Body []byte
}

var errPartial = errors.New("partial record")

func parseOne(b []byte) (tlsRec, int, error) {
	if len(b) < 5 {
		return tlsRec{}, 0, fmt.Errorf("%w: %d header bytes", errPartial, len(b))
	}
	if b[0] < 0x14 || b[0] > 0x18 {
		return tlsRec{}, 0, fmt.Errorf("bad record type 0x%02x", b[0])
	}
	if b[1] != 3 || b[2] < 1 || b[2] > 4 {
		return tlsRec{}, 0, fmt.Errorf("bad record version %02x%02x", b[1], b[2])
	}
	n := int(binary.BigEndian.Uint16(b[3:5]))
	if len(b) < 5+n {
		return tlsRec{}, 0, fmt.Errorf("%w: declared %d, have %d", errPartial, n, len(b)-5)
	}
	return tlsRec{Type: b[0], Body: b[5 : 5+n]}, 5 + n, nil
}

// parseAll walks b; a trailing partial record is reported through partial, not err.
func parseAll(b []byte) (payload []byte, records int, partial bool, err error) {
	off := 0
	for off < len(b) {
		rec, n, e := parseOne(b[off:])
		if e != nil {
			if errors.Is(e, errPartial) {
				return payload, records, true, nil
			}
			return payload, records, false, fmt.Errorf("at offset %d (record %d): %w", off, records, e)
		}
		switch rec.Type {
		case 0x17:
			payload = append(payload, rec.Body...)
		case 0x14:
		default:
			return payload, records, false, fmt.Errorf("at offset %d (record %d): unexpected record type 0x%02x", off, records, rec.Type)
		}
		records++
		off += n
	}
	return payload, records, false, nil
}
