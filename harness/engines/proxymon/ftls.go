package main

import (
	"crypto/hmac"
	"crypto/sha256"
	"encoding/binary"
	"errors"
	"fmt"
	"io"
	"math/rand/v2"
)

// Harness-side FakeTLS: an independent record parser / writer and the server
// half of the MTProxy FakeTLS handshake, written from the MTProxy description
// (ServerHello + ChangeCipherSpec + application-data record; the ServerHello
// random is HMAC-SHA256(secret, client_random || whole response with the random
// zeroed)). Nothing here calls into gotd/td/mtproxy/faketls.

const (
	recCCS       = 0x14
	recAlert     = 0x15
	recHandshake = 0x16
	recApp       = 0x17
)

type tlsRec struct {
	Type byte
	Ver  [2]byte
	Body []byte
}

var errPartial = errors.New("partial record")

// parseOne parses one record at the start of b.
func parseOne(b []byte) (tlsRec, int, error) {
	if len(b) < 5 {
		return tlsRec{}, 0, fmt.Errorf("%w: %d header bytes", errPartial, len(b))
	}
	t := b[0]
	if t < recCCS || t > 0x18 {
		return tlsRec{}, 0, fmt.Errorf("bad record type 0x%02x", t)
	}
	if b[1] != 3 || b[2] < 1 || b[2] > 4 {
		return tlsRec{}, 0, fmt.Errorf("bad record version %02x%02x", b[1], b[2])
	}
	n := int(binary.BigEndian.Uint16(b[3:5]))
	if len(b) < 5+n {
		return tlsRec{}, 0, fmt.Errorf("%w: declared %d, have %d", errPartial, n, len(b)-5)
	}
	return tlsRec{Type: t, Ver: [2]byte{b[1], b[2]}, Body: b[5 : 5+n]}, 5 + n, nil
}

// parseAll walks b as a whole number of records.
func parseAll(b []byte) ([]tlsRec, error) {
	var out []tlsRec
	off := 0
	for off < len(b) {
		rec, n, err := parseOne(b[off:])
		if err != nil {
			return out, fmt.Errorf("at offset %d (record %d): %w", off, len(out), err)
		}
		out = append(out, rec)
		off += n
	}
	return out, nil
}

func appPayload(recs []tlsRec) []byte {
	var out []byte
	for _, r := range recs {
		if r.Type == recApp {
			out = append(out, r.Body...)
		}
	}
	return out
}

// putRec appends one record to the wire in two pieces (header, body) so that
// the boundary chunking policy cuts around both.
func putRec(w *wire, typ byte, ver byte, body []byte) {
	hdr := []byte{typ, 3, ver, 0, 0}
	binary.BigEndian.PutUint16(hdr[3:], uint16(len(body)))
	w.put(hdr)
	w.put(body)
}

// ---- server hello ----------------------------------------------------------

type clientHelloInfo struct {
	Record    []byte
	Random    [32]byte
	SessionID []byte
	DigestOK  bool // HMAC(secret, record with zeroed random)[:28] == random[:28]
}

func parseClientHello(wireBytes []byte, secret []byte) (clientHelloInfo, int, error) {
	rec, n, err := parseOne(wireBytes)
	if err != nil {
		return clientHelloInfo{}, 0, err
	}
	if rec.Type != recHandshake || len(rec.Body) < 39+32 || rec.Body[0] != 0x01 {
		return clientHelloInfo{}, 0, fmt.Errorf("not a ClientHello record (type %#x, %d bytes)", rec.Type, len(rec.Body))
	}
	ci := clientHelloInfo{Record: append([]byte(nil), wireBytes[:n]...)}
	copy(ci.Random[:], ci.Record[11:43])
	if ci.Record[43] == 32 {
		ci.SessionID = append([]byte(nil), ci.Record[44:76]...)
	}
	z := append([]byte(nil), ci.Record...)
	for i := 11; i < 43; i++ {
		z[i] = 0
	}
	m := hmac.New(sha256.New, secret)
	m.Write(z)
	sum := m.Sum(nil)
	ci.DigestOK = hmac.Equal(sum[:28], ci.Random[:28])
	return ci, n, nil
}

type helloSpec struct {
	Class    string `json:"class"`
	Mut      string `json:"mutation"`
	ExtraHS  int    `json:"extra_handshake_records"`
	AppLen   int    `json:"app_record_len"`
	HelloLen int    `json:"server_hello_len"`
	FlipBit  int    `json:"flip_bit,omitempty"`
	Expect   string `json:"expect"` // accept | reject | none
}

func hmacOf(key []byte, parts ...[]byte) []byte {
	m := hmac.New(sha256.New, key)
	for _, p := range parts {
		m.Write(p)
	}
	return m.Sum(nil)
}

// buildServerHello returns the response split into (header, body) pieces.
func buildServerHello(r *rand.Rand, ci clientHelloInfo, secret []byte, sp *helloSpec) [][]byte {
	// ServerHello handshake message, TLS 1.3 look (what MTProxy emits)
	body := []byte{0x02, 0, 0, 0, 0x03, 0x03}
	body = append(body, make([]byte, 32)...) // random = digest, filled below
	sid := ci.SessionID
	if sid == nil {
		sid = randBytes(r, 32)
	}
	body = append(body, 32)
	body = append(body, sid...)
	body = append(body, 0x13, byte(1+r.IntN(3)), 0x00)
	ext := []byte{0x00, 0x33, 0x00, 0x24, 0x00, 0x1d, 0x00, 0x20}
	ext = append(ext, randBytes(r, 32)...)
	ext = append(ext, 0x00, 0x2b, 0x00, 0x02, 0x03, 0x04)
	if r.IntN(3) == 0 { // an unknown extension of random size to vary the hello length
		pad := randBytes(r, r.IntN(200))
		ext = append(ext, 0xfa, 0xfa, byte(len(pad)>>8), byte(len(pad)))
		ext = append(ext, pad...)
	}
	body = append(body, byte(len(ext)>>8), byte(len(ext)))
	body = append(body, ext...)
	hl := len(body) - 4
	body[1], body[2], body[3] = byte(hl>>16), byte(hl>>8), byte(hl)
	sp.HelloLen = len(body)

	type piece struct {
		typ  byte
		body []byte
	}
	recs := []piece{{recHandshake, body}}
	for i := 0; i < sp.ExtraHS; i++ {
		recs = append(recs, piece{recHandshake, append([]byte{byte(0x0b + r.IntN(4)), 0, 0, 0}, randBytes(r, r.IntN(40))...)})
	}
	recs = append(recs, piece{recCCS, []byte{1}})
	recs = append(recs, piece{recApp, randBytes(r, sp.AppLen)})
	var flat []byte
	var cuts []int
	for _, p := range recs {
		hdr := []byte{p.typ, 3, 3, byte(len(p.body) >> 8), byte(len(p.body))}
		flat = append(flat, hdr...)
		cuts = append(cuts, len(flat))
		flat = append(flat, p.body...)
		cuts = append(cuts, len(flat))
	}

	// the digest
	key := secret
	random := append([]byte(nil), ci.Random[:]...)
	var digest []byte
	switch sp.Mut {
	case "", "digest-flip", "tamper-after":
		digest = hmacOf(key, random, flat)
	case "secret-other":
		digest = hmacOf(randBytes(r, 16), random, flat)
	case "secret-bitflip":
		k := append([]byte(nil), key...)
		k[r.IntN(len(k))] ^= 1 << r.IntN(8)
		digest = hmacOf(k, random, flat)
	case "secret-truncated":
		// HMAC zero-pads short keys: dropping a zero byte would leave the key unchanged
		k := append([]byte(nil), key[:15]...)
		if key[15] == 0 {
			k[0] ^= 1
		}
		digest = hmacOf(k, random, flat)
	case "secret-empty":
		digest = hmacOf(nil, random, flat)
	case "random-other":
		digest = hmacOf(key, randBytes(r, 32), flat)
	case "random-bitflip":
		sp.FlipBit = r.IntN(256)
		random[sp.FlipBit/8] ^= 1 << (sp.FlipBit % 8)
		digest = hmacOf(key, random, flat)
	case "random-tail-bitflip": // the 4 bytes that carry the XORed timestamp
		sp.FlipBit = 224 + r.IntN(32)
		random[sp.FlipBit/8] ^= 1 << (sp.FlipBit % 8)
		digest = hmacOf(key, random, flat)
	case "random-zero":
		digest = hmacOf(key, make([]byte, 32), flat)
	case "random-omitted":
		digest = hmacOf(key, flat)
	case "random-appended":
		digest = hmacOf(key, flat, random)
	case "random-as-key":
		digest = hmacOf(random, key, flat)
	case "digest-zero":
		digest = make([]byte, 32)
	case "digest-echo-client-random":
		digest = random
	case "plain-sha256":
		h := sha256.Sum256(append(append(append([]byte(nil), key...), random...), flat...))
		digest = h[:]
	default:
		panic("unknown mutation " + sp.Mut)
	}
	copy(flat[11:43], digest)
	switch sp.Mut {
	case "digest-flip":
		flat[11+sp.FlipBit/8] ^= 1 << (sp.FlipBit % 8)
	case "tamper-after":
		// flip one bit of a body byte that is neither a record header nor the digest
		for {
			p := 43 + r.IntN(len(flat)-43)
			inHeader := false
			prev := 0
			for i := 0; i < len(cuts); i += 2 {
				if p >= prev && p < cuts[i] {
					inHeader = true
				}
				prev = cuts[i+1]
			}
			if !inHeader {
				flat[p] ^= 1 << r.IntN(8)
				sp.FlipBit = p
				break
			}
		}
	}
	var pieces [][]byte
	prev := 0
	for _, cut := range cuts {
		pieces = append(pieces, flat[prev:cut])
		prev = cut
	}
	return pieces
}

var helloMutations = []string{
	"secret-other", "secret-bitflip", "secret-truncated", "secret-empty",
	"random-other", "random-bitflip", "random-tail-bitflip", "random-zero", "random-omitted", "random-appended", "random-as-key",
	"digest-zero", "digest-echo-client-random", "plain-sha256",
}

// ---- harness record layer as io.ReadWriter (server side of the stack arm) ---

// recLayer reads application payload out of the records found on `in` and
// wraps writes into application records of random sizes on `out`.
type recLayer struct {
	in      *wire
	out     *wire
	r       *rand.Rand
	pending []byte
	maxRec  int
	bad     error
	recs    int
}

func (l *recLayer) Read(p []byte) (int, error) {
	for len(l.pending) == 0 {
		if l.in.avail() == 0 {
			return 0, io.EOF
		}
		rec, n, err := parseOne(l.in.log[l.in.rd:])
		if err != nil {
			l.bad = err
			return 0, err
		}
		l.in.rd += n
		switch rec.Type {
		case recCCS:
		case recApp:
			l.pending = rec.Body
		default:
			l.bad = fmt.Errorf("unexpected record type %#x after the handshake", rec.Type)
			return 0, l.bad
		}
	}
	n := copy(p, l.pending)
	l.pending = l.pending[n:]
	return n, nil
}

func (l *recLayer) Write(p []byte) (int, error) {
	total := len(p)
	for len(p) > 0 {
		var n int
		switch l.r.IntN(6) {
		case 0:
			n = 1
		case 1:
			n = l.maxRec
		case 2:
			n = 16384
		default:
			n = 1 + l.r.IntN(l.maxRec)
		}
		n = min(n, len(p), l.maxRec)
		// only what a real proxy emits after the handshake: application records, version 0303
		putRec(l.out, recApp, 3, p[:n])
		l.recs++
		p = p[n:]
	}
	return total, nil
}
