package main

import (
	"bytes"
	"context"
	"encoding/binary"
	"fmt"
	"io"
	"math/rand/v2"
	"net"

	"github.com/gotd/td/bin"
	"github.com/gotd/td/mtproxy"
	"github.com/gotd/td/mtproxy/obfuscated2"
	"github.com/gotd/td/mtproxy/obfuscator"
	"github.com/gotd/td/proto/codec"
	"github.com/gotd/td/transport"

	"verif/harness/mon"
)

// ---- case generation -------------------------------------------------------

var reservedKinds = []string{"ef", "HEAD", "POST", "GET", "OPTI", "02010316", "dddddddd", "eeeeeeee", "zero2"}

var reservedWords = map[string]uint32{
	"HEAD": 0x44414548, "POST": 0x54534f50, "GET": 0x20544547, "OPTI": 0x4954504f,
	"02010316": 0x02010316, "dddddddd": 0xdddddddd, "eeeeeeee": 0xeeeeeeee,
}

// reservedBlock builds a 64-byte candidate init that the spec forbids.
func reservedBlock(r *rand.Rand, kind string) []byte {
	b := randBytes(r, 64)
	for obfs2Reserved(b) != "" {
		b = randBytes(r, 64)
	}
	switch kind {
	case "ef":
		b[0] = 0xef
	case "zero2":
		copy(b[4:8], []byte{0, 0, 0, 0})
	default:
		binary.LittleEndian.PutUint32(b[0:4], reservedWords[kind])
	}
	return b
}

// nearMissBlock builds a candidate that looks like a reserved one but is allowed.
func nearMissBlock(r *rand.Rand) []byte {
	b := randBytes(r, 64)
	for obfs2Reserved(b) != "" {
		b = randBytes(r, 64)
	}
	switch r.IntN(6) {
	case 0:
		copy(b[0:4], []byte{0xee, 0xee, 0xee, 0xef}) // three quarters of the intermediate tag
	case 1:
		copy(b[0:4], []byte{0xdd, 0xef, 0xdd, 0xdd})
	case 2:
		copy(b[0:4], []byte("DAEH")) // HEAD in the wrong byte order
	case 3:
		copy(b[4:8], []byte{0, 0, 0, 1}) // second word almost zero
	case 4:
		copy(b[0:4], []byte{0x16, 0x03, 0x01, 0x03}) // 0x03010316
	case 5:
		copy(b[0:8], []byte{0, 0, 0, 0, 0xef, 0xef, 0xef, 0xef}) // zero FIRST word, ef later
	}
	return b
}

type c18Case struct {
	Idx        int      `json:"idx"`
	Arm        string   `json:"arm"`
	Tag        string   `json:"tag"`
	TagKind    string   `json:"tag_kind"`
	DC         int      `json:"dc"`
	DCKind     string   `json:"dc_kind"`
	SecretKind string   `json:"secret_kind"`
	SecretLen  int      `json:"client_secret_len"`
	RandKind   string   `json:"rand_kind"`
	Reserved   []string `json:"reserved_blocks_fed"`
	ShortRand  bool     `json:"rand_short_reads"`
	C2SChunk   string   `json:"c2s_read_chunking"`
	S2CChunk   string   `json:"s2c_read_chunking"`
	BufMode    string   `json:"read_buffer_sizes"`
	Blocks     int      `json:"blocks"`
	Bytes      int      `json:"bytes"`

	tag          [4]byte
	cliSecret    mtproxy.Secret
	srvSecret    []byte
	pre          []byte
	wrongSecret  bool
	shortSecret  bool
	readerErrArm bool
}

func genC18(r *rand.Rand, idx int) *c18Case {
	cs := &c18Case{Idx: idx, Arm: "direct"}
	// tag
	switch k := r.IntN(5); k {
	case 0:
		cs.tag, cs.TagKind = [4]byte{0xef, 0xef, 0xef, 0xef}, "abridged"
	case 1:
		cs.tag, cs.TagKind = [4]byte{0xee, 0xee, 0xee, 0xee}, "intermediate"
	case 2:
		cs.tag, cs.TagKind = [4]byte{0xdd, 0xdd, 0xdd, 0xdd}, "padded"
	case 3:
		copy(cs.tag[:], randBytes(r, 4))
		cs.TagKind = "arbitrary"
	case 4:
		cs.tag, cs.TagKind = [][4]byte{{0, 0, 0, 0}, {0xff, 0xff, 0xff, 0xff}, {0xef, 0, 0, 0}, {0x16, 0x03, 0x01, 0x02}}[r.IntN(4)], "edge"
	}
	cs.Tag = hx(cs.tag[:])
	// dc
	sign := 1 - 2*r.IntN(2)
	switch r.IntN(6) {
	case 0, 1:
		cs.DC, cs.DCKind = sign*(1+r.IntN(5)), "prod"
	case 2:
		cs.DC, cs.DCKind = sign*(10000+1+r.IntN(5)), "test"
	case 3:
		cs.DC, cs.DCKind = []int{0, -32768, 32767, -1, 255, 256, -256, 0x7f00}[r.IntN(8)], "extreme"
	default:
		cs.DC, cs.DCKind = r.IntN(65536)-32768, "int16-sample"
	}
	if cs.DC < 0 && cs.DCKind != "extreme" {
		cs.DCKind += "-neg"
	}
	// secret
	raw := randBytes(r, 16)
	switch k := r.IntN(20); {
	case k < 5:
		cs.SecretKind = "none"
	case k < 9:
		cs.SecretKind = "simple16"
		s, err := mtproxy.ParseSecret(raw)
		if err != nil {
			panic(err)
		}
		cs.cliSecret, cs.srvSecret = s, raw
	case k < 12:
		cs.SecretKind = "secured17"
		full := append([]byte{[]byte{0xef, 0xee, 0xdd}[r.IntN(3)]}, raw...)
		s, err := mtproxy.ParseSecret(full)
		if err != nil {
			panic(err)
		}
		cs.cliSecret, cs.srvSecret = s, raw
	case k < 14:
		cs.SecretKind = "tls-parsed"
		full := append([]byte{0xee}, raw...)
		full = append(full, []byte("example.org")...)
		s, err := mtproxy.ParseSecret(full)
		if err != nil {
			panic(err)
		}
		cs.cliSecret, cs.srvSecret = s, raw
	case k < 16:
		// 17+ bytes given directly: only the first 16 may matter; the server gets the bare prefix.
		cs.SecretKind = "long-client-prefix-server"
		long := append(append([]byte(nil), raw...), randBytes(r, 1+r.IntN(40))...)
		cs.cliSecret, cs.srvSecret = mtproxy.Secret{Secret: long}, raw
	case k < 17:
		cs.SecretKind = "prefix-client-long-server"
		long := append(append([]byte(nil), raw...), randBytes(r, 1+r.IntN(40))...)
		cs.cliSecret, cs.srvSecret = mtproxy.Secret{Secret: raw}, long
	case k < 18:
		cs.SecretKind = "short"
		cs.shortSecret = true
		cs.cliSecret = mtproxy.Secret{Secret: raw[:1+r.IntN(15)]}
		cs.srvSecret = cs.cliSecret.Secret
	default:
		// negative control of the monitor itself: different secrets must NOT agree
		cs.SecretKind = "control-wrong-secret"
		cs.wrongSecret = true
		cs.cliSecret, cs.srvSecret = mtproxy.Secret{Secret: raw}, randBytes(r, 16)
		if r.IntN(2) == 0 {
			cs.srvSecret = append([]byte(nil), raw...)
			cs.srvSecret[r.IntN(16)] ^= 1 << r.IntN(8)
		}
	}
	cs.SecretLen = len(cs.cliSecret.Secret)
	// random stream
	switch k := r.IntN(10); {
	case k < 2:
		cs.RandKind = "plain"
	case k < 4:
		cs.RandKind = "all-reserved-then-valid"
		for _, kind := range reservedKinds {
			cs.Reserved = append(cs.Reserved, kind)
		}
		r.Shuffle(len(cs.Reserved), func(i, j int) { cs.Reserved[i], cs.Reserved[j] = cs.Reserved[j], cs.Reserved[i] })
	case k < 8:
		cs.RandKind = "some-reserved"
		for n := 1 + r.IntN(6); n > 0; n-- {
			cs.Reserved = append(cs.Reserved, reservedKinds[r.IntN(len(reservedKinds))])
		}
	default:
		cs.RandKind = "near-miss"
	}
	for _, kind := range cs.Reserved {
		cs.pre = append(cs.pre, reservedBlock(r, kind)...)
	}
	if cs.RandKind == "near-miss" {
		cs.pre = nearMissBlock(r)
	}
	cs.ShortRand = r.IntN(3) == 0
	cs.C2SChunk = chunkPolicies[r.IntN(len(chunkPolicies))]
	cs.S2CChunk = chunkPolicies[r.IntN(len(chunkPolicies))]
	cs.BufMode = bufModes[r.IntN(len(bufModes))]
	return cs
}

func blockLen(r *rand.Rand) int {
	switch k := r.IntN(20); {
	case k < 6:
		return []int{0, 1, 2, 15, 16, 17, 31, 32, 33, 63, 64, 65, 4095, 4096, 4097}[r.IntN(15)]
	case k < 17:
		return 1 + r.IntN(3000)
	case k < 19:
		return 1 + r.IntN(20000)
	default:
		return 60000 + r.IntN(20000)
	}
}

// uniqueBlock: random content stamped with (session, block) so that swapped or
// replayed blocks cannot compare equal.
func uniqueBlock(r *rand.Rand, session, block, n int) []byte {
	b := randBytes(r, n)
	var stamp [8]byte
	binary.LittleEndian.PutUint32(stamp[0:], uint32(session))
	binary.LittleEndian.PutUint32(stamp[4:], uint32(block)|0x80000000)
	copy(b, stamp[:])
	return b
}

// writeSplit writes b through w in 1..4 Write calls.
func writeSplit(r *rand.Rand, w io.Writer, b []byte) error {
	parts := 1 + r.IntN(4)
	for len(b) > 0 && parts > 1 {
		k := r.IntN(len(b) + 1)
		n, err := w.Write(b[:k])
		if err != nil {
			return err
		}
		if n != k {
			return fmt.Errorf("short write %d of %d without error", n, k)
		}
		b = b[k:]
		parts--
	}
	n, err := w.Write(b)
	if err == nil && n != len(b) {
		err = fmt.Errorf("short write %d of %d without error", n, len(b))
	}
	return err
}

// ---- the direct arm: real Handshake <-> real Accept over the chunking pipe ---

type dirState struct {
	name     string
	w        io.Writer
	rd       io.Reader
	expected []byte // everything written so far
	checked  int    // prefix already read back and compared
}

func runC18Session(c *mon.Ctx, r *rand.Rand, cs *c18Case) {
	c.Eval(1)
	fail := func(sig string, extra map[string]any) {
		w := map[string]any{"case": cs}
		for k, v := range extra {
			w[k] = v
		}
		c.Violate(sig, w)
	}
	cli, srv, c2s, s2c := newPipe(r, cs.S2CChunk, cs.C2SChunk)
	rnd := &advRand{pre: cs.pre, r: r, short: cs.ShortRand, keep: true}
	o := obfuscated2.NewObfuscated2(rnd, cli)
	err := o.Handshake(cs.tag, cs.DC, cs.cliSecret)
	if cs.shortSecret {
		// Not demanded by the statement (it quantifies over empty and 16-byte secrets): coverage only.
		if err != nil {
			c.Add("short_secret_client_rejected", 1)
		} else {
			c.Add("short_secret_client_accepted", 1)
		}
		if _, _, aerr := obfuscated2.Accept(&end{in: &wire{log: randBytes(r, 64)}, out: &wire{}, ch: &chunker{mode: chFull, r: r}}, cs.srvSecret); aerr != nil {
			c.Add("short_secret_server_rejected", 1)
		} else {
			c.Add("short_secret_server_accepted", 1)
		}
		c.Distinct("short-secret/" + fmt.Sprint(len(cs.srvSecret)))
		return
	}
	if err != nil {
		fail("handshake-error|secret="+cs.SecretKind, map[string]any{"err": err.Error()})
		return
	}
	if len(c2s.log) != 64 {
		fail("header-length-not-64", map[string]any{"written": len(c2s.log)})
		return
	}
	header := append([]byte(nil), c2s.log[:64]...)
	if p := obfs2Reserved(header); p != "" {
		fail("reserved-header|"+p, map[string]any{"header": hx(header)})
	}
	// how often the rejection loop iterated (coverage, from the bytes the source handed out)
	iter := 0
	for off := 0; off+64 <= len(rnd.all); off += 64 {
		if obfs2Reserved(rnd.all[off:off+64]) == "" {
			break
		}
		iter++
	}
	c.Add("rejection_loop_iterations_forced", int64(iter))
	if iter > 0 {
		c.Add("sessions_with_forced_rejection", 1)
	}

	rw, meta, err := obfuscated2.Accept(srv, cs.srvSecret)
	if err != nil {
		fail("accept-error|secret="+cs.SecretKind, map[string]any{"err": err.Error()})
		return
	}
	if cs.wrongSecret {
		// monitor self-check: with different secrets the two sides must not agree on the tag
		if meta.Protocol == cs.tag && int16(meta.DC) == int16(cs.DC) {
			c.Add("control_wrong_secret_agreed", 1)
		} else {
			c.Add("control_wrong_secret_disagreed", 1)
		}
		return
	}
	if meta.Protocol != cs.tag {
		fail("tag-mismatch|"+cs.TagKind, map[string]any{"got": hx(meta.Protocol[:])})
	}
	if int16(meta.DC) != int16(cs.DC) {
		fail("dc-mismatch|"+cs.DCKind, map[string]any{"got": int16(meta.DC)})
	}

	// bidirectional traffic
	dirs := [2]*dirState{
		{name: "c2s", w: o, rd: rw},
		{name: "s2c", w: rw, rd: o},
	}
	check := func(d *dirState) bool {
		want := d.expected[d.checked:]
		if len(want) == 0 {
			return true
		}
		got, err := drain(r, d.rd, len(want), cs.BufMode)
		if err != nil || !bytes.Equal(got, want) {
			at := firstDiff(got, want)
			fail("stream-differs|"+d.name, map[string]any{
				"read_err": fmt.Sprint(err), "want_len": len(want), "got_len": len(got), "first_diff_at": at,
				"stream_offset": d.checked,
			})
			return false
		}
		d.checked = len(d.expected)
		return true
	}
	nb := 1 + r.IntN(8)
	ok := true
	for b := 0; b < nb && ok; b++ {
		d := dirs[r.IntN(2)]
		blk := uniqueBlock(r, cs.Idx, b, blockLen(r))
		if err := writeSplit(r, d.w, blk); err != nil {
			fail("write-error|"+d.name, map[string]any{"err": err.Error()})
			return
		}
		d.expected = append(d.expected, blk...)
		cs.Bytes += len(blk)
		if r.IntN(2) == 0 {
			ok = check(d)
		}
	}
	cs.Blocks = nb
	if ok {
		ok = check(dirs[0]) && check(dirs[1])
	}
	c.Add("bytes_carried", int64(cs.Bytes))
	c.Add("pipe_reads", int64(cli.reads+srv.reads))

	// passive reference tap on the wire bytes (specification transcription): own signature family,
	// it demands interoperability with the documented wire format, which is more than mutual agreement.
	tap := newObfs2Tap(header, cs.srvSecret)
	if tap.Protocol != cs.tag || tap.DC != int16(cs.DC) {
		fail("spec-tap|header-meta-differs", map[string]any{"tap_tag": hx(tap.Protocol[:]), "tap_dc": tap.DC})
	} else if ok {
		if got := tap.C2S(c2s.log[64:]); !bytes.Equal(got, dirs[0].expected) {
			fail("spec-tap|c2s-wire-not-spec-ctr", map[string]any{"first_diff_at": firstDiff(got, dirs[0].expected)})
		}
		if got := tap.S2C(s2c.log); !bytes.Equal(got, dirs[1].expected) {
			fail("spec-tap|s2c-wire-not-spec-ctr", map[string]any{"first_diff_at": firstDiff(got, dirs[1].expected)})
		}
	}
	big := "small"
	if cs.Bytes > 50000 {
		big = "big"
	}
	c.Distinct(fmt.Sprintf("direct/%s/%s/%s/%s/%s>%s/%s", cs.TagKind, cs.DCKind, cs.SecretKind, cs.RandKind, cs.C2SChunk, cs.S2CChunk, big))
	c.Sample("direct", cs)
}

// ---- sub-workload: reader that returns the last bytes together with io.EOF --

func runC18ReaderErr(c *mon.Ctx, r *rand.Rand, cs *c18Case) {
	c.Eval(1)
	cs.Arm = "reader-returns-data-with-error"
	cli, srv, c2s, s2c := newPipe(r, cs.S2CChunk, cs.C2SChunk)
	rnd := &advRand{pre: cs.pre, r: r}
	o := obfuscated2.NewObfuscated2(rnd, cli)
	if err := o.Handshake(cs.tag, cs.DC, cs.cliSecret); err != nil {
		c.Violate("handshake-error|secret="+cs.SecretKind, map[string]any{"case": cs, "err": err.Error()})
		return
	}
	rw, _, err := obfuscated2.Accept(srv, cs.srvSecret)
	if err != nil {
		c.Violate("accept-error|secret="+cs.SecretKind, map[string]any{"case": cs, "err": err.Error()})
		return
	}
	// which side reads through the (n>0, io.EOF) reader
	var w io.Writer = o
	var rd io.Reader = rw
	side := "server-reads"
	dataEnd, dataWire := srv, c2s
	if r.IntN(2) == 0 {
		w, rd, side, dataEnd, dataWire = rw, o, "client-reads", cli, s2c
	}
	blk := uniqueBlock(r, cs.Idx, 0, 1+r.IntN(3000))
	if err := writeSplit(r, w, blk); err != nil {
		c.Violate("write-error|"+side, map[string]any{"case": cs, "err": err.Error()})
		return
	}
	dataEnd.dataWithErr = true
	got, rerr := drain(r, rd, len(blk), cs.BufMode)
	cs.Bytes = len(blk)
	c.Distinct("readerr/" + side + "/" + dataEnd.ch.mode + "/" + cs.BufMode)
	c.Sample("reader-returns-data-with-error", cs)
	if rerr == nil {
		// the chunk that drained the wire carried the error; drain stops at want bytes only when the
		// error was swallowed — both are fine as long as the bytes are right
		c.Add("readerr_error_swallowed", 1)
	}
	if !bytes.Equal(got, blk) {
		at := firstDiff(got, blk)
		raw := dataWire.log[len(dataWire.log)-len(blk):] // the ciphertext of this block as it went over the wire
		c.Violate("reader-returns-data-with-error", map[string]any{
			"case": cs, "side": side, "read_err": fmt.Sprint(rerr), "want_len": len(blk), "got_len": len(got),
			"first_diff_at": at, "wrong_bytes_equal_raw_wire_bytes": len(got) == len(blk) && bytes.Equal(got[at:], raw[at:]),
			"note": "the bytes of the Read call that also returned the error are handed to the caller undecrypted",
		})
	}
}

// ---- listener arm: obfuscator.Obfuscated2 + transport.Protocol <-> transport.Listen(ObfuscatedListener) ----

func runC18Listener(c *mon.Ctx, r *rand.Rand, cs *c18Case) {
	c.Eval(1)
	cs.Arm = "listener"
	var cdc codec.Codec
	switch r.IntN(3) {
	case 0:
		cdc, cs.tag, cs.TagKind = codec.Abridged{}, [4]byte{0xef, 0xef, 0xef, 0xef}, "abridged"
	case 1:
		cdc, cs.tag, cs.TagKind = codec.Intermediate{}, codec.IntermediateClientStart, "intermediate"
	default:
		cdc, cs.tag, cs.TagKind = codec.PaddedIntermediate{}, codec.PaddedIntermediateClientStart, "padded"
	}
	cs.Tag = hx(cs.tag[:])
	cs.SecretKind, cs.cliSecret, cs.srvSecret = "none(listener)", mtproxy.Secret{}, nil
	fail := func(sig string, extra map[string]any) {
		w := map[string]any{"case": cs}
		for k, v := range extra {
			w[k] = v
		}
		c.Violate("listener|"+sig, w)
	}
	cli, srv, c2s, _ := newPipe(r, cs.S2CChunk, cs.C2SChunk)
	rnd := &advRand{pre: cs.pre, r: r, short: cs.ShortRand}
	oc := obfuscator.Obfuscated2(rnd, &netEnd{end: cli})
	if err := oc.Handshake(cs.tag, cs.DC, cs.cliSecret); err != nil {
		fail("handshake-error", map[string]any{"err": err.Error()})
		return
	}
	if len(c2s.log) != 64 {
		fail("header-length-not-64", map[string]any{"written": len(c2s.log)})
		return
	}
	if p := obfs2Reserved(c2s.log[:64]); p != "" {
		fail("reserved-header|"+p, map[string]any{"header": hx(c2s.log[:64])})
	}
	proto := transport.NewProtocol(func() transport.Codec { return codec.NoHeader{Codec: cdc} })
	cconn, err := proto.Handshake(oc)
	if err != nil {
		fail("client-transport-handshake", map[string]any{"err": err.Error()})
		return
	}
	ln := transport.Listen(transport.ObfuscatedListener(&oneListener{conns: []net.Conn{&netEnd{end: srv}}}))
	sconn, err := ln.Accept()
	if err != nil {
		// the listener detects the codec from the recovered tag: a wrong tag or wrong stream ends here
		fail("accept-error|"+cs.TagKind, map[string]any{"err": err.Error()})
		return
	}
	ctx := context.Background()
	nm := 1 + r.IntN(6)
	for m := 0; m < nm; m++ {
		n := 8 + 4*r.IntN(700)
		if r.IntN(10) == 0 {
			n = 8 + 4*r.IntN(30000)
		}
		msg := uniqueBlock(r, cs.Idx, m, n)
		from, to, dir := cconn, sconn, "c2s"
		if r.IntN(2) == 0 {
			from, to, dir = sconn, cconn, "s2c"
		}
		if err := from.Send(ctx, &bin.Buffer{Buf: append([]byte(nil), msg...)}); err != nil {
			fail("send-error|"+dir, map[string]any{"err": err.Error(), "len": n})
			return
		}
		var got bin.Buffer
		if err := to.Recv(ctx, &got); err != nil {
			fail("recv-error|"+dir, map[string]any{"err": err.Error(), "len": n})
			return
		}
		if !bytes.Equal(got.Buf, msg) {
			fail("message-differs|"+dir, map[string]any{"len": n, "got_len": got.Len(), "first_diff_at": firstDiff(got.Buf, msg)})
			return
		}
		cs.Bytes += n
	}
	cs.Blocks = nm
	c.Add("listener_messages", int64(nm))
	c.Distinct(fmt.Sprintf("listener/%s/%s/%s/%s>%s", cs.TagKind, cs.DCKind, cs.RandKind, cs.C2SChunk, cs.S2CChunk))
	c.Sample("listener", cs)
}

func runC18(c *mon.Ctx) {
	c.Rule("arm direct: real obfuscated2.Handshake (adversarial random source: 64-byte blocks starting with each reserved pattern / a zero second word / near-misses first, " +
		"optionally short reads) -> harness byte pipe with per-direction read chunking (1-byte, write-boundary+-1, random<=4096, random<=65536, full, mixed) -> real obfuscated2.Accept; " +
		"tags {ef,ee,dd x4, arbitrary, edge}, dc in int16 (prod +-1..5, test +-10001.., extremes, uniform sample), secrets {none, 16 via ParseSecret, dd/ee/ef+16, ee+16+host, 17..56 bytes on one side and the 16-byte prefix on the other, 1..15 (coverage only), different secrets (monitor control)}; " +
		"1..8 unique-content blocks (0..80000 bytes, 1..4 Write calls each) in random directions, read back with random buffer sizes; oracle: recovered tag/dc equal, both byte streams equal, header bytes on the wire not reserved; " +
		"plus a passive specification tap decrypting both wire directions (signature family spec-tap). arm listener: obfuscator.Obfuscated2 + transport.Protocol(NoHeader codec) <-> transport.Listen(transport.ObfuscatedListener) with 1..6 messages. " +
		"arm reader-returns-data-with-error: the pipe returns the final chunk together with io.EOF (legal io.Reader), own signature. distinct non-trivial = distinct (arm, tag kind, dc kind, secret kind, random-stream kind, chunk policies, volume class)")
	c.Assume("the engine-local reference (refobfs2.go) is a faithful transcription of core.telegram.org/mtproto/mtproto-transports#transport-obfuscation; crypto/aes, crypto/cipher CTR, crypto/sha256 trusted")
	c.Assume("the harness pipe obeys the io.Reader contract (n>0 with nil error, or (0, io.EOF)); only the dedicated sub-workload returns (n>0, io.EOF)")
	n := c.N(3000, 200000)
	for i := 0; i < n; i++ {
		r := c.RandN("c18", i)
		cs := genC18(r, i)
		var pv any
		var stack string
		switch {
		case i%10 == 7:
			if cs.shortSecret || cs.wrongSecret {
				cs.SecretKind, cs.cliSecret, cs.srvSecret, cs.shortSecret, cs.wrongSecret = "none", mtproxy.Secret{}, nil, false, false
			}
			pv, stack = mon.Try(func() { runC18Listener(c, r, cs) })
		case i%10 == 3:
			if cs.shortSecret || cs.wrongSecret {
				cs.SecretKind, cs.cliSecret, cs.srvSecret, cs.shortSecret, cs.wrongSecret = "none", mtproxy.Secret{}, nil, false, false
			}
			pv, stack = mon.Try(func() { runC18ReaderErr(c, r, cs) })
		default:
			pv, stack = mon.Try(func() { runC18Session(c, r, cs) })
		}
		if pv != nil {
			c.Violate("panic|"+cs.Arm, map[string]any{"case": cs, "panic": fmt.Sprint(pv), "stack": stack})
		}
	}
	if c.DistinctCount() < 2 {
		c.Inconclusive("fewer than 2 distinct non-trivial sessions observed")
	}
}
