// Independent reference for transport obfuscation (never calls into gotd/td); kept inside the engine.
package main

import (
	"crypto/aes"
	"crypto/cipher"
	"crypto/sha256"
	"encoding/binary"
)

// Transport obfuscation reference, transcribed from
// core.telegram.org/mtproto/mtproto-transports#transport-obfuscation:
//
//	init            = 64 bytes, init[56:60] = protocol tag, init[60:62] = dc (int16 LE)
//	encrypt key/iv  = init[8:40] / init[40:56]
//	decrypt key/iv  = reverse(init)[8:40] / reverse(init)[40:56]
//	with a secret   : key = SHA256(key + secret[:16])
//	encrypted_init  = AES-256-CTR(encrypt)(init);  header = init[0:56] + encrypted_init[56:64]
//	all later bytes continue the same two CTR states.
//
// Only the first 56 header bytes enter the keys, so both streams can be derived
// from the bytes seen on the wire.

// obfs2Reserved names the reserved pattern a 64-byte header starts with, or "".
func obfs2Reserved(h []byte) string {
	if len(h) < 8 {
		return "short"
	}
	if h[0] == 0xef {
		return "first-byte-ef"
	}
	switch binary.LittleEndian.Uint32(h[0:4]) {
	case 0x44414548:
		return "HEAD"
	case 0x54534f50:
		return "POST"
	case 0x20544547:
		return "GET"
	case 0x4954504f:
		return "OPTI"
	case 0x02010316:
		return "02010316"
	case 0xdddddddd:
		return "dddddddd"
	case 0xeeeeeeee:
		return "eeeeeeee"
	}
	if binary.LittleEndian.Uint32(h[4:8]) == 0 {
		return "second-word-zero"
	}
	return ""
}

// obfs2Tap is a passive decryptor of both directions of one obfuscated2
// connection, derived from the header seen on the wire.
type obfs2Tap struct {
	Protocol [4]byte
	DC       int16
	c2s, s2c cipher.Stream
}

func obfs2CTR(key, iv []byte) cipher.Stream {
	blk, err := aes.NewCipher(key)
	if err != nil {
		panic(err)
	}
	return cipher.NewCTR(blk, iv)
}

// newObfs2Tap derives the tap from the 64 header bytes and the secret (nil/empty: none).
func newObfs2Tap(header []byte, secret []byte) *obfs2Tap {
	if len(header) != 64 {
		panic("refobfs2: header must be 64 bytes")
	}
	var rev [64]byte
	for i := range rev {
		rev[i] = header[63-i]
	}
	// reverse(init)[8:56] only touches init[8:56], which the wire carries in clear.
	ek := append([]byte(nil), header[8:40]...)
	eiv := append([]byte(nil), header[40:56]...)
	dk := append([]byte(nil), rev[8:40]...)
	div := append([]byte(nil), rev[40:56]...)
	if len(secret) > 0 {
		s := secret
		if len(s) > 16 {
			s = s[:16]
		}
		h := sha256.Sum256(append(append([]byte(nil), ek...), s...))
		ek = h[:]
		h2 := sha256.Sum256(append(append([]byte(nil), dk...), s...))
		dk = h2[:]
	}
	t := &obfs2Tap{c2s: obfs2CTR(ek, eiv), s2c: obfs2CTR(dk, div)}
	var plain [64]byte
	t.c2s.XORKeyStream(plain[:], header)
	copy(t.Protocol[:], plain[56:60])
	t.DC = int16(binary.LittleEndian.Uint16(plain[60:62]))
	return t
}

// C2S decrypts the next client→server wire bytes (after the header).
func (t *obfs2Tap) C2S(wire []byte) []byte {
	out := make([]byte, len(wire))
	t.c2s.XORKeyStream(out, wire)
	return out
}

// S2C decrypts the next server→client wire bytes.
func (t *obfs2Tap) S2C(wire []byte) []byte {
	out := make([]byte, len(wire))
	t.s2c.XORKeyStream(out, wire)
	return out
}
