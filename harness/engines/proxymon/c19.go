package main

import (
	"bytes"
	"fmt"
	"math/rand/v2"

	"github.com/gotd/td/mtproxy"
	"github.com/gotd/td/mtproxy/faketls"
	"github.com/gotd/td/mtproxy/obfuscated2"
	"github.com/gotd/td/mtproxy/obfuscator"

	"verif/harness/mon"
)

// ---- arm stream: FakeTLS writer -> wire (independent parser) -> FakeTLS reader ----

var boundaryLens = []int{0, 1, 2, 16383, 16384, 16385, 32768, 65534, 65535, 65536, 65537, 131071, 131072, 131073}

func lenClass(n int) string {
	switch {
	case n == 0:
		return "0"
	case n <= 16384:
		return "le16384"
	case n <= 65535:
		return "le65535"
	default:
		return "gt65535"
	}
}

type c19Seq struct {
	Idx      int    `json:"idx"`
	Arm      string `json:"arm"`
	Profile  string `json:"profile"`
	Writes   []int  `json:"write_lengths"`
	Total    int    `json:"total_bytes"`
	MaxWrite int    `json:"max_write"`
	Chunk    string `json:"read_chunking"`
	BufMode  string `json:"read_buffer_sizes"`
	Records  int    `json:"records_on_wire"`
	MaxRec   int    `json:"max_record_body"`
}

func genC19Seq(c *mon.Ctx, r *rand.Rand, idx int) *c19Seq {
	s := &c19Seq{Idx: idx, Arm: "stream"}
	// half of the sequences stay within one record per write (controls on an unrepaired tree)
	large := idx%2 == 1
	s.Profile = "writes<=65535"
	if large {
		s.Profile = "with-writes>65535"
	}
	hugeCap := c.N(1<<20, 4<<20)
	n := 1 + r.IntN(20)
	for i := 0; i < n; i++ {
		var l int
		switch k := r.IntN(20); {
		case k < 7:
			l = boundaryLens[r.IntN(len(boundaryLens))]
		case k < 15:
			l = 1 + r.IntN(5000)
		case k < 18:
			l = 1 + r.IntN(200000)
		case k < 19:
			l = 65536 + r.IntN(70000)
		default:
			l = 1 + r.IntN(hugeCap)
		}
		if !large && l > 65535 {
			l = 65535 - r.IntN(3) - (l % 49000)
		}
		s.Writes = append(s.Writes, l)
	}
	if large {
		has := false
		for _, l := range s.Writes {
			has = has || l > 65535
		}
		if !has {
			s.Writes[r.IntN(n)] = []int{65536, 65537, 70000, 131071, 131072, 131073, 65536 + r.IntN(200000)}[r.IntN(7)]
		}
	}
	for _, l := range s.Writes {
		s.Total += l
		s.MaxWrite = max(s.MaxWrite, l)
	}
	s.Chunk = chunkPolicies[r.IntN(len(chunkPolicies))]
	if s.Total > 3<<20 && s.Chunk == chOne && c.Quick() {
		s.Chunk = chBound
	}
	s.BufMode = bufModes[r.IntN(len(bufModes))]
	if s.Total > 1<<20 && s.BufMode == "1" {
		s.BufMode = "small"
	}
	return s
}

func runC19Stream(c *mon.Ctx, r *rand.Rand, s *c19Seq) {
	c.Eval(1)
	wEnd, rEnd, w2r, _ := newPipe(r, chFull, s.Chunk)
	wr := faketls.NewFakeTLS(&advRand{r: r}, wEnd)
	rd := faketls.NewFakeTLS(&advRand{r: r}, rEnd)
	cls := "maxwrite-" + lenClass(s.MaxWrite)
	var expected []byte
	checked := 0
	wireOK, readOK := true, true
	readBack := func() {
		want := expected[checked:]
		if len(want) == 0 || !readOK {
			return
		}
		got, err := drain(r, rd, len(want), s.BufMode)
		if err != nil || !bytes.Equal(got, want) {
			readOK = false
			c.Violate("stream|readback-differs|"+cls, map[string]any{
				"case": s, "read_err": fmt.Sprint(err), "want_len": len(want), "got_len": len(got),
				"first_diff_at": firstDiff(got, want), "stream_offset": checked,
			})
			return
		}
		checked = len(expected)
	}
	for i, l := range s.Writes {
		data := randBytes(r, l)
		if l >= 8 {
			copy(data, fmt.Sprintf("%04x%04x", s.Idx&0xffff, i))
		}
		before := len(w2r.log)
		n, err := wr.Write(data)
		if err != nil {
			c.Violate("stream|write-error|len-"+lenClass(l), map[string]any{"case": s, "write": i, "err": err.Error()})
			return
		}
		if n != l {
			c.Violate("stream|write-count-wrong|len-"+lenClass(l), map[string]any{"case": s, "write": i, "returned": n, "len": l})
		}
		// independent wire walk of exactly what this Write call emitted
		seg := w2r.log[before:]
		recs, perr := parseAll(seg)
		switch {
		case perr != nil:
			if wireOK {
				c.Violate("stream|wire-not-whole-records|len-"+lenClass(l), map[string]any{
					"case": s, "write": i, "write_len": l, "segment_len": len(seg), "parse_error": perr.Error(),
					"first_record_declares": func() int {
						if len(recs) > 0 {
							return len(recs[len(recs)-1].Body)
						}
						return -1
					}(),
				})
			}
			wireOK = false
		case !bytes.Equal(appPayload(recs), data):
			if wireOK {
				got := appPayload(recs)
				c.Violate("stream|wire-payload-differs|len-"+lenClass(l), map[string]any{
					"case": s, "write": i, "write_len": l, "payload_len": len(got), "first_diff_at": firstDiff(got, data),
				})
			}
			wireOK = false
		default:
			s.Records += len(recs)
			for _, rec := range recs {
				s.MaxRec = max(s.MaxRec, len(rec.Body))
				if rec.Type != recApp && !(rec.Type == recCCS && i == 0) {
					c.Violate("stream|unexpected-record-type", map[string]any{"case": s, "write": i, "type": rec.Type})
				}
			}
		}
		expected = append(expected, data...)
		if r.IntN(3) == 0 {
			readBack()
		}
	}
	readBack()
	c.Add("stream_bytes", int64(s.Total))
	c.Add("stream_records_parsed", int64(s.Records))
	c.Add("pipe_reads", int64(rEnd.reads))
	if wireOK && readOK {
		c.Add("stream_sequences_intact", 1)
	}
	classes := map[string]bool{}
	for _, l := range s.Writes {
		classes[lenClass(l)] = true
	}
	key := ""
	for _, k := range []string{"0", "le16384", "le65535", "gt65535"} {
		if classes[k] {
			key += k + ","
		}
	}
	c.Distinct(fmt.Sprintf("stream/%s/%s/%s/n%d", key, s.Chunk, s.BufMode, min(len(s.Writes), 8)/3))
	if s.Profile != "sweep-every-length" {
		c.Sample("stream-"+s.Profile, s)
	}
}

// ---- arm hello: real client Handshake against the harness server -----------

type c19Hello struct {
	Idx       int       `json:"idx"`
	Arm       string    `json:"arm"`
	Spec      helloSpec `json:"server"`
	Chunk     string    `json:"read_chunking"`
	Host      string    `json:"cloak_host"`
	Outcome   string    `json:"outcome"`
	ClientLen int       `json:"client_hello_len"`
}

func genHello(r *rand.Rand, idx int, exhaustiveFlip int) *c19Hello {
	h := &c19Hello{Idx: idx, Arm: "hello"}
	sp := &h.Spec
	sp.AppLen = 1 + r.IntN(4000)
	if r.IntN(10) == 0 {
		sp.AppLen = []int{1, 16384, 20000, 65535}[r.IntN(4)]
	}
	switch k := r.IntN(20); {
	case exhaustiveFlip >= 0:
		sp.Class, sp.Mut, sp.FlipBit, sp.Expect = "digest-flip", "digest-flip", exhaustiveFlip, "reject"
	case k < 4:
		sp.Class, sp.Expect = "correct", "accept"
	case k < 7:
		sp.Class, sp.Expect, sp.ExtraHS = "correct+extra-handshake-1..15", "accept", 1+r.IntN(15)
	case k < 8:
		// more handshake records than the client's documented sanity limit: no verdict either way
		sp.Class, sp.Expect, sp.ExtraHS = "correct+extra-handshake-16plus", "none", 16+r.IntN(8)
	case k < 10:
		sp.Class, sp.Mut, sp.Expect = "tamper-after", "tamper-after", "reject"
	default:
		sp.Mut = helloMutations[r.IntN(len(helloMutations))]
		sp.Class, sp.Expect = sp.Mut, "reject"
		if r.IntN(3) == 0 {
			sp.ExtraHS = r.IntN(6)
		}
	}
	h.Chunk = chunkPolicies[r.IntN(len(chunkPolicies))]
	h.Host = []string{"google.com", "example.org", "a.b", "very-long-cloak-host-name.with.many.labels.example.net", "xn--e1afmkfd.xn--p1ai"}[r.IntN(5)]
	return h
}

// tlsSecret builds a FakeTLS secret through the real parser.
func tlsSecret(raw []byte, host string) mtproxy.Secret {
	full := append([]byte{0xee}, raw...)
	full = append(full, host...)
	s, err := mtproxy.ParseSecret(full)
	if err != nil {
		panic(err)
	}
	return s
}

// reactiveServer answers the ClientHello found on c2s the first time the client starves.
type reactiveServer struct {
	c2s, s2c  *wire
	secret    []byte
	r         *rand.Rand
	spec      *helloSpec
	ci        clientHelloInfo
	helloEnd  int
	err       error
	responded bool
}

func (s *reactiveServer) respond() {
	if s.responded {
		return
	}
	s.responded = true
	ci, n, err := parseClientHello(s.c2s.log, s.secret)
	if err != nil {
		s.err = err
		return
	}
	if n != len(s.c2s.log) {
		s.err = fmt.Errorf("%d bytes follow the ClientHello before the server answered", len(s.c2s.log)-n)
		return
	}
	s.ci, s.helloEnd = ci, n
	s.c2s.rd = n
	for _, p := range buildServerHello(s.r, ci, s.secret, s.spec) {
		s.s2c.put(p)
	}
}

func runC19Hello(c *mon.Ctx, r *rand.Rand, h *c19Hello) {
	c.Eval(1)
	raw := randBytes(r, 16)
	secret := tlsSecret(raw, h.Host)
	cli, _, c2s, s2c := newPipe(r, h.Chunk, chFull)
	srv := &reactiveServer{c2s: c2s, s2c: s2c, secret: raw, r: r, spec: &h.Spec}
	cli.onEmpty = srv.respond
	ft := faketls.NewFakeTLS(&advRand{r: r}, cli)
	err := ft.Handshake([4]byte{0xdd, 0xdd, 0xdd, 0xdd}, 2, secret)
	h.ClientLen = srv.helloEnd
	if srv.err != nil || !srv.responded {
		c.Violate("hello|client-hello-unusable", map[string]any{"case": h, "server_error": fmt.Sprint(srv.err), "handshake_err": fmt.Sprint(err)})
		return
	}
	if srv.ci.DigestOK {
		c.Add("client_hello_digest_verified_by_server", 1)
	} else {
		c.Add("client_hello_digest_not_verified", 1) // outside the statement: coverage only
	}
	h.Outcome = "accepted"
	if err != nil {
		h.Outcome = "rejected"
	}
	c.Add("hello_"+h.Outcome, 1)
	sp := h.Spec
	switch {
	case sp.Expect == "reject" && err == nil:
		c.Violate("hello|accepted|"+sp.Class, map[string]any{"case": h})
	case sp.Expect == "accept" && err != nil:
		c.Violate("hello|rejected|"+sp.Class, map[string]any{"case": h, "err": err.Error()})
	}
	extra := "e0"
	if sp.ExtraHS > 0 {
		extra = "e+"
	}
	c.Distinct(fmt.Sprintf("hello/%s/%s/%s/%s", sp.Class, extra, h.Chunk, h.Outcome))
	c.Sample("hello-"+sp.Expect, h)
	if err != nil || sp.Expect != "accept" {
		return
	}
	// after an accepted hello the record stream must continue in step in both directions
	if s2c.avail() != 0 {
		c.Violate("hello|server-hello-bytes-left-unread", map[string]any{"case": h, "left": s2c.avail()})
		return
	}
	up := randBytes(r, 1+r.IntN(3000))
	if _, err := ft.Write(up); err != nil {
		c.Violate("hello|write-after-handshake", map[string]any{"case": h, "err": err.Error()})
		return
	}
	recs, perr := parseAll(c2s.log[srv.helloEnd:])
	if perr != nil || !bytes.Equal(appPayload(recs), up) {
		c.Violate("hello|upstream-after-handshake-differs", map[string]any{"case": h, "parse_error": fmt.Sprint(perr)})
	}
	down := randBytes(r, 1+r.IntN(40000))
	layer := &recLayer{in: c2s, out: s2c, r: r, maxRec: 16384}
	layer.Write(down)
	got, rerr := drain(r, ft, len(down), bufModes[r.IntN(len(bufModes))])
	if rerr != nil || !bytes.Equal(got, down) {
		c.Violate("hello|downstream-after-handshake-differs", map[string]any{
			"case": h, "read_err": fmt.Sprint(rerr), "want_len": len(down), "got_len": len(got), "first_diff_at": firstDiff(got, down)})
	}
	c.Add("hello_followup_exchanges", 1)
}

// ---- arm stack: obfuscator.FakeTLS (faketls + obfuscated2 inside) <-> harness TLS server + real Accept ----

type c19Stack struct {
	Idx    int    `json:"idx"`
	Arm    string `json:"arm"`
	Tag    string `json:"tag"`
	DC     int    `json:"dc"`
	Chunk  string `json:"client_read_chunking"`
	MaxRec int    `json:"server_max_record"`
	Blocks int    `json:"blocks"`
	Bytes  int    `json:"bytes"`
}

func runC19Stack(c *mon.Ctx, r *rand.Rand, idx int) {
	c.Eval(1)
	st := &c19Stack{Idx: idx, Arm: "stack", DC: (1 - 2*r.IntN(2)) * (1 + r.IntN(5))}
	tag := [][4]byte{{0xdd, 0xdd, 0xdd, 0xdd}, {0xee, 0xee, 0xee, 0xee}, {0xef, 0xef, 0xef, 0xef}}[r.IntN(3)]
	st.Tag = hx(tag[:])
	st.Chunk = chunkPolicies[r.IntN(len(chunkPolicies))]
	st.MaxRec = []int{16384, 65535}[r.IntN(2)]
	raw := randBytes(r, 16)
	secret := tlsSecret(raw, "example.org")
	cli, _, c2s, s2c := newPipe(r, st.Chunk, chFull)
	sp := &helloSpec{Class: "correct", Expect: "accept", AppLen: 1 + r.IntN(4000), ExtraHS: r.IntN(3)}
	srv := &reactiveServer{c2s: c2s, s2c: s2c, secret: raw, r: r, spec: sp}
	cli.onEmpty = srv.respond
	fail := func(sig string, extra map[string]any) {
		w := map[string]any{"case": st}
		for k, v := range extra {
			w[k] = v
		}
		c.Violate("stack|"+sig, w)
	}
	pre := []byte(nil)
	oc := obfuscator.FakeTLS(&advRand{r: r, pre: pre}, &netEnd{end: cli})
	if err := oc.Handshake(tag, st.DC, secret); err != nil {
		fail("handshake-error", map[string]any{"err": err.Error(), "server_error": fmt.Sprint(srv.err)})
		return
	}
	if srv.err != nil {
		fail("client-hello-unusable", map[string]any{"server_error": srv.err.Error()})
		return
	}
	cli.onEmpty = nil
	layer := &recLayer{in: c2s, out: s2c, r: r, maxRec: st.MaxRec}
	rw, meta, err := obfuscated2.Accept(layer, raw)
	if err != nil {
		fail("accept-error", map[string]any{"err": err.Error(), "record_error": fmt.Sprint(layer.bad)})
		return
	}
	if meta.Protocol != tag || int16(meta.DC) != int16(st.DC) {
		fail("meta-mismatch", map[string]any{"got_tag": hx(meta.Protocol[:]), "got_dc": int16(meta.DC)})
		return
	}
	recCls := fmt.Sprintf("rec-le%d", st.MaxRec)
	nb := 1 + r.IntN(6)
	for b := 0; b < nb; b++ {
		// client writes stay below one record: the >65535 case has its own signature in the stream arm
		n := min(blockLen(r), 65535)
		blk := uniqueBlock(r, idx, b, n)
		if r.IntN(2) == 0 {
			if err := writeSplit(r, oc, blk); err != nil {
				fail("write-error|c2s", map[string]any{"err": err.Error()})
				return
			}
			got, rerr := drain(r, rw, n, "mid")
			if rerr != nil || !bytes.Equal(got, blk) {
				fail("stream-differs|c2s", map[string]any{"read_err": fmt.Sprint(rerr), "record_error": fmt.Sprint(layer.bad), "want_len": n, "got_len": len(got), "first_diff_at": firstDiff(got, blk)})
				return
			}
		} else {
			if n > 0 && r.IntN(4) == 0 {
				n = 60000 + r.IntN(140000) // several full-size records downstream
				blk = uniqueBlock(r, idx, b, n)
			}
			if err := writeSplit(r, rw, blk); err != nil {
				fail("write-error|s2c", map[string]any{"err": err.Error()})
				return
			}
			got, rerr := drain(r, oc, n, bufModes[r.IntN(len(bufModes))])
			if rerr != nil || !bytes.Equal(got, blk) {
				fail("stream-differs|s2c|"+recCls, map[string]any{"read_err": fmt.Sprint(rerr), "want_len": n, "got_len": len(got), "first_diff_at": firstDiff(got, blk)})
				return
			}
		}
		st.Bytes += n
	}
	st.Blocks = nb
	c.Add("stack_bytes", int64(st.Bytes))
	c.Add("stack_server_records", int64(layer.recs))
	c.Distinct(fmt.Sprintf("stack/%s/%s/%s", st.Tag[:2], st.Chunk, recCls))
	c.Sample("stack", st)
}

func runC19(c *mon.Ctx) {
	c.Rule("arm stream: one real FakeTLS writes a sequence of 1..20 buffers (lengths from {0,1,2,16383..16385,32768,65534..65537,131071..131073}, random<=5000, <=200000, <=1 MiB quick / 4 MiB thorough; " +
		"odd sequences contain at least one write >65535, even ones none; plus every length 0..2100 once) into the harness wire; an independent record parser walks exactly the bytes each Write emitted (whole records, valid type/version, application bodies == the buffer), " +
		"a second real FakeTLS reads the wire back through the chunking pipe (1-byte, record-boundary+-1, random, full, mixed) with random buffer sizes and must return the concatenation. " +
		"arm hello: real FakeTLS.Handshake against a harness server (ServerHello+[extra handshake records]+ChangeCipherSpec+application record, digest HMAC-SHA256(secret, client_random||response with zeroed random)): " +
		"correct (0..15 extra records) must be accepted and followed by an in-step exchange; wrong secret (other, 1 bit, truncated, empty), wrong client random (other, 1 bit anywhere, 1 bit in the timestamp tail, zero, omitted, appended, used as key), " +
		"every single digest bit flipped (256, exhaustive), zero digest, echoed client random, plain SHA-256, body tampered after signing must be rejected; >=16 extra records: no verdict. " +
		"arm stack: obfuscator.FakeTLS (faketls+obfuscated2) against the harness TLS server feeding real obfuscated2.Accept, server records up to 16384 or 65535 bytes. " +
		"distinct non-trivial = distinct (arm, write-length classes / hello class and outcome, chunk policy, buffer mode)")
	c.Assume("harness record parser and server hello follow the MTProxy FakeTLS description; crypto/hmac, crypto/sha256 trusted")
	c.Assume("a digest forged by chance (2^-256) is not a realistic false alarm; the ClientHello comes from refraction-networking/utls and is only parsed for its random and session id")
	nSeq := c.N(400, 12000)
	for i := 0; i < nSeq; i++ {
		r := c.RandN("c19-stream", i)
		s := genC19Seq(c, r, i)
		if pv, stack := mon.Try(func() { runC19Stream(c, r, s) }); pv != nil {
			c.Violate("panic|stream|maxwrite-"+lenClass(s.MaxWrite), map[string]any{"case": s, "panic": fmt.Sprint(pv), "stack": stack})
		}
	}
	// every write length 0..2100 once (small-record fast paths, header-sized buffers), 300 writes per sequence
	for base, k := 0, 0; base <= 2100; base, k = base+300, k+1 {
		r := c.RandN("c19-sweep", k)
		s := &c19Seq{Idx: 100000 + k, Arm: "stream", Profile: "sweep-every-length", Chunk: chunkPolicies[k%len(chunkPolicies)], BufMode: bufModes[k%len(bufModes)]}
		for l := base; l < base+300 && l <= 2100; l++ {
			s.Writes = append(s.Writes, l)
			s.Total += l
			s.MaxWrite = l
		}
		if pv, stack := mon.Try(func() { runC19Stream(c, r, s) }); pv != nil {
			c.Violate("panic|stream|maxwrite-"+lenClass(s.MaxWrite), map[string]any{"case": s, "panic": fmt.Sprint(pv), "stack": stack})
		}
	}
	nHello := c.N(1200, 40000)
	for i := 0; i < nHello; i++ {
		r := c.RandN("c19-hello", i)
		flip := -1
		if i < 256 {
			flip = i // every digest bit once
		}
		h := genHello(r, i, flip)
		if pv, stack := mon.Try(func() { runC19Hello(c, r, h) }); pv != nil {
			c.Violate("panic|hello|"+h.Spec.Class, map[string]any{"case": h, "panic": fmt.Sprint(pv), "stack": stack})
		}
	}
	nStack := c.N(300, 6000)
	for i := 0; i < nStack; i++ {
		r := c.RandN("c19-stack", i)
		if pv, stack := mon.Try(func() { runC19Stack(c, r, i) }); pv != nil {
			c.Violate("panic|stack", map[string]any{"idx": i, "panic": fmt.Sprint(pv), "stack": stack})
		}
	}
	if c.DistinctCount() < 2 {
		c.Inconclusive("fewer than 2 distinct non-trivial cases observed")
	}
}

var _ = rand.IntN
