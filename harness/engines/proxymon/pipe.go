package main

import (
	"encoding/binary"
	"encoding/hex"
	"io"
	"math/rand/v2"
	"net"
	"time"
)

// wire is one direction of the harness byte pipe: an append-only log of every
// byte written (kept for the wire parsers / taps), a read cursor, and the end
// offsets of all Write calls ("marks") used by the boundary chunking policy.
// Everything runs on one goroutine: a Read on an empty wire is the peer having
// closed (io.EOF), never a block.
type wire struct {
	log   []byte
	rd    int
	marks []int
	mi    int
	calls int
}

func (w *wire) put(p []byte) {
	w.calls++
	w.log = append(w.log, p...)
	if len(p) > 0 {
		w.marks = append(w.marks, len(w.log))
	}
}

func (w *wire) avail() int { return len(w.log) - w.rd }

// nextMark is the smallest write boundary strictly after the read cursor.
func (w *wire) nextMark() int {
	for w.mi < len(w.marks) && w.marks[w.mi] <= w.rd {
		w.mi++
	}
	if w.mi < len(w.marks) {
		return w.marks[w.mi]
	}
	return len(w.log)
}

// chunk policies of the reading side
const (
	chOne   = "1-byte"
	chBound = "boundary+-1"
	chRand  = "rand<=4096"
	chBig   = "rand<=65536"
	chFull  = "full"
	chMix   = "mixed"
)

var chunkPolicies = []string{chOne, chBound, chRand, chBig, chFull, chMix}

type chunker struct {
	mode string
	r    *rand.Rand
}

func (c *chunker) next(w *wire, want int) int {
	avail := w.avail()
	mode := c.mode
	if mode == chMix {
		mode = chunkPolicies[c.r.IntN(5)]
	}
	n := want
	switch mode {
	case chOne:
		n = 1
	case chBound:
		n = w.nextMark() - w.rd + c.r.IntN(3) - 1
	case chRand:
		n = 1 + c.r.IntN(4096)
	case chBig:
		n = 1 + c.r.IntN(65536)
	}
	if n < 1 {
		n = 1
	}
	if n > want {
		n = want
	}
	if n > avail {
		n = avail
	}
	return n
}

// end is one endpoint of the pipe (an io.ReadWriter obeying the io.Reader
// contract: 0 < n <= len(p) with nil error, or (0, io.EOF) when drained).
type end struct {
	in, out *wire
	ch      *chunker
	// dataWithErr: the read that drains the wire returns (n>0, io.EOF) — legal
	// for io.Reader, used only by the dedicated C18 sub-workload.
	dataWithErr bool
	// onEmpty is called once per starvation; a reactive peer may append to in.
	onEmpty func()
	reads   int
	maxRead int
}

func (e *end) Read(p []byte) (int, error) {
	if len(p) == 0 {
		return 0, nil
	}
	if e.in.avail() == 0 && e.onEmpty != nil {
		e.onEmpty()
	}
	if e.in.avail() == 0 {
		return 0, io.EOF
	}
	n := e.ch.next(e.in, len(p))
	copy(p, e.in.log[e.in.rd:e.in.rd+n])
	e.in.rd += n
	e.reads++
	if n > e.maxRead {
		e.maxRead = n
	}
	if e.dataWithErr && e.in.avail() == 0 {
		return n, io.EOF
	}
	return n, nil
}

func (e *end) Write(p []byte) (int, error) {
	e.out.put(p)
	return len(p), nil
}

func newPipe(r *rand.Rand, aPolicy, bPolicy string) (a, b *end, a2b, b2a *wire) {
	a2b, b2a = &wire{}, &wire{}
	a = &end{in: b2a, out: a2b, ch: &chunker{mode: aPolicy, r: r}}
	b = &end{in: a2b, out: b2a, ch: &chunker{mode: bPolicy, r: r}}
	return
}

// netEnd dresses an end as a net.Conn (deadlines are accepted and ignored:
// nothing blocks in the single-goroutine pipe).
type netEnd struct {
	*end
	closed bool
}

type pipeAddr struct{}

func (pipeAddr) Network() string { return "verif-pipe" }
func (pipeAddr) String() string  { return "verif-pipe" }

func (n *netEnd) Close() error                     { n.closed = true; return nil }
func (n *netEnd) LocalAddr() net.Addr              { return pipeAddr{} }
func (n *netEnd) RemoteAddr() net.Addr             { return pipeAddr{} }
func (n *netEnd) SetDeadline(time.Time) error      { return nil }
func (n *netEnd) SetReadDeadline(time.Time) error  { return nil }
func (n *netEnd) SetWriteDeadline(time.Time) error { return nil }

// oneListener hands out the prepared connections, then reports closure.
type oneListener struct{ conns []net.Conn }

func (l *oneListener) Accept() (net.Conn, error) {
	if len(l.conns) == 0 {
		return nil, net.ErrClosed
	}
	c := l.conns[0]
	l.conns = l.conns[1:]
	return c, nil
}
func (l *oneListener) Close() error   { return nil }
func (l *oneListener) Addr() net.Addr { return pipeAddr{} }

// advRand is the adversarial random source: it first emits the prepared bytes
// (64-byte blocks starting with reserved patterns, so that the handshake's
// rejection loop has to iterate), then a seeded PCG stream. With short=true it
// returns fewer bytes than asked (legal for io.Reader; generateInit uses
// io.ReadFull).
type advRand struct {
	pre   []byte
	r     *rand.Rand
	short bool
	all   []byte // everything emitted, kept when keep is set
	keep  bool
	taken int
}

func (a *advRand) Read(p []byte) (int, error) {
	if len(p) == 0 {
		return 0, nil
	}
	n := len(p)
	if a.short && n > 1 {
		n = 1 + a.r.IntN(n)
	}
	k := copy(p[:n], a.pre)
	a.pre = a.pre[k:]
	fill(a.r, p[k:n])
	if a.keep {
		a.all = append(a.all, p[:n]...)
	}
	a.taken += n
	return n, nil
}

func fill(r *rand.Rand, p []byte) {
	i := 0
	for ; i+8 <= len(p); i += 8 {
		binary.LittleEndian.PutUint64(p[i:], r.Uint64())
	}
	if i < len(p) {
		v := r.Uint64()
		for ; i < len(p); i++ {
			p[i] = byte(v)
			v >>= 8
		}
	}
}

func randBytes(r *rand.Rand, n int) []byte {
	b := make([]byte, n)
	fill(r, b)
	return b
}

func hx(b []byte) string {
	if len(b) > 96 {
		return hex.EncodeToString(b[:96]) + "..."
	}
	return hex.EncodeToString(b)
}

// firstDiff returns the first index where a and b differ (min length if one is a prefix).
func firstDiff(a, b []byte) int {
	n := min(len(a), len(b))
	for i := 0; i < n; i++ {
		if a[i] != b[i] {
			return i
		}
	}
	return n
}

// drain reads exactly want bytes from rd with random buffer sizes (bufMode
// picks the distribution) and returns what it got and the first error.
func drain(r *rand.Rand, rd io.Reader, want int, bufMode string) ([]byte, error) {
	out := make([]byte, 0, want)
	var buf []byte
	stalls := 0
	for len(out) < want {
		var sz int
		switch bufMode {
		case "1":
			sz = 1
		case "small":
			sz = 1 + r.IntN(64)
		case "huge":
			sz = 1 + r.IntN(200000)
		default:
			sz = 1 + r.IntN(8192)
		}
		if cap(buf) < sz {
			buf = make([]byte, sz)
		}
		n, err := rd.Read(buf[:sz])
		out = append(out, buf[:n]...) // a correct consumer processes n bytes before looking at err
		if err != nil {
			return out, err
		}
		if n == 0 {
			if stalls++; stalls > 100 {
				return out, io.ErrNoProgress
			}
		}
	}
	return out, nil
}

var bufModes = []string{"1", "small", "mid", "huge"}
