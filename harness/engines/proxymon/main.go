// Engine proxymon: monitors for the MTProxy obfuscation layers
// (C18 obfuscated2 handshake and streams, C19 FakeTLS record layer and server digest).
package main

import (
	"verif/harness/mon"
)

func main() {
	mon.Main("proxymon", map[string]mon.PropFunc{
		"C18": runC18,
		"C19": runC19,
	})
}
