package main

import (
	"context"
	"errors"
	"fmt"
	"time"

	"github.com/gotd/td/mt"
	"github.com/gotd/td/rpc"

	"verif/harness/mon"
)

// runC26 is the connection-level arm of C26: the classification of close and
// cancellation as seen by callers of Conn.Invoke (mtproto/rpc.go), including
// the bad_server_salt retry path that the engine-level monitor does not execute.
func runC26(c *mon.Ctx) {
	c.Rule("connection arm: K=1..4 concurrent Conn.Invoke on a real mtproto.Conn over the fake transport; per request a scripted history " +
		"{no server reaction | msgs_ack consumed | bad_server_salt -> retransmission observed | ... -> msgs_ack of the retransmission consumed | msgs_ack consumed, then " +
		"bad_server_salt -> retransmission observed | context cancelled before the call (transport refuses the write)} and an ending {caller context cancelled | connection " +
		"closed by cancelling Conn.Run's context | connection closed by a transport read error}; 'consumed' is known from a sentinel in the same container, 'retransmission " +
		"observed' from the decrypted frame. Oracle per request: closed and last transmission unacknowledged -> errors.Is(err, rpc.ErrEngineClosed); closed and acknowledged -> " +
		"an error that is not ErrEngineClosed; cancelled -> errors.Is(err, context.Canceled) and exactly one rpc_drop_answer frame for its msg_id iff the request was sent, " +
		"none for any other msg_id; every Invoke returns (watchdog -> inconclusive). distinct non-trivial = (history, ending, K) classes")
	c.Assume("refmodel cipher and generated mt TL encoders trusted; the harness answers every rpc_drop_answer request synchronously (dropped / dropped_running / unknown)")
	n := c.N(240, 10000)
	for i := 0; i < n; i++ {
		if !c26Scenario(c, i) {
			break
		}
	}
}

type c26req struct {
	N        int64  `json:"n"`
	History  string `json:"history"`
	Ending   string `json:"ending"`
	MsgID    int64  `json:"msg_id,omitempty"`
	SeqNo    int32  `json:"seq_no,omitempty"`
	Tx       int    `json:"transmissions"`
	Acked    bool   `json:"last_transmission_acknowledged"`
	Returned bool   `json:"returned"`
	Nil      bool   `json:"returned_nil,omitempty"`
	Err      string `json:"err,omitempty"`
	Drops    int    `json:"drop_requests"`
	err      error
	cancel   context.CancelFunc
	ret      chan error
}

func c26Scenario(c *mon.Ctx, idx int) bool {
	r := c.RandN("c26-conn", idx)
	l := newLink(c, r, linkOpts{start: time.Unix(1_720_000_000+int64(r.IntN(1_000_000)), 0), salt: int64(r.Uint64() | 1), honorCtx: true})
	dropKind := r.IntN(3)
	l.setReact(func(f *frame) {
		if f.TypeID != typDrop {
			return
		}
		var ans []byte
		switch dropKind {
		case 0:
			ans = tl(&mt.RPCAnswerDropped{MsgID: f.DropID, SeqNo: 1, Bytes: 16})
		case 1:
			ans = tl(&mt.RPCAnswerDroppedRunning{})
		default:
			ans = tl(&mt.RPCAnswerUnknown{})
		}
		l.push(resultTL(f.MsgID, ans), false)
	})
	if err := l.start(); err != nil {
		c.Inconclusive("c26 conn start: " + err.Error())
		return false
	}
	defer l.stop()
	histories := []string{"none", "acked", "bad-salt-retransmitted", "bad-salt-retransmitted-acked", "acked-then-bad-salt-retransmitted", "not-sent"}
	closeMode := []string{"run-context-cancelled", "transport-read-error"}[r.IntN(2)]
	k := 1 + r.IntN(4)
	var reqs []*c26req
	var script []string
	byMsg := map[int64]*c26req{}
	strayDrops := 0
	witness := func(q *c26req) map[string]any {
		return map[string]any{"scenario": idx, "close_mode": closeMode, "request": q, "requests": reqs, "script": script, "frames": l.framesCopy(), "events": l.eventsCopy()}
	}
	fail := func(err error) bool {
		for _, q := range reqs {
			q.cancel()
		}
		c.Inconclusive(fmt.Sprintf("c26 conn scenario %d: %v", idx, err))
		return !errors.Is(err, errWatchdog)
	}
	take := func(f *frame) {
		switch f.TypeID {
		case typReq:
			if q := byMsg[f.MsgID]; q != nil {
				q.Tx++
			} else {
				for _, q := range reqs {
					if q.N == f.ReqN && q.History == "not-sent" {
						q.Tx++
					}
				}
			}
		case typDrop:
			if q := byMsg[f.DropID]; q != nil {
				q.Drops++
			} else {
				strayDrops++
			}
		}
	}
	awaitTx := func(q *c26req, want int) error {
		for q.Tx < want {
			f, err := l.nextFrame()
			if err != nil {
				return err
			}
			if f.TypeID == typReq && f.ReqN == q.N && q.MsgID == 0 {
				q.MsgID, q.SeqNo = f.MsgID, f.SeqNo
				byMsg[f.MsgID] = q
			}
			take(f)
		}
		return nil
	}
	awaitReturn := func(q *c26req) error {
		select {
		case err := <-q.ret:
			q.Returned, q.err, q.Nil = true, err, err == nil
			if err != nil {
				q.Err = err.Error()
			}
			return nil
		case <-time.After(waitLimit):
			return errWatchdog
		}
	}
	// launch: one after the other, so that every msg_id is attributed to its caller
	for i := 0; i < k; i++ {
		q := &c26req{N: int64(i + 1), History: histories[r.IntN(len(histories))], ret: make(chan error, 1)}
		switch {
		case q.History == "not-sent":
			q.Ending = "cancelled"
		case r.IntN(3) == 0:
			q.Ending = "cancelled"
		default:
			q.Ending = "closed:" + closeMode
		}
		ctx, cancel := context.WithCancel(context.Background())
		q.cancel = cancel
		reqs = append(reqs, q)
		if q.History == "not-sent" {
			cancel()
		}
		go func() {
			var out hResp
			q.ret <- l.conn.Invoke(ctx, &hReq{N: q.N}, &out)
		}()
		if q.History == "not-sent" {
			script = append(script, fmt.Sprintf("request %d: context cancelled before Invoke", q.N))
			if err := awaitReturn(q); err != nil {
				return fail(err)
			}
			continue
		}
		if err := awaitTx(q, 1); err != nil {
			return fail(err)
		}
	}
	// histories, request by request in random order
	for _, i := range r.Perm(k) {
		q := reqs[i]
		ack := func() error {
			script = append(script, fmt.Sprintf("request %d: msgs_ack delivered and consumed", q.N))
			if err := l.pushSync(ackTL(q.MsgID)); err != nil {
				return err
			}
			q.Acked = true
			return nil
		}
		reject := func() error {
			script = append(script, fmt.Sprintf("request %d: bad_server_salt, retransmission awaited", q.N))
			l.push(badSaltTL(q.MsgID, q.SeqNo, int64(r.Uint64()|1)), false)
			q.Acked = false
			return awaitTx(q, q.Tx+1)
		}
		var err error
		switch q.History {
		case "acked":
			err = ack()
		case "bad-salt-retransmitted":
			err = reject()
		case "bad-salt-retransmitted-acked":
			if err = reject(); err == nil {
				err = ack()
			}
		case "acked-then-bad-salt-retransmitted":
			if err = ack(); err == nil {
				err = reject()
			}
		}
		if err != nil {
			return fail(err)
		}
	}
	// endings: cancellations first (one at a time), then the connection is closed
	for _, i := range r.Perm(k) {
		q := reqs[i]
		if q.Ending != "cancelled" || q.Returned {
			continue
		}
		script = append(script, fmt.Sprintf("request %d: caller context cancelled", q.N))
		q.cancel()
		if err := awaitReturn(q); err != nil {
			return fail(err)
		}
	}
	script = append(script, "connection closed: "+closeMode)
	if closeMode == "run-context-cancelled" {
		l.log("harness-cancel", 0, 0, "")
		l.cancel()
	} else {
		l.failRead()
	}
	for _, q := range reqs {
		if !q.Returned {
			if err := awaitReturn(q); err != nil {
				return fail(err)
			}
		}
	}
	for {
		select {
		case f := <-l.notify:
			take(f)
			continue
		default:
		}
		break
	}
	// verdicts
	for _, q := range reqs {
		c.Eval(1)
		cls := q.History + "|" + q.Ending
		ok := true
		bad := func(sig string) {
			ok = false
			c.Violate("conn|"+sig+"|"+cls, witness(q))
		}
		switch {
		case q.Ending == "cancelled":
			wantDrops := 1
			if q.History == "not-sent" {
				wantDrops = 0
				if q.Tx != 0 {
					c.Inconclusive(fmt.Sprintf("c26 conn scenario %d: pre-cancelled request reached the wire", idx))
					continue
				}
			}
			if !errors.Is(q.err, context.Canceled) {
				bad("cancelled-but-error-is-not-context-canceled")
			}
			if q.History != "not-sent" && q.Drops != wantDrops {
				bad(fmt.Sprintf("cancelled-drop-requests=%d-want-%d", q.Drops, wantDrops))
			}
		case q.Nil:
			bad("closed-but-invoke-returned-nil-without-result")
		case !q.Acked:
			if !errors.Is(q.err, rpc.ErrEngineClosed) {
				bad("closed-unacknowledged-but-not-ErrEngineClosed")
			}
			if q.Drops != 0 {
				bad(fmt.Sprintf("closed-drop-requests=%d-want-0", q.Drops))
			}
		default:
			if errors.Is(q.err, rpc.ErrEngineClosed) {
				bad("closed-acknowledged-but-ErrEngineClosed")
			}
			if q.Drops != 0 {
				bad(fmt.Sprintf("closed-drop-requests=%d-want-0", q.Drops))
			}
		}
		if ok {
			c.Distinct(fmt.Sprintf("conn/%s/k%d", cls, k))
			c.Add("conn_requests_"+q.Ending, 1)
			c.Sample("conn/"+q.History+"/"+q.Ending, map[string]any{"request": q})
		}
	}
	if strayDrops != 0 {
		c.Eval(1)
		c.Violate("conn|drop-request-for-unknown-msg-id", witness(nil))
	}
	c.Add("conn_scenarios", 1)
	return c.Violations() < 8
}
