package main

import (
	"context"
	"errors"
	"fmt"
	"math/rand/v2"
	"os"
	"sync"
	"time"

	"github.com/gotd/td/mt"

	"verif/harness/mon"
)

func runC41(c *mon.Ctx) {
	c.Rule("(1) unit: random Store/Get/Reset sequences on the real salts.Salts (future-salt sets overlapping, duplicated with equal and different validity, " +
		"already expired, ending exactly at / next to the deadline, unsorted; clock readings advancing, hitting validity boundaries, stepping back) checked by a " +
		"relational model (returned salt must be announced since the last Reset with valid_until > deadline; 'none' only if no certainly-stored valid salt), and " +
		"concurrent Store/Get/Reset histories checked for linearizability against the same model with porcupine. " +
		"(2) connection: the real mtproto.Conn runs on a fake transport with a neo fake clock; the harness plays the server (independent refmodel cipher), decrypts " +
		"every client frame and checks its salt at the fake instant t of the write: allowed = last salt told by the server (preset / new_session_created / " +
		"bad_server_salt) or an announced future salt with valid_until > t+300s, or - only when no announced salt is valid past the lookahead - a future salt that " +
		"was valid past the lookahead when announced. Random programs of travel (incl. exact validity/lookahead boundaries), future_salts, new_session_created, " +
		"Ping, and Invoke with bad_server_salt before ack / after ack / twice / duplicated: transmissions of the request counted per msg_id (must be 2 after one " +
		"bad_server_salt, carrying the new salt; no third one after a second). (3) traffic: with an adopted future salt, bad_server_salt is delivered inside a burst of " +
		"0..39+0..39 unrelated server messages handled on their own goroutines; the retransmission must still carry the new salt. " +
		"(3b) multi: 2..4 Invokes in flight under the same salt, each rejected with bad_server_salt carrying the same / different new salt, in every order: back to back, " +
		"in one container, strictly one after the other (next rejection only after the previous retransmission was seen), interleaved with the previous request's " +
		"retransmission and result; per msg_id exactly 2 transmissions, the second with the new salt, Invoke returns the result. " +
		"(3c) named: future_salts sets whose members end 1 s..6 min after now / after the lookahead edge plus long-lived ones, delivered before or after the send; the clock " +
		"travels between send and rejection (none / small / so that the named salt is valid but inside the lookahead); bad_server_salt names a stored salt (first / middle / " +
		"last by validity) or an unknown one; the retransmission must carry exactly the named salt. " +
		"(4) stress: concurrent Invokes with bad_server_salt on random requests under -race. " +
		"distinct non-trivial = (frame kind, salt class) pairs, invoke plans x salt class, unit observation classes, porcupine history shapes")
	c.Assume("refmodel MTProto 2.0 cipher and the generated mt TL encoders are trusted; the harness model of 'told'/'announced' salts follows the order in which " +
		"the harness injected server messages, each injection synchronised by an observable effect (sentinel in the same container, OnSession, retransmitted frame)")
	c.Assume("RetryInterval is set so that the rpc retry timer never fires: every retransmission observed is caused by the bad-salt path")
	// debugging aid only (never set by ./check): run a single arm
	if arm := os.Getenv("SALTPING_ARM"); arm != "" {
		f := map[string]func(*mon.Ctx, int) bool{"scenario": c41Scenario, "traffic": c41Traffic, "named": c41Named, "multi": c41Multi, "stress": c41Stress}[arm]
		for i := 0; f != nil && i < c.N(400, 20000); i++ {
			if !f(c, i) {
				break
			}
		}
		return
	}
	c41UnitSequential(c)
	c41UnitConcurrent(c)
	n := c.N(400, 20000)
	for i := 0; i < n; i++ {
		if !c41Scenario(c, i) {
			break
		}
	}
	k := c.N(150, 6000)
	for i := 0; i < k; i++ {
		if !c41Traffic(c, i) {
			break
		}
	}
	nn := c.N(150, 6000)
	for i := 0; i < nn; i++ {
		if !c41Named(c, i) {
			break
		}
	}
	q := c.N(240, 8000)
	for i := 0; i < q; i++ {
		if !c41Multi(c, i) {
			break
		}
	}
	m := c.N(40, 2000)
	for i := 0; i < m; i++ {
		if !c41Stress(c, i) {
			break
		}
	}
}

// ---- frame salt oracle ----

type annRec struct {
	Salt int64 `json:"salt"`
	VU   int64 `json:"valid_until"`
	TA   int64 `json:"announced_at_nano"`
}

type saltOracle struct {
	Told  []int64  `json:"told"`
	Store []annRec `json:"announced_since_reset"`
	Old   []int64  `json:"superseded_told"`
	// future salts that were announced before the last bad_server_salt (the
	// connection discards its stored future salts when it handles one).
	Discarded []annRec `json:"discarded_by_bad_server_salt,omitempty"`
}

// reset models salts.Reset on bad_server_salt.
func (o *saltOracle) reset() {
	o.Discarded = append(o.Discarded, o.Store...)
	o.Store = nil
}

func (o *saltOracle) tell(s ...int64) {
	o.Old = append(o.Old, o.Told...)
	o.Told = append([]int64(nil), s...)
}

func (o *saltOracle) classify(f *frame) (string, bool) {
	for _, s := range o.Told {
		if s == f.Salt {
			return "told", true
		}
	}
	lim := f.TNano + 300*int64(time.Second)
	// anyEligible makes the oracle stricter, so it only counts salts that are
	// valid past the lookahead under EVERY announcement of that value (the store
	// keeps one of several announcements of the same salt, which one is not specified).
	mine, mineStored, mineWasEligible := false, false, false
	certain := map[int64]bool{}
	for _, a := range o.Store {
		el := a.VU*int64(time.Second) > lim
		if prev, seen := certain[a.Salt]; seen {
			certain[a.Salt] = prev && el
		} else {
			certain[a.Salt] = el
		}
		if a.Salt == f.Salt {
			mineStored = true
			if el {
				mine = true
			}
			if a.VU*int64(time.Second) > a.TA+300*int64(time.Second) {
				mineWasEligible = true
			}
		}
	}
	anyEligible := false
	for _, v := range certain {
		anyEligible = anyEligible || v
	}
	switch {
	case mine:
		return "future-valid-past-lookahead", true
	case mineStored && !anyEligible && mineWasEligible:
		return "future-kept-without-successor", true
	case mineStored && anyEligible:
		return "future-salt-inside-lookahead-or-expired-while-valid-one-stored", false
	case mineStored:
		return "future-salt-never-valid-past-lookahead", false
	}
	for _, s := range o.Old {
		if s == f.Salt {
			return "superseded-salt", false
		}
	}
	for _, a := range o.Discarded {
		if a.Salt == f.Salt {
			return "future-salt-discarded-by-bad-server-salt", false
		}
	}
	return "unannounced-salt", false
}

// ---- sequential scenario ----

type c41scn struct {
	c        *mon.Ctx
	l        *link
	r        *rand.Rand
	o        saltOracle
	idx      int
	trace    []map[string]any
	tx       map[int64]int
	wantTx   map[int64]int
	plans    map[int64]string
	reqN     int64
	session  bool
	lastGet  int64
	pool     []mt.FutureSalt
	strict   bool
	lastKind string
	// after a request was given up on its second bad_server_salt: the salt of
	// that second notification (0 = nothing pending).
	secondTold, firstTold int64
}

// tell records a new "last told" salt set; a pending second-bad-salt marker ends here.
func (s *c41scn) tell(v ...int64) {
	s.secondTold, s.firstTold = 0, 0
	s.o.tell(v...)
}

func (s *c41scn) step(kind string, kv map[string]any) {
	if kv == nil {
		kv = map[string]any{}
	}
	kv["step"] = kind
	kv["t"] = s.l.clk.Now().Unix()
	s.trace = append(s.trace, kv)
}

func (s *c41scn) witness(extra map[string]any) map[string]any {
	w := map[string]any{"scenario": s.idx, "program": s.trace, "oracle": s.o, "frames": s.l.framesCopy()}
	for k, v := range extra {
		w[k] = v
	}
	return w
}

func (s *c41scn) observe(f *frame) {
	if f.Bad != "" {
		s.c.Inconclusive("client frame not decodable by the reference cipher: " + f.Bad)
		return
	}
	s.c.Eval(1)
	if f.TypeID == typReq {
		s.tx[f.MsgID]++
	}
	class, ok := s.o.classify(f)
	if !ok {
		s.c.Violate("frame-salt|"+class+"|"+f.kind(), s.witness(map[string]any{"frame": f}))
		return
	}
	s.c.Distinct("frame/" + f.kind() + "/" + class)
	s.c.Add("frames_"+class, 1)
	s.lastKind = class
	if s.secondTold != 0 && class == "told" {
		// Doubtful, not demanded by the statement (see report): the salt of a second
		// bad_server_salt for the same request is not adopted by the connection.
		if f.Salt == s.firstTold {
			s.c.Add("doubtful_frames_with_first_new_salt_after_second_bad_server_salt", 1)
			if s.strict {
				s.c.Violate("doubtful|salt-of-second-bad-server-salt-not-adopted|"+f.kind(), s.witness(map[string]any{"frame": f}))
			}
		} else {
			s.c.Add("frames_with_second_new_salt_after_second_bad_server_salt", 1)
		}
		s.secondTold, s.firstTold = 0, 0
	}
}

func (s *c41scn) awaitFrame(pred func(*frame) bool) (*frame, error) {
	for {
		f, err := s.l.nextFrame()
		if err != nil {
			return nil, err
		}
		s.observe(f)
		if pred(f) {
			return f, nil
		}
	}
}

// frameOrDone waits for the next client frame or the completion of the call.
// Frames win: a frame sent before the call returned is already queued when the
// completion becomes readable, so the queue is polled again before a completion
// is reported (the completion is put back and reported by the next call).
func (s *c41scn) frameOrDone(done chan error) (*frame, error, bool, error) {
	poll := func() *frame {
		select {
		case f := <-s.l.notify:
			s.observe(f)
			return f
		default:
			return nil
		}
	}
	if f := poll(); f != nil {
		return f, nil, false, nil
	}
	select {
	case f := <-s.l.notify:
		s.observe(f)
		return f, nil, false, nil
	case err := <-done:
		if f := poll(); f != nil {
			done <- err
			return f, nil, false, nil
		}
		return nil, err, true, nil
	case err := <-s.l.runDone:
		s.l.runDone <- err
		return nil, nil, false, fmt.Errorf("run ended: %v", err)
	case <-time.After(waitLimit):
		return nil, nil, false, errWatchdog
	}
}

func waitErr(l *link, done <-chan error) (error, error) {
	select {
	case err := <-done:
		return err, nil
	case err := <-l.runDone:
		l.runDone <- err
		return nil, fmt.Errorf("run ended: %v", err)
	case <-time.After(waitLimit):
		return nil, errWatchdog
	}
}

func (s *c41scn) freshSalt() int64 {
	for {
		v := int64(s.r.Uint64())
		if v != 0 {
			return v
		}
	}
}

// deliver pushes a service payload either as a plain frame or inside a container.
func (s *c41scn) deliver(p []byte) {
	if s.r.IntN(2) == 0 {
		s.l.push(p, false)
	} else {
		s.l.push(s.l.container(p), false)
	}
}

func (s *c41scn) invoke(plan string) error {
	s.reqN++
	n := s.reqN
	done := make(chan error, 1)
	go func() {
		var out hResp
		err := s.l.conn.Invoke(context.Background(), &hReq{N: n}, &out)
		if err == nil && out.N != n {
			err = fmt.Errorf("harness: response %d for request %d", out.N, n)
		}
		done <- err
	}()
	f1, err := s.awaitFrame(func(f *frame) bool { return f.TypeID == typReq && f.ReqN == n })
	if err != nil {
		return err
	}
	id := f1.MsgID
	before := s.lastKind
	s.plans[id] = plan
	s.wantTx[id] = 1
	st := map[string]any{"plan": plan, "msg_id": id, "first_salt": f1.Salt}
	s.step("invoke", st)
	acks := 0
	result := func() {
		odd := s.r.IntN(2) == 0
		if odd {
			acks++
		}
		s.l.push(resultTL(id, respTL(n)), odd)
	}
	if plan == "ack-ok" || plan == "ack-bad" || plan == "ack-bad-bad" {
		if err := s.l.pushSync(ackTL(id)); err != nil {
			return err
		}
	}
	var callErr error
	switch plan {
	case "ok", "ack-ok":
		result()
		if callErr, err = waitErr(s.l, done); err != nil {
			return err
		}
		if callErr != nil {
			s.c.Inconclusive(fmt.Sprintf("scenario %d: plain Invoke failed: %v", s.idx, callErr))
		}
	case "bad", "ack-bad", "bad-bad", "ack-bad-bad", "dup-bad":
		s.wantTx[id] = 2
		n1 := s.freshSalt()
		st["new_salt"] = n1
		if plan == "dup-bad" {
			n1b := s.freshSalt()
			st["new_salt_dup"] = n1b
			s.tell(n1, n1b)
			s.o.reset()
			s.l.push(badSaltTL(id, f1.SeqNo, n1), false)
			s.l.push(badSaltTL(id, f1.SeqNo, n1b), false)
		} else {
			s.tell(n1)
			s.o.reset()
			s.deliver(badSaltTL(id, f1.SeqNo, n1))
		}
		f2, cerr, finished, err := s.frameOrDone(done)
		if err != nil {
			return err
		}
		if finished {
			s.c.Violate("retry|no-retransmission-after-bad-server-salt|"+plan, s.witness(map[string]any{"invoke_error": fmt.Sprint(cerr)}))
			return nil
		}
		if f2.TypeID != typReq || f2.MsgID != id {
			s.c.Inconclusive(fmt.Sprintf("scenario %d: unexpected frame %s while waiting for the retransmission", s.idx, f2.kind()))
			return errors.New("abort")
		}
		if f2.Salt != n1 && plan != "dup-bad" {
			s.c.Violate("retry|retransmission-without-new-salt|"+plan, s.witness(map[string]any{"retransmitted": f2, "new_salt": n1}))
		}
		if f2.SeqNo != f1.SeqNo {
			s.c.Add("retransmission_seqno_changed", 1)
		}
		if plan == "bad-bad" || plan == "ack-bad-bad" {
			n2 := s.freshSalt()
			st["second_new_salt"] = n2
			// The request is given up after the second rejection; the statement does not
			// say which of the two told salts later messages carry: both are accepted.
			s.tell(n1, n2)
			s.deliver(badSaltTL(id, f2.SeqNo, n2))
			f3, cerr, finished, err := s.frameOrDone(done)
			if err != nil {
				return err
			}
			if !finished {
				if f3.TypeID == typReq && f3.MsgID == id {
					s.c.Violate("retry|third-transmission-after-second-bad-server-salt|"+plan, s.witness(map[string]any{"third": f3}))
				} else {
					s.c.Inconclusive(fmt.Sprintf("scenario %d: unexpected frame %s after the second bad_server_salt", s.idx, f3.kind()))
				}
				return errors.New("abort")
			}
			st["invoke_error"] = fmt.Sprint(cerr)
			if cerr == nil {
				s.c.Inconclusive(fmt.Sprintf("scenario %d: Invoke returned nil without a result", s.idx))
			}
			s.c.Add("second_bad_salt_given_up", 1)
			s.secondTold, s.firstTold = n2, n1
		} else {
			result()
			if callErr, err = waitErr(s.l, done); err != nil {
				return err
			}
			st["invoke_error"] = fmt.Sprint(callErr)
			if callErr != nil && plan != "dup-bad" {
				s.c.Inconclusive(fmt.Sprintf("scenario %d: Invoke failed after a successful retry: %v", s.idx, callErr))
			}
		}
	}
	for ; acks > 0; acks-- {
		if _, err := s.awaitFrame(func(f *frame) bool { return f.TypeID == typAck }); err != nil {
			return err
		}
	}
	if got := s.tx[id]; got != s.wantTx[id] {
		s.c.Violate(fmt.Sprintf("retry|transmissions=%d-want-%d|%s", got, s.wantTx[id], plan), s.witness(nil))
	} else {
		s.c.Distinct("invoke/" + plan + "/first-salt-" + before)
	}
	return nil
}

func (s *c41scn) ping() error {
	done := make(chan error, 1)
	go func() { done <- s.l.conn.Ping(context.Background()) }()
	f, err := s.awaitFrame(func(f *frame) bool { return f.TypeID == typPing })
	if err != nil {
		return err
	}
	s.step("ping", map[string]any{"ping_id": f.PingID})
	s.l.push(pongTL(f.MsgID, f.PingID), false)
	_, err = waitErr(s.l, done)
	return err
}

func (s *c41scn) sessionCreated() error {
	salt := s.freshSalt()
	first := !s.session
	s.step("new_session_created", map[string]any{"salt": salt, "first": first})
	if first {
		// gotSession is signalled before the new salt is stored: the salt loop's
		// first get_future_salts may legitimately still carry the previous salt.
		s.tell(append(append([]int64(nil), s.o.Told...), salt)...)
	} else {
		s.tell(salt)
	}
	s.l.push(tl(&mt.NewSessionCreated{FirstMsgID: s.lastGet, UniqueID: int64(s.r.Uint64()), ServerSalt: salt}), false)
	select {
	case <-s.l.sessionEv:
	case <-time.After(waitLimit):
		return errWatchdog
	}
	if first {
		s.session = true
		f, err := s.awaitFrame(func(f *frame) bool { return f.TypeID == typGetSalts })
		if err != nil {
			return err
		}
		s.lastGet = f.MsgID
		s.tell(salt)
	}
	return nil
}

func (s *c41scn) futureSalts() error {
	now := s.l.clk.Now()
	set := genStore(s.r, int(now.Unix())+300, s.pool, false)
	s.pool = append(s.pool, set...)
	s.step("future_salts", map[string]any{"salts": set})
	if err := s.l.pushSync(tl(&mt.FutureSalts{ReqMsgID: s.lastGet, Now: int(now.Unix()), Salts: set})); err != nil {
		return err
	}
	for _, f := range set {
		s.o.Store = append(s.o.Store, annRec{Salt: f.Salt, VU: int64(f.ValidUntil), TA: now.UnixNano()})
	}
	return nil
}

func (s *c41scn) travel() {
	now := s.l.clk.Now()
	var d time.Duration
	switch x := s.r.IntN(10); {
	case x < 2:
		d = time.Duration(1+s.r.IntN(120)) * time.Second
	case x < 4:
		d = time.Duration(5+s.r.IntN(40)) * time.Minute
	case x < 5:
		d = time.Duration(60+s.r.IntN(120)) * time.Minute
	default:
		if len(s.o.Store) == 0 {
			d = time.Duration(1+s.r.IntN(1800)) * time.Second
			break
		}
		a := s.o.Store[s.r.IntN(len(s.o.Store))]
		target := a.VU + []int64{-301, -300, -299, -1, 0, 1}[s.r.IntN(6)]
		d = time.Unix(target, 0).Sub(now)
		if d <= 0 {
			d = time.Duration(1+s.r.IntN(600)) * time.Second
		}
	}
	if s.r.IntN(5) == 0 {
		d += 500 * time.Millisecond
	}
	s.l.clk.Travel(d)
	s.step("travel", map[string]any{"d_s": d.Seconds()})
}

func c41Scenario(c *mon.Ctx, idx int) bool {
	r := c.RandN("c41-conn", idx)
	s := &c41scn{c: c, r: r, idx: idx, tx: map[int64]int{}, wantTx: map[int64]int{}, plans: map[int64]string{},
		strict: os.Getenv("VERIF_C41_STRICT") == "1"}
	preset := s.freshSalt()
	s.o.Told = []int64{preset}
	start := time.Unix(1_600_000_000+int64(r.IntN(100_000_000)), 0)
	s.l = newLink(c, r, linkOpts{start: start, salt: preset})
	if err := s.l.start(); err != nil {
		c.Inconclusive("c41 scenario start: " + err.Error())
		return false
	}
	defer s.l.stop()
	s.step("start", map[string]any{"preset_salt": preset})
	plans := []string{"ok", "ack-ok", "bad", "ack-bad", "bad-bad", "ack-bad-bad", "dup-bad"}
	var err error
	if r.IntN(2) == 0 {
		err = s.invoke("ok")
	} else {
		err = s.ping()
	}
	steps := 10 + r.IntN(20)
	for k := 0; k < steps && err == nil; k++ {
		switch x := r.IntN(20); {
		case x < 6:
			s.travel()
		case x < 10:
			err = s.futureSalts()
		case x < 12:
			err = s.sessionCreated()
		case x < 14:
			err = s.ping()
		default:
			err = s.invoke(plans[r.IntN(len(plans))])
		}
	}
	if err != nil && err.Error() != "abort" {
		c.Inconclusive(fmt.Sprintf("c41 scenario %d: %v", idx, err))
		return !errors.Is(err, errWatchdog)
	}
	// late retransmissions: every Invoke has returned, so no request frame can follow.
	for {
		select {
		case f := <-s.l.notify:
			s.observe(f)
			continue
		default:
		}
		break
	}
	for id, want := range s.wantTx {
		if got := s.tx[id]; got != want && err == nil {
			c.Violate(fmt.Sprintf("retry|transmissions=%d-want-%d|%s|late", got, want, s.plans[id]), s.witness(nil))
		}
	}
	c.Add("conn_scenarios", 1)
	if idx < 2 {
		c.Sample("conn-scenario", map[string]any{"program": s.trace})
	}
	return c.Violations() < 8
}

// ---- concurrent stress (race detector food, weak oracle) ----

func c41Stress(c *mon.Ctx, idx int) bool {
	r := c.RandN("c41-stress", idx)
	preset := int64(r.Uint64() | 1)
	l := newLink(c, r, linkOpts{start: time.Unix(1_700_000_000+int64(r.IntN(1_000_000)), 0), salt: preset, ackBatch: 1 + r.IntN(4)})
	type reqState struct {
		tx        int
		firstSalt int64
		bad       bool
		sameSalt  bool
	}
	var mu sync.Mutex
	known := map[int64]bool{preset: true}
	reqs := map[int64]*reqState{}
	sr := rand.New(rand.NewPCG(r.Uint64(), r.Uint64()))
	fresh := func() int64 {
		v := int64(sr.Uint64() | 1)
		known[v] = true
		return v
	}
	salts := func(now time.Time) []byte {
		var set []mt.FutureSalt
		for i := 0; i < 1+sr.IntN(4); i++ {
			vu := int(now.Unix()) + 200 + sr.IntN(4000)
			set = append(set, mt.FutureSalt{ValidSince: vu - 3600, ValidUntil: vu, Salt: fresh()})
		}
		return tl(&mt.FutureSalts{Now: int(now.Unix()), Salts: set})
	}
	l.setReact(func(f *frame) {
		mu.Lock()
		defer mu.Unlock()
		switch f.TypeID {
		case typReq:
			st := reqs[f.MsgID]
			if st == nil {
				st = &reqState{firstSalt: f.Salt, bad: sr.IntN(3) == 0}
				reqs[f.MsgID] = st
			}
			st.tx++
			switch {
			case st.tx == 1 && st.bad:
				l.push(badSaltTL(f.MsgID, f.SeqNo, fresh()), false)
			default:
				if st.tx > 1 && f.Salt == st.firstSalt {
					st.sameSalt = true
				}
				if sr.IntN(3) == 0 {
					l.push(ackTL(f.MsgID), false)
				}
				if sr.IntN(4) == 0 {
					l.push(salts(time.Unix(0, f.TNano)), false)
				}
				l.push(resultTL(f.MsgID, respTL(f.ReqN)), sr.IntN(2) == 0)
			}
		case typGetSalts:
			l.push(salts(time.Unix(0, f.TNano)), false)
		case typPing:
			l.push(pongTL(f.MsgID, f.PingID), false)
		}
	})
	if err := l.start(); err != nil {
		c.Inconclusive("c41 stress start: " + err.Error())
		return false
	}
	defer l.stop()
	if err := l.conn.Ping(context.Background()); err != nil {
		c.Inconclusive("c41 stress: first ping failed: " + err.Error())
		return false
	}
	mu.Lock()
	s0 := fresh()
	mu.Unlock()
	l.push(tl(&mt.NewSessionCreated{UniqueID: 1, ServerSalt: s0}), false)
	workers, per := 3+r.IntN(4), 4+r.IntN(5)
	var wg sync.WaitGroup
	errs := make(chan string, workers*per)
	stopTravel := make(chan struct{})
	var twg sync.WaitGroup
	twg.Add(1)
	steps := make([]time.Duration, 64)
	for i := range steps {
		steps[i] = time.Duration(100+r.IntN(1100)) * time.Millisecond
	}
	go func() {
		defer twg.Done()
		// at most 200 steps of <= 1.2 s: a server message can never become older than
		// the 300 s acceptance window between its creation and its handling.
		for i := 0; i < 200; i++ {
			select {
			case <-stopTravel:
				return
			default:
			}
			l.clk.Travel(steps[i%len(steps)])
			time.Sleep(200 * time.Microsecond)
		}
	}()
	finished := make(chan struct{})
	for w := 0; w < workers; w++ {
		wg.Add(1)
		go func(w int) {
			defer wg.Done()
			for k := 0; k < per; k++ {
				n := int64(w*1000 + k + 1)
				var out hResp
				if err := l.conn.Invoke(context.Background(), &hReq{N: n}, &out); err != nil {
					errs <- fmt.Sprintf("request %d: %v", n, err)
				} else if out.N != n {
					errs <- fmt.Sprintf("request %d: response %d", n, out.N)
				}
			}
		}(w)
	}
	go func() { wg.Wait(); close(finished) }()
	select {
	case <-finished:
	case <-time.After(waitLimit):
		close(stopTravel)
		twg.Wait()
		c.Inconclusive(fmt.Sprintf("c41 stress %d: invokes did not finish (watchdog)", idx))
		return false
	}
	close(stopTravel)
	twg.Wait()
	close(errs)
	for e := range errs {
		c.Inconclusive(fmt.Sprintf("c41 stress %d: unexpected Invoke failure: %s", idx, e))
	}
	mu.Lock()
	defer mu.Unlock()
	frames := l.framesCopy()
	for _, f := range frames {
		if f.Bad != "" {
			c.Inconclusive("client frame not decodable by the reference cipher: " + f.Bad)
			continue
		}
		c.Eval(1)
		if !known[f.Salt] {
			c.Violate("stress|frame-with-salt-never-announced|"+f.kind(), map[string]any{"stress": idx, "frame": f, "frames": frames})
		}
	}
	nBad := 0
	for id, st := range reqs {
		want := 1
		if st.bad {
			want = 2
			nBad++
		}
		if st.tx != want {
			c.Violate(fmt.Sprintf("stress|retry|transmissions=%d-want-%d", st.tx, want), map[string]any{"stress": idx, "msg_id": id, "frames": frames})
		}
		if st.sameSalt {
			c.Violate("stress|retry|retransmission-with-the-rejected-salt", map[string]any{"stress": idx, "msg_id": id, "frames": frames})
		}
	}
	if len(reqs) != workers*per {
		c.Inconclusive(fmt.Sprintf("c41 stress %d: saw %d requests, want %d", idx, len(reqs), workers*per))
	}
	c.Add("stress_requests", int64(len(reqs)))
	c.Add("stress_requests_rejected_once", int64(nBad))
	c.Distinct(fmt.Sprintf("stress/workers%d/bad%d", workers, min(nBad, 9)))
	return c.Violations() < 8
}

// ---- bad_server_salt while other server messages are being handled ----
//
// The connection holds an adopted future salt F. The request is rejected with
// bad_server_salt(N) in the middle of a burst of unrelated server messages (pongs
// for unknown ping ids), each of which is decrypted on its own goroutine. The
// statement demands that the request is re-sent once, with N.
func c41Traffic(c *mon.Ctx, idx int) bool {
	r := c.RandN("c41-traffic", idx)
	preset := int64(r.Uint64() | 1)
	l := newLink(c, r, linkOpts{start: time.Unix(1_700_000_000+int64(r.IntN(1_000_000)), 0), salt: preset})
	if err := l.start(); err != nil {
		c.Inconclusive("c41 traffic start: " + err.Error())
		return false
	}
	defer l.stop()
	fail := func(err error) bool {
		c.Inconclusive(fmt.Sprintf("c41 traffic %d: %v", idx, err))
		return !errors.Is(err, errWatchdog)
	}
	next := func(typ uint32) (*frame, error) {
		for {
			f, err := l.nextFrame()
			if err != nil || f.TypeID == typ {
				return f, err
			}
		}
	}
	ping := func() (*frame, error) {
		done := make(chan error, 1)
		go func() { done <- l.conn.Ping(context.Background()) }()
		f, err := next(typPing)
		if err != nil {
			return nil, err
		}
		l.push(pongTL(f.MsgID, f.PingID), false)
		_, err = waitErr(l, done)
		return f, err
	}
	if _, err := ping(); err != nil {
		return fail(err)
	}
	for round := 0; round < 5 && c.Violations() < 8; round++ {
		now := l.clk.Now()
		var set []mt.FutureSalt
		for i := 0; i < 1+r.IntN(3); i++ {
			vu := int(now.Unix()) + 400 + r.IntN(3000)
			set = append(set, mt.FutureSalt{ValidSince: vu - 3600, ValidUntil: vu, Salt: int64(r.Uint64() | 1)})
		}
		if err := l.pushSync(tl(&mt.FutureSalts{Now: int(now.Unix()), Salts: set})); err != nil {
			return fail(err)
		}
		future := map[int64]bool{}
		for _, f := range set {
			future[f.Salt] = true
		}
		done := make(chan error, 1)
		go func() {
			var out hResp
			done <- l.conn.Invoke(context.Background(), &hReq{N: int64(round + 1)}, &out)
		}()
		f1, err := next(typReq)
		if err != nil {
			return fail(err)
		}
		if !future[f1.Salt] {
			c.Inconclusive(fmt.Sprintf("c41 traffic %d: the future salt was not adopted before the request", idx))
			return true
		}
		newSalt := int64(r.Uint64() | 1)
		before, after := r.IntN(40), r.IntN(40)
		junk := func(n int) {
			for i := 0; i < n; i++ {
				l.push(pongTL(int64(r.Uint64()), int64(r.Uint64())), false)
			}
		}
		junk(before)
		l.push(badSaltTL(f1.MsgID, f1.SeqNo, newSalt), false)
		junk(after)
		var f2 *frame
		select {
		case f2 = <-l.notify:
		case cerr := <-done:
			select {
			case f2 = <-l.notify:
				done <- cerr
			default:
				c.Eval(1)
				c.Violate("retry|no-retransmission-after-bad-server-salt|traffic", map[string]any{"traffic": idx, "invoke_error": fmt.Sprint(cerr), "frames": l.framesCopy()})
				return true
			}
		case <-time.After(waitLimit):
			return fail(errWatchdog)
		}
		c.Eval(1)
		w := map[string]any{"traffic": idx, "round": round, "future_salts": set, "new_salt": newSalt, "junk_before": before, "junk_after": after,
			"first": f1, "retransmission": f2, "events": l.eventsCopy()}
		switch {
		case f2.TypeID != typReq || f2.MsgID != f1.MsgID:
			c.Inconclusive(fmt.Sprintf("c41 traffic %d: unexpected frame %s", idx, f2.kind()))
			return true
		case f2.Salt == newSalt:
			c.Distinct(fmt.Sprintf("traffic/junk-before-%d/after-%d", min(before, 3), min(after, 3)))
			c.Add("traffic_retransmissions_with_new_salt", 1)
		case f2.Salt == f1.Salt:
			c.Violate("retry|retransmission-with-the-rejected-future-salt|concurrent-incoming-messages", w)
		default:
			c.Violate("retry|retransmission-without-new-salt|concurrent-incoming-messages", w)
		}
		l.push(resultTL(f1.MsgID, respTL(int64(round+1))), false)
		select {
		case <-done:
		case <-time.After(waitLimit):
			return fail(errWatchdog)
		}
		if _, err := ping(); err != nil {
			return fail(err)
		}
	}
	return c.Violations() < 8
}

// ---- several requests in flight under the same salt, all rejected ----

type multiReq struct {
	N        int64  `json:"n"`
	MsgID    int64  `json:"msg_id"`
	SeqNo    int32  `json:"seq_no"`
	First    int64  `json:"first_salt"`
	NewSalt  int64  `json:"new_salt"`
	Tx       int    `json:"transmissions"`
	Second   int64  `json:"second_salt,omitempty"`
	Rejected bool   `json:"rejection_delivered"`
	Answered bool   `json:"result_delivered"`
	Returned bool   `json:"returned"`
	Err      string `json:"invoke_error,omitempty"`
}

type multiDone struct {
	i   int
	err error
}

func c41Multi(c *mon.Ctx, idx int) bool {
	r := c.RandN("c41-multi", idx)
	preset := int64(r.Uint64() | 1)
	l := newLink(c, r, linkOpts{start: time.Unix(1_700_000_000+int64(r.IntN(1_000_000)), 0), salt: preset})
	if err := l.start(); err != nil {
		c.Inconclusive("c41 multi start: " + err.Error())
		return false
	}
	defer l.stop()
	modes := []string{"back-to-back", "one-container", "strict", "interleaved", "result-with-next-rejection"}
	mode := modes[idx%len(modes)]
	same := (idx/len(modes))%2 == 0
	k := 2 + r.IntN(3)
	base := "preset"
	variant := map[bool]string{true: "same-new-salt", false: "different-new-salts"}[same]
	tag := fmt.Sprintf("multi-%s-%s", mode, variant)
	var reqs []*multiReq
	var script []string
	witness := func(extra string) map[string]any {
		return map[string]any{"multi": idx, "mode": mode, "variant": variant, "base_salt": base, "requests": reqs, "script": script,
			"note": extra, "frames": l.framesCopy()}
	}
	fail := func(err error) bool {
		c.Inconclusive(fmt.Sprintf("c41 multi %d (%s): %v", idx, tag, err))
		return !errors.Is(err, errWatchdog)
	}
	// first client frame (session id), optionally adopt a future salt as the common stale salt
	{
		done := make(chan error, 1)
		go func() { done <- l.conn.Ping(context.Background()) }()
		var f *frame
		for f == nil || f.TypeID != typPing {
			var err error
			if f, err = l.nextFrame(); err != nil {
				return fail(err)
			}
		}
		l.push(pongTL(f.MsgID, f.PingID), false)
		if _, err := waitErr(l, done); err != nil {
			return fail(err)
		}
	}
	if r.IntN(2) == 0 {
		base = "adopted-future-salt"
		now := l.clk.Now()
		vu := int(now.Unix()) + 600 + r.IntN(3000)
		if err := l.pushSync(tl(&mt.FutureSalts{Now: int(now.Unix()), Salts: []mt.FutureSalt{{ValidSince: vu - 3600, ValidUntil: vu, Salt: int64(r.Uint64() | 1)}}})); err != nil {
			return fail(err)
		}
	}
	doneCh := make(chan multiDone, 8)
	byMsg := map[int64]*multiReq{}
	common := int64(r.Uint64() | 1)
	for i := 0; i < k; i++ {
		q := &multiReq{N: int64(i + 1), NewSalt: common}
		if !same {
			q.NewSalt = int64(r.Uint64() | 1)
		}
		reqs = append(reqs, q)
		go func(i int) {
			var out hResp
			err := l.conn.Invoke(context.Background(), &hReq{N: int64(i + 1)}, &out)
			if err == nil && out.N != int64(i+1) {
				err = fmt.Errorf("harness: response %d for request %d", out.N, i+1)
			}
			doneCh <- multiDone{i, err}
		}(i)
		for q.Tx == 0 {
			f, err := l.nextFrame()
			if err != nil {
				return fail(err)
			}
			if f.TypeID == typReq && f.ReqN == q.N {
				q.MsgID, q.SeqNo, q.First, q.Tx = f.MsgID, f.SeqNo, f.Salt, 1
				byMsg[f.MsgID] = q
			}
		}
		if q.First != reqs[0].First {
			c.Inconclusive(fmt.Sprintf("c41 multi %d: requests were not sent under the same salt", idx))
			return true
		}
	}
	told := map[int64]bool{}
	violated := false
	// take accounts one client frame.
	take := func(f *frame) {
		q := byMsg[f.MsgID]
		if f.TypeID != typReq || q == nil {
			return
		}
		q.Tx++
		c.Eval(1)
		switch {
		case q.Tx > 2:
			violated = true
			c.Violate(fmt.Sprintf("retry|transmissions=%d-want-2|%s", q.Tx, tag), witness(""))
		case !q.Rejected:
			violated = true
			c.Violate("retry|retransmission-without-rejection|"+tag, witness(""))
		default:
			q.Second = f.Salt
			exact := mode == "strict" || mode == "interleaved" || mode == "result-with-next-rejection" || same
			if (exact && f.Salt != q.NewSalt) || !told[f.Salt] {
				violated = true
				c.Violate("retry|retransmission-without-new-salt|"+tag, witness(fmt.Sprintf("request %d", q.N)))
			}
		}
	}
	drain := func() {
		for {
			select {
			case f := <-l.notify:
				take(f)
			default:
				return
			}
		}
	}
	returned := func(d multiDone) {
		drain() // a frame sent before the call returned is already queued
		q := reqs[d.i]
		q.Returned = true
		if d.err != nil {
			q.Err = d.err.Error()
		}
		c.Eval(1)
		switch {
		case q.Rejected && q.Tx < 2:
			violated = true
			c.Violate("retry|no-retransmission-after-bad-server-salt|"+tag, witness(fmt.Sprintf("request %d returned: %v", q.N, d.err)))
		case d.err != nil:
			violated = true
			c.Violate("retry|invoke-failed-although-result-was-sent|"+tag, witness(fmt.Sprintf("request %d returned: %v", q.N, d.err)))
		case !q.Answered:
			violated = true
			c.Violate("retry|invoke-returned-without-result|"+tag, witness(fmt.Sprintf("request %d", q.N)))
		}
	}
	// until waits for a condition while accounting frames and returns.
	until := func(cond func() bool) error {
		for !cond() && !violated {
			select {
			case f := <-l.notify:
				take(f)
			case d := <-doneCh:
				returned(d)
			case err := <-l.runDone:
				l.runDone <- err
				return fmt.Errorf("run ended: %v", err)
			case <-time.After(waitLimit):
				return errWatchdog
			}
		}
		return nil
	}
	reject := func(q *multiReq) []byte {
		q.Rejected = true
		told[q.NewSalt] = true
		script = append(script, fmt.Sprintf("bad_server_salt(request %d, new salt %d)", q.N, q.NewSalt))
		return badSaltTL(q.MsgID, q.SeqNo, q.NewSalt)
	}
	answer := func(q *multiReq) []byte {
		q.Answered = true
		script = append(script, fmt.Sprintf("rpc_result(request %d)", q.N))
		return resultTL(q.MsgID, respTL(q.N))
	}
	order := r.Perm(k)
	var err error
	switch mode {
	case "back-to-back":
		for _, i := range order {
			l.push(reject(reqs[i]), false)
		}
	case "one-container":
		var ps [][]byte
		for _, i := range order {
			ps = append(ps, reject(reqs[i]))
		}
		l.push(l.container(ps...), false)
	case "strict":
		// the next rejection is delivered only after the previous request was seen
		// again on the wire: its rejection has been fully handled (new salt stored).
		for _, i := range order {
			q := reqs[i]
			l.push(reject(q), false)
			script = append(script, fmt.Sprintf("wait for the retransmission of request %d", q.N))
			if err = until(func() bool { return q.Tx >= 2 || q.Returned }); err != nil || violated {
				break
			}
		}
	case "interleaved":
		for _, i := range order {
			q := reqs[i]
			l.push(reject(q), false)
			if err = until(func() bool { return q.Tx >= 2 || q.Returned }); err != nil || violated {
				break
			}
			l.push(answer(q), false)
			script = append(script, fmt.Sprintf("wait for request %d to return", q.N))
			if err = until(func() bool { return q.Returned }); err != nil || violated {
				break
			}
		}
	case "result-with-next-rejection":
		var prev *multiReq
		for _, i := range order {
			q := reqs[i]
			if prev != nil {
				l.push(answer(prev), false)
			}
			l.push(reject(q), false)
			if err = until(func() bool { return q.Tx >= 2 || q.Returned }); err != nil || violated {
				break
			}
			prev = q
		}
	}
	if err == nil && !violated {
		err = until(func() bool {
			for _, q := range reqs {
				if q.Tx < 2 && !q.Returned {
					return false
				}
			}
			return true
		})
	}
	if err == nil && !violated {
		for _, q := range reqs {
			if !q.Answered {
				l.push(answer(q), false)
			}
		}
		err = until(func() bool {
			for _, q := range reqs {
				if !q.Returned {
					return false
				}
			}
			return true
		})
	}
	if err != nil {
		return fail(err)
	}
	if !violated {
		drain()
		for _, q := range reqs {
			if q.Tx != 2 {
				c.Violate(fmt.Sprintf("retry|transmissions=%d-want-2|%s", q.Tx, tag), witness(""))
				violated = true
			}
		}
	}
	if !violated {
		c.Distinct(fmt.Sprintf("multi/%s/%s/k%d/%s", mode, variant, k, base))
		c.Add("multi_scenarios", 1)
		c.Add("multi_requests_rejected", int64(k))
		if idx < 10 && idx%5 == 2 {
			c.Sample("multi", map[string]any{"mode": mode, "variant": variant, "requests": reqs, "script": script})
		}
	}
	return c.Violations() < 8
}
