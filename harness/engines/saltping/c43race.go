package main

import (
	"context"
	"errors"
	"fmt"
	"runtime"
	"strings"
	"time"

	"verif/harness/mon"
)

// c43Race: a Ping whose context is cancelled at the moment its matching pong is
// handled (before / concurrently / just after), immediately followed by a ping
// that the server never answers. Whatever the first ping returned, the second
// one must not succeed: api variant = Conn.Ping B stays blocked until its own
// context ends; keep-alive variant = the next keep-alive tick goes unanswered
// and Run must end on its own instead of sending a further ping.
func c43Race(c *mon.Ctx, idx int) bool {
	r := c.RandN("c43-race", idx)
	keepalive := idx%3 == 2
	const interval = 60 * time.Second
	o := linkOpts{start: time.Unix(1_660_000_000+int64(r.IntN(1_000_000)), 0), salt: int64(r.Uint64())}
	if keepalive {
		o.pingInterval, o.pingTimeout = interval, 60*time.Millisecond // only the final, unanswered keep-alive ping runs under it
	}
	s := &c43api{c: c, r: r, idx: idx}
	s.l = newLink(c, r, o)
	if err := s.l.start(); err != nil {
		c.Inconclusive("c43 race start: " + err.Error())
		return false
	}
	stopped := false
	defer func() {
		if !stopped {
			s.l.stop()
		}
	}()
	fail := func(err error) bool {
		for _, p := range s.calls {
			p.cancel()
		}
		c.Inconclusive(fmt.Sprintf("c43 race scenario %d: %v", idx, err))
		return !errors.Is(err, errWatchdog)
	}
	if keepalive {
		armed := time.After(waitLimit)
		for ok := false; !ok; {
			select {
			case d := <-s.l.clk.tickers:
				ok = d == interval
			case <-armed:
				return fail(errWatchdog)
			}
		}
	}
	launch := func(fate string) (*pingCall, error) {
		ctx, cancel := context.WithCancel(context.Background())
		p := &pingCall{N: len(s.calls), Fate: fate, cancel: cancel, ret: make(chan error, 1)}
		s.calls = append(s.calls, p)
		go func() { p.ret <- s.l.conn.Ping(ctx) }()
		for {
			f, err := s.l.nextFrame()
			if err != nil {
				return nil, err
			}
			if f.TypeID == typPing {
				p.ID, p.MsgID = f.PingID, f.MsgID
				return p, nil
			}
		}
	}
	collect := func(p *pingCall) error {
		select {
		case err := <-p.ret:
			s.took(p, err)
			return nil
		case <-time.After(waitLimit):
			return errWatchdog
		}
	}
	orders := []string{"pong-consumed-then-cancel", "cancel-then-pong", "pong-then-cancel", "pong-and-cancel-concurrently", "pong-consumed-yield-cancel"}
	rounds := 4 + r.IntN(4)
	if keepalive {
		rounds = 1 + r.IntN(3)
	}
	var seq []string
	for round := 0; round < rounds; round++ {
		order := orders[r.IntN(len(orders))]
		seq = append(seq, order)
		a, err := launch("race:" + order)
		if err != nil {
			return fail(err)
		}
		// both a matching pong and the cancellation are under way: nil and ctx.Err() are both legitimate for A
		a.Matched, a.Canceled = true, true
		s.trace = append(s.trace, fmt.Sprintf("ping %d: %s", a.N, order))
		pong := pongTL(a.MsgID, a.ID)
		switch order {
		case "pong-consumed-then-cancel":
			if err := s.l.pushSync(pong); err != nil {
				return fail(err)
			}
			a.cancel()
		case "cancel-then-pong":
			a.cancel()
			s.l.push(pong, false)
		case "pong-then-cancel":
			s.l.push(pong, false)
			a.cancel()
		case "pong-and-cancel-concurrently":
			go func() { runtime.Gosched(); a.cancel() }()
			s.l.push(pong, false)
		case "pong-consumed-yield-cancel":
			if err := s.l.pushSync(pong); err != nil {
				return fail(err)
			}
			for i := r.IntN(4); i >= 0; i-- {
				runtime.Gosched()
			}
			a.cancel()
		}
		if err := collect(a); err != nil {
			return fail(err)
		}
		c.Add("race_first_ping_returned_"+map[bool]string{true: "nil", false: "context_error"}[a.Err == ""], 1)
		if keepalive {
			continue
		}
		// B: never answered
		b, err := launch("unanswered-after-" + order)
		if err != nil {
			return fail(err)
		}
		s.trace = append(s.trace, fmt.Sprintf("ping %d: never answered", b.N))
		if err := s.l.pushSync(); err != nil { // a round trip through the read loop: B had time to (wrongly) finish
			return fail(err)
		}
		time.Sleep(500 * time.Microsecond) // settle, miss-only
		s.sweep()
		if !b.Returned {
			b.Canceled = true
			b.cancel()
			if err := collect(b); err != nil {
				return fail(err)
			}
		}
		if c.Violations() >= 5 {
			return false
		}
	}
	if !keepalive {
		c.Add("race_api_scenarios", 1)
		c.Distinct("race/api/" + strings.Join(seq[:min(len(seq), 2)], ","))
		return true
	}
	// keep-alive: the next tick's ping is never answered
	witness := func(note string) map[string]any {
		return map[string]any{"scenario": idx, "races": seq, "pings": s.calls, "note": note, "events": s.l.eventsCopy()}
	}
	awaitKeepAlive := func() (*frame, error, bool) {
		for {
			select {
			case g := <-s.l.notify:
				if g.TypeID == typPingDelay {
					return g, nil, false
				}
			case err := <-s.l.runDone:
				s.l.runDone <- err
				return nil, err, true
			case <-time.After(waitLimit):
				return nil, errWatchdog, false
			}
		}
	}
	s.l.clk.Travel(interval)
	if _, err, ended := awaitKeepAlive(); ended || err != nil {
		if ended {
			return fail(fmt.Errorf("run ended before the keep-alive ping: %v", err))
		}
		return fail(err)
	}
	s.l.clk.Travel(interval) // a loop that took the missed pong for answered would ping again
	_, err, ended := awaitKeepAlive()
	c.Eval(1)
	switch {
	case ended && err != nil:
		c.Distinct("race/keepalive/" + strings.Join(seq, ","))
		c.Add("race_keepalive_scenarios", 1)
	case ended:
		c.Violate("keepalive|run-ended-without-error-after-missed-pong|after-cancel-pong-race", witness(""))
	case err != nil:
		return fail(err)
	default:
		c.Violate("keepalive|kept-running-after-missed-pong|after-cancel-pong-race", witness("another keep-alive ping was sent after the unanswered one"))
	}
	stopped = true
	s.l.stop()
	return c.Violations() < 5
}
