// Engine saltping: connection-level monitors for server salts (C41) and
// ping/pong + keep-alive (C43), plus the connection-level arm of C26 (close /
// cancel classification through Conn.Invoke). The real mtproto.Conn (read loop, write path,
// ping loop, salt logic, rpc engine) runs against a harness-owned fake
// transport whose server side is played with the independent refmodel cipher.
package main

import (
	"verif/harness/mon"
)

func main() {
	mon.Main("saltping", map[string]mon.PropFunc{
		"C41": runC41,
		"C43": runC43,
		"C26": runC26,
	})
}
