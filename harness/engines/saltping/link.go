package main

import (
	"context"
	"encoding/binary"
	"errors"
	"fmt"
	"io"
	"math/rand/v2"
	"runtime"
	"strings"
	"sync"
	"sync/atomic"
	"time"

	"github.com/gotd/neo"

	"github.com/gotd/td/bin"
	"github.com/gotd/td/clock"
	"github.com/gotd/td/crypto"
	"github.com/gotd/td/mt"
	"github.com/gotd/td/mtproto"
	"github.com/gotd/td/proto"
	"github.com/gotd/td/transport"

	"verif/harness/mon"
	"verif/harness/refmodel"
)

// TL constructor ids seen on the wire.
const (
	typPing      = uint32(mt.PingRequestTypeID)
	typPingDelay = uint32(mt.PingDelayDisconnectRequestTypeID)
	typGetSalts  = uint32(mt.GetFutureSaltsRequestTypeID)
	typAck       = uint32(mt.MsgsAckTypeID)
	typDrop      = uint32(mt.RPCDropAnswerRequestTypeID)
	typReq       = uint32(0x7e570001) // harness request (Invoke input)
	typResp      = uint32(0x7e570002) // harness response (Invoke output)
	typSentinel  = uint32(0x7e5700ff) // unknown to mtproto: goes to Handler.OnMessage
)

// never fires within a scenario: background loops that must stay silent get this interval.
const inert = 100000 * time.Hour

// watchdog for every real-time wait of the harness; firing is always inconclusive.
const waitLimit = 60 * time.Second

var errWatchdog = errors.New("harness watchdog")

// frame is one decrypted client frame, recorded at the fake transport.
type frame struct {
	Seq     int    `json:"seq"`
	TNano   int64  `json:"t_nano"` // fake clock at Send
	Salt    int64  `json:"salt"`
	Session int64  `json:"session"`
	MsgID   int64  `json:"msg_id"`
	SeqNo   int32  `json:"seq_no"`
	TypeID  uint32 `json:"type_id"`
	PingID  int64  `json:"ping_id,omitempty"`
	ReqN    int64  `json:"req_n,omitempty"`
	DropID  int64  `json:"drop_req_msg_id,omitempty"`
	Bad     string `json:"bad,omitempty"`
}

func (f *frame) kind() string {
	switch f.TypeID {
	case typPing:
		return "ping"
	case typPingDelay:
		return "ping_delay_disconnect"
	case typGetSalts:
		return "get_future_salts"
	case typAck:
		return "msgs_ack"
	case typReq:
		return "request"
	case typDrop:
		return "rpc_drop_answer"
	}
	return fmt.Sprintf("0x%08x", f.TypeID)
}

// ev is one entry of the logical event log (one mutex, one counter).
type ev struct {
	Seq  int    `json:"seq"`
	Kind string `json:"kind"`
	A    int64  `json:"a,omitempty"`
	B    int64  `json:"b,omitempty"`
	S    string `json:"s,omitempty"`
}

// hclock wraps the neo fake clock to report ticker creation (the harness must
// not travel before the loop under observation has armed its ticker).
type hclock struct {
	*neo.Time
	tickers chan time.Duration
	// onNow, when set, runs before a clock reading is returned: the harness uses
	// it to let time pass between two consecutive readings made by the library.
	onNow atomic.Pointer[func()]
}

func (h *hclock) Now() time.Time {
	if f := h.onNow.Load(); f != nil {
		(*f)()
	}
	return h.Time.Now()
}

// stepInside arms a one-shot: the first clock reading made from inside a function
// whose name ends with fn advances the clock by d before it returns.
func (h *hclock) stepInside(fn string, d time.Duration) *atomic.Bool {
	fired := new(atomic.Bool)
	hook := func() {
		if fired.Load() {
			return
		}
		pcs := make([]uintptr, 16)
		frames := runtime.CallersFrames(pcs[:runtime.Callers(2, pcs)])
		for {
			fr, more := frames.Next()
			if strings.HasSuffix(fr.Function, fn) {
				if fired.CompareAndSwap(false, true) {
					h.Time.Travel(d)
				}
				return
			}
			if !more {
				return
			}
		}
	}
	h.onNow.Store(&hook)
	return fired
}

func (h *hclock) Ticker(d time.Duration) clock.Ticker {
	t := h.Time.Ticker(d)
	select {
	case h.tickers <- d:
	default:
	}
	return t
}

func (h *hclock) Timer(d time.Duration) clock.Timer { return h.Time.Timer(d) }

type lockedRand struct {
	mu sync.Mutex
	r  *rand.Rand
}

func (l *lockedRand) Read(p []byte) (int, error) {
	l.mu.Lock()
	for i := range p {
		p[i] = byte(l.r.Uint32())
	}
	l.mu.Unlock()
	return len(p), nil
}

// link is the harness-owned transport.Conn plus the server played behind it.
type link struct {
	c   *mon.Ctx
	key []byte
	clk *hclock

	mu         sync.Mutex
	seq        int
	frames     []*frame
	events     []ev
	session    int64
	gotSession bool
	srvCtr     int64
	srvRand    *rand.Rand
	react      func(f *frame) // synchronous server reaction inside Send (no lock held)
	sentinels  map[int64]chan struct{}
	nextToken  int64
	overflow   bool

	honorCtx bool          // Send fails with ctx.Err() when its context is already done
	recvFail chan struct{} // closed: Recv returns a read error
	failOnce sync.Once

	in        chan []byte
	notify    chan *frame
	sessionEv chan int64
	closed    chan struct{}
	closeOnce sync.Once

	conn    *mtproto.Conn
	cancel  context.CancelFunc
	runDone chan error
	ready   chan struct{}
}

type linkOpts struct {
	start        time.Time
	salt         int64
	pingInterval time.Duration
	pingTimeout  time.Duration
	ackBatch     int
	honorCtx     bool
}

func newLink(c *mon.Ctx, r *rand.Rand, o linkOpts) *link {
	var k crypto.Key
	for i := range k {
		k[i] = byte(r.Uint32())
	}
	l := &link{
		c:         c,
		key:       append([]byte(nil), k[:]...),
		clk:       &hclock{Time: neo.NewTime(o.start), tickers: make(chan time.Duration, 64)},
		srvRand:   rand.New(rand.NewPCG(r.Uint64(), r.Uint64())),
		sentinels: map[int64]chan struct{}{},
		in:        make(chan []byte, 4096),
		notify:    make(chan *frame, 8192),
		sessionEv: make(chan int64, 64),
		closed:    make(chan struct{}),
		recvFail:  make(chan struct{}),
		honorCtx:  o.honorCtx,
		runDone:   make(chan error, 1),
		ready:     make(chan struct{}),
	}
	if o.pingInterval == 0 {
		o.pingInterval = inert
	}
	if o.pingTimeout == 0 {
		o.pingTimeout = 5 * time.Minute
	}
	if o.ackBatch == 0 {
		o.ackBatch = 1
	}
	l.conn = mtproto.New(func(ctx context.Context) (transport.Conn, error) { return l, nil }, mtproto.Options{
		Key:               k.WithID(),
		Salt:              o.salt,
		Clock:             l.clk,
		Random:            &lockedRand{r: rand.New(rand.NewPCG(r.Uint64(), r.Uint64()))},
		Handler:           linkHandler{l},
		PingInterval:      o.pingInterval,
		PingTimeout:       o.pingTimeout,
		AckInterval:       inert,
		AckBatchSize:      o.ackBatch,
		SaltFetchInterval: inert,
		RetryInterval:     inert, // no retry-timer retransmissions: only the bad-salt retry can resend
		MaxRetries:        1,
		RequestTimeout:    func(uint32) time.Duration { return 10 * time.Minute },
	})
	return l
}

// start launches Conn.Run; the user callback parks until the run context ends.
func (l *link) start() error {
	ctx, cancel := context.WithCancel(context.Background())
	l.cancel = cancel
	go func() {
		err := l.conn.Run(ctx, func(ctx context.Context) error {
			close(l.ready)
			<-ctx.Done()
			return ctx.Err()
		})
		l.log("run-returned", 0, 0, fmt.Sprint(err))
		l.runDone <- err
	}()
	select {
	case <-l.ready:
		return nil
	case err := <-l.runDone:
		l.runDone <- err
		return fmt.Errorf("run ended before ready: %v", err)
	case <-time.After(waitLimit):
		return errWatchdog
	}
}

// stop cancels the run context and waits for Run to return.
func (l *link) stop() {
	l.log("harness-cancel", 0, 0, "")
	l.cancel()
	select {
	case <-l.runDone:
	case <-time.After(waitLimit):
		l.c.Inconclusive("Conn.Run did not return after cancellation (watchdog)")
	}
	l.Close()
}

func (l *link) log(kind string, a, b int64, s string) int {
	l.mu.Lock()
	l.seq++
	n := l.seq
	l.events = append(l.events, ev{Seq: n, Kind: kind, A: a, B: b, S: s})
	l.mu.Unlock()
	return n
}

func (l *link) eventsCopy() []ev {
	l.mu.Lock()
	defer l.mu.Unlock()
	out := append([]ev(nil), l.events...)
	if len(out) > 200 {
		out = out[len(out)-200:]
	}
	return out
}

func (l *link) framesCopy() []*frame {
	l.mu.Lock()
	defer l.mu.Unlock()
	return append([]*frame(nil), l.frames...)
}

func (l *link) setReact(f func(*frame)) {
	l.mu.Lock()
	l.react = f
	l.mu.Unlock()
}

// ---- transport.Conn ----

func (l *link) Send(ctx context.Context, b *bin.Buffer) error {
	select {
	case <-l.closed:
		return io.ErrClosedPipe
	default:
	}
	if l.honorCtx && ctx.Err() != nil {
		return ctx.Err()
	}
	wire := append([]byte(nil), b.Buf...)
	f := &frame{TNano: l.clk.Now().UnixNano()}
	d, err := refmodel.Decrypt(l.key, wire, false)
	switch {
	case err != nil:
		f.Bad = err.Error()
	case !d.MsgKeyOK:
		f.Bad = "msg_key mismatch"
	case d.Len < 4 || int(d.Len) > len(d.Padded):
		f.Bad = "bad length"
	default:
		f.Salt, f.Session, f.MsgID, f.SeqNo = d.Salt, d.Session, d.MsgID, d.SeqNo
		body := d.Padded[:d.Len]
		f.TypeID = binary.LittleEndian.Uint32(body)
		switch f.TypeID {
		case typPing, typPingDelay:
			if len(body) >= 12 {
				f.PingID = int64(binary.LittleEndian.Uint64(body[4:]))
			}
		case typReq:
			if len(body) >= 12 {
				f.ReqN = int64(binary.LittleEndian.Uint64(body[4:]))
			}
		case typDrop:
			if len(body) >= 12 {
				f.DropID = int64(binary.LittleEndian.Uint64(body[4:]))
			}
		}
	}
	l.mu.Lock()
	l.seq++
	f.Seq = l.seq
	l.frames = append(l.frames, f)
	l.events = append(l.events, ev{Seq: f.Seq, Kind: "frame:" + f.kind(), A: f.MsgID, B: f.PingID})
	if f.Bad == "" && !l.gotSession {
		l.session, l.gotSession = f.Session, true
	}
	react := l.react
	l.mu.Unlock()
	if react != nil && f.Bad == "" {
		react(f)
	}
	select {
	case l.notify <- f:
	default:
		l.mu.Lock()
		l.overflow = true
		l.mu.Unlock()
	}
	return nil
}

func (l *link) Recv(ctx context.Context, b *bin.Buffer) error {
	select {
	case w := <-l.in:
		b.ResetTo(w)
		return nil
	case <-ctx.Done():
		return ctx.Err()
	case <-l.recvFail:
		return errors.New("harness: transport read error")
	case <-l.closed:
		return io.EOF
	}
}

// failRead makes every further Recv fail: the read loop ends and Run tears the connection down.
func (l *link) failRead() {
	l.failOnce.Do(func() {
		l.log("transport-read-error", 0, 0, "")
		close(l.recvFail)
	})
}

func (l *link) Close() error {
	l.closeOnce.Do(func() {
		l.log("transport-close", 0, 0, "")
		close(l.closed)
	})
	return nil
}

// ---- Handler ----

type linkHandler struct{ l *link }

func (h linkHandler) OnMessage(b *bin.Buffer) error {
	id, err := b.ID()
	if err != nil || id != typSentinel {
		return nil
	}
	tok, err := b.Long()
	if err != nil {
		return nil
	}
	h.l.mu.Lock()
	ch := h.l.sentinels[tok]
	delete(h.l.sentinels, tok)
	h.l.mu.Unlock()
	if ch != nil {
		close(ch)
	}
	return nil
}

func (h linkHandler) OnSession(s mtproto.Session) error {
	select {
	case h.l.sessionEv <- s.Salt:
	default:
	}
	return nil
}

// ---- server side ----

func tl(e bin.Encoder) []byte {
	var b bin.Buffer
	if err := e.Encode(&b); err != nil {
		panic(err)
	}
	return b.Buf
}

type rawTL []byte

func (r rawTL) Encode(b *bin.Buffer) error { b.Put(r); return nil }

func (l *link) nextServerID(response bool) int64 {
	// caller holds l.mu
	l.srvCtr++
	low := l.srvCtr<<2 | 3
	if response {
		low = l.srvCtr<<2 | 1
	}
	return l.clk.Now().Unix()<<32 | (low & 0x3fffffff)
}

// push encrypts payload as a server message and queues it for the read loop.
// contentRelated sets the odd seq_no bit, which makes the client acknowledge it.
func (l *link) push(payload []byte, contentRelated bool) {
	l.mu.Lock()
	if !l.gotSession {
		l.mu.Unlock()
		panic("harness: server push before the first client frame")
	}
	id := l.nextServerID(true)
	seq := int32(l.srvCtr * 2)
	if contentRelated {
		seq++
	}
	pad := 12 + l.srvRand.IntN(64)
	for (32+len(payload)+pad)%16 != 0 {
		pad++
	}
	padding := make([]byte, pad)
	for i := range padding {
		padding[i] = byte(l.srvRand.Uint32())
	}
	h := refmodel.Header{Salt: int64(l.srvRand.Uint64()), Session: l.session, MsgID: id, SeqNo: seq, Len: int32(len(payload))}
	l.mu.Unlock()
	wire := refmodel.Encrypt(l.key, h, payload, padding, true)
	select {
	case l.in <- wire:
	case <-l.closed:
	}
}

// container packs payloads into one msg_container: mtproto handles the inner
// messages sequentially, so a trailing sentinel marks "all of these were handled".
func (l *link) container(payloads ...[]byte) []byte {
	var mc proto.MessageContainer
	l.mu.Lock()
	for _, p := range payloads {
		mc.Messages = append(mc.Messages, proto.Message{ID: l.nextServerID(false), SeqNo: 0, Bytes: len(p), Body: p})
	}
	l.mu.Unlock()
	return tl(&mc)
}

func (l *link) newSentinel() ([]byte, chan struct{}) {
	l.mu.Lock()
	l.nextToken++
	tok := l.nextToken
	ch := make(chan struct{})
	l.sentinels[tok] = ch
	l.mu.Unlock()
	var b bin.Buffer
	b.PutID(typSentinel)
	b.PutLong(tok)
	return b.Buf, ch
}

// pushSync delivers the payloads in one container followed by a sentinel and
// waits until the sentinel reached Handler.OnMessage (all payloads handled).
func (l *link) pushSync(payloads ...[]byte) error {
	s, ch := l.newSentinel()
	l.push(l.container(append(payloads, s)...), false)
	return l.wait(ch)
}

func (l *link) wait(ch <-chan struct{}) error {
	select {
	case <-ch:
		return nil
	case err := <-l.runDone:
		l.runDone <- err
		return fmt.Errorf("run ended while waiting: %v", err)
	case <-time.After(waitLimit):
		return errWatchdog
	}
}

func pongTL(msgID, pingID int64) []byte { return tl(&mt.Pong{MsgID: msgID, PingID: pingID}) }

func resultTL(reqMsgID int64, inner []byte) []byte {
	return tl(&proto.Result{RequestMessageID: reqMsgID, Result: inner})
}

func respTL(n int64) []byte {
	var b bin.Buffer
	b.PutID(typResp)
	b.PutLong(n)
	return b.Buf
}

func badSaltTL(msgID int64, seqNo int32, newSalt int64) []byte {
	return tl(&mt.BadServerSalt{BadMsgID: msgID, BadMsgSeqno: int(seqNo), ErrorCode: 48, NewServerSalt: newSalt})
}

func ackTL(ids ...int64) []byte { return tl(&mt.MsgsAck{MsgIDs: ids}) }

// harness request/response objects for Invoke.
type hReq struct{ N int64 }

func (r *hReq) Encode(b *bin.Buffer) error { b.PutID(typReq); b.PutLong(r.N); return nil }

type hResp struct{ N int64 }

func (r *hResp) Decode(b *bin.Buffer) error {
	if err := b.ConsumeID(typResp); err != nil {
		return err
	}
	v, err := b.Long()
	r.N = v
	return err
}

// nextFrame returns the next client frame in Send order.
func (l *link) nextFrame() (*frame, error) {
	select {
	case f := <-l.notify:
		return f, nil
	case err := <-l.runDone:
		l.runDone <- err
		return nil, fmt.Errorf("run ended while waiting for a frame: %v", err)
	case <-time.After(waitLimit):
		return nil, errWatchdog
	}
}
