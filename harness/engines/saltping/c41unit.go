package main

import (
	"fmt"
	"math/rand/v2"
	"runtime"
	"sort"
	"strings"
	"sync"
	"sync/atomic"
	"time"

	"github.com/anishathalye/porcupine"

	"github.com/gotd/td/mt"
	"github.com/gotd/td/mtproto/salts"

	"verif/harness/mon"
)

// ---- relational sequential model of salts.Salts ----
//
// The statement only demands: Get(deadline) returns a salt that is currently
// stored and valid after the deadline, and does not report "none" while such a
// salt is stored. Which valid salt is chosen, how duplicates are merged and
// when expired salts are dropped is left open, so the model is relational:
//   - every announcement since the last Reset is remembered;
//   - Get(d) marks announcements with valid_until <= d as "maybe pruned";
//   - a returned salt needs SOME announcement of it with valid_until > d;
//   - "none" is refuted only by a salt value all of whose announcements are
//     un-pruned and valid after d (whatever duplicate the store kept is valid).

type ann struct {
	Salt   int64 `json:"salt"`
	VU     int   `json:"valid_until"`
	Pruned bool  `json:"maybe_pruned,omitempty"`
}

type saltSet []ann

func (s saltSet) store(in []mt.FutureSalt) saltSet {
	out := append(saltSet(nil), s...)
	for _, f := range in {
		out = append(out, ann{Salt: f.Salt, VU: f.ValidUntil})
	}
	return out
}

// get returns (allowed, next state, class of the observation).
func (s saltSet) get(d int, salt int64, ok bool) (bool, saltSet, string) {
	valid := map[int64]bool{}   // some announcement valid after d
	certain := map[int64]bool{} // all announcements un-pruned and valid after d
	seen := map[int64]bool{}
	for _, a := range s {
		if a.VU > d {
			valid[a.Salt] = true
		}
		if !seen[a.Salt] {
			seen[a.Salt] = true
			certain[a.Salt] = true
		}
		if a.Pruned || a.VU <= d {
			certain[a.Salt] = false
		}
	}
	nCertain := 0
	for _, v := range certain {
		if v {
			nCertain++
		}
	}
	next := append(saltSet(nil), s...)
	expired := 0
	for i := range next {
		if next[i].VU <= d {
			next[i].Pruned = true
			expired++
		}
	}
	var class string
	switch {
	case ok && len(valid) == 1:
		class = "hit/only-valid"
	case ok:
		class = "hit/several-valid"
	case len(s) == 0:
		class = "miss/empty"
	case len(valid) == 0:
		class = "miss/all-expired"
	default:
		class = "miss/valid-maybe-pruned"
	}
	if expired > 0 {
		class += "/with-expired"
	}
	if ok {
		return valid[salt], next, class
	}
	return nCertain == 0, next, class
}

func (s saltSet) canon() string {
	parts := make([]string, len(s))
	for i, a := range s {
		parts[i] = fmt.Sprintf("%d:%d:%t", a.Salt, a.VU, a.Pruned)
	}
	sort.Strings(parts)
	return strings.Join(parts, ",")
}

type saltOp struct {
	Op       string          `json:"op"` // store | get | reset
	Salts    []mt.FutureSalt `json:"salts,omitempty"`
	Deadline int             `json:"deadline,omitempty"`
	GotSalt  int64           `json:"got_salt,omitempty"`
	GotOK    bool            `json:"got_ok,omitempty"`
}

// genStore builds a future-salt set around the clock reading `now`:
// overlapping windows, already expired entries, entries ending exactly at /
// next to `now`, duplicates (same and different validity), unsorted.
func genStore(r *rand.Rand, now int, pool []mt.FutureSalt, smallDomain bool) []mt.FutureSalt {
	n := 1 + r.IntN(6)
	out := make([]mt.FutureSalt, 0, n)
	for i := 0; i < n; i++ {
		if len(pool)+len(out) > 0 && r.IntN(5) == 0 {
			// duplicate of something announced earlier (or in this set)
			all := append(append([]mt.FutureSalt(nil), pool...), out...)
			d := all[r.IntN(len(all))]
			if r.IntN(4) == 0 {
				d.ValidUntil += []int{-600, -1, 1, 600}[r.IntN(4)]
			}
			out = append(out, d)
			continue
		}
		var vu int
		switch r.IntN(8) {
		case 0:
			vu = now - r.IntN(3600) // expired
		case 1:
			vu = now + []int{-1, 0, 1}[r.IntN(3)] // boundary
		case 2:
			vu = now + 300 + []int{-1, 0, 1}[r.IntN(3)]
		default:
			vu = now + 1 + r.IntN(7200)
		}
		s := int64(r.Uint64())
		if smallDomain {
			s = int64(1 + r.IntN(5))
		}
		out = append(out, mt.FutureSalt{ValidSince: vu - 1800 - r.IntN(1800), ValidUntil: vu, Salt: s})
	}
	r.Shuffle(len(out), func(i, j int) { out[i], out[j] = out[j], out[i] })
	return out
}

func c41UnitSequential(c *mon.Ctx) {
	n := c.N(50000, 2500000)
	r := c.Rand("c41-unit")
	nontrivial := 0
	for i := 0; i < n; i++ {
		var real salts.Salts
		var model saltSet
		var pool []mt.FutureSalt
		var ops []saltOp
		now := 1_600_000_000 + r.IntN(1_000_000)
		steps := 4 + r.IntN(14)
		for k := 0; k < steps; k++ {
			switch x := r.IntN(10); {
			case x < 4:
				set := genStore(r, now, pool, false)
				pool = append(pool, set...)
				real.Store(append([]mt.FutureSalt(nil), set...))
				model = model.store(set)
				ops = append(ops, saltOp{Op: "store", Salts: set})
			case x < 9:
				// clock readings: mostly advancing, sometimes to a validity
				// boundary of an announced salt, rarely stepping back.
				switch y := r.IntN(10); {
				case y < 5:
					now += r.IntN(900)
				case y < 8 && len(pool) > 0:
					now = pool[r.IntN(len(pool))].ValidUntil + []int{-1, 0, 1}[r.IntN(3)]
				case y < 9:
					now -= r.IntN(600)
				default:
					now += 3600 + r.IntN(7200)
				}
				salt, ok := real.Get(time.Unix(int64(now), int64(r.IntN(2))*500_000_000))
				op := saltOp{Op: "get", Deadline: now, GotSalt: salt, GotOK: ok}
				ops = append(ops, op)
				allowed, next, class := model.get(now, salt, ok)
				c.Eval(1)
				if len(model) > 0 {
					nontrivial++
					c.Distinct("unit/" + class)
					c.Sample("unit/"+class, map[string]any{"stored": model, "deadline": now, "salt": salt, "ok": ok})
				}
				if !allowed {
					sig := "unit|get-returned-invalid-salt"
					if !ok {
						sig = "unit|get-none-while-valid-salt-stored"
					}
					c.Violate(sig, map[string]any{"ops": ops, "model_before_get": model})
				}
				model = next
			default:
				real.Reset()
				model = nil
				pool = nil
				ops = append(ops, saltOp{Op: "reset"})
			}
		}
	}
	c.Add("unit_sequences", int64(n))
	c.Add("unit_gets_on_nonempty_store", int64(nontrivial))
	if nontrivial == 0 {
		c.Inconclusive("unit model: no Get on a non-empty store was executed")
	}
}

// ---- concurrent histories, porcupine ----

type pcIn struct {
	Op       string
	Salts    []mt.FutureSalt
	Deadline int
}

type pcOut struct {
	Salt int64
	OK   bool
}

var saltsModel = porcupine.Model{
	Init: func() interface{} { return "" },
	Step: func(state, input, output interface{}) (bool, interface{}) {
		s := decodeSet(state.(string))
		in := input.(pcIn)
		switch in.Op {
		case "store":
			return true, s.store(in.Salts).canon()
		case "reset":
			return true, ""
		default:
			out := output.(pcOut)
			ok, next, _ := s.get(in.Deadline, out.Salt, out.OK)
			return ok, next.canon()
		}
	},
	Equal: func(a, b interface{}) bool { return a.(string) == b.(string) },
	DescribeOperation: func(input, output interface{}) string {
		return fmt.Sprintf("%+v -> %+v", input, output)
	},
}

func decodeSet(s string) saltSet {
	if s == "" {
		return nil
	}
	var out saltSet
	for _, p := range strings.Split(s, ",") {
		var a ann
		if _, err := fmt.Sscanf(p, "%d:%d:%t", &a.Salt, &a.VU, &a.Pruned); err != nil {
			panic(err)
		}
		out = append(out, a)
	}
	return out
}

func c41UnitConcurrent(c *mon.Ctx) {
	n := c.N(300, 15000)
	checked, overlapping := 0, 0
	for i := 0; i < n; i++ {
		r := c.RandN("c41-porcupine", i)
		var real salts.Salts
		var clock atomic.Int64
		clients := 2 + r.IntN(3)
		base := 1_600_000_000
		// pre-generate per-client programs (deterministic), small domains so that
		// duplicates and boundary hits are frequent.
		progs := make([][]pcIn, clients)
		var pool []mt.FutureSalt
		for cl := range progs {
			for k, kn := 0, 3+r.IntN(4); k < kn; k++ {
				switch x := r.IntN(10); {
				case x < 4:
					set := genStore(r, base+r.IntN(600), pool, true)
					if len(set) > 3 {
						set = set[:3]
					}
					pool = append(pool, set...)
					progs[cl] = append(progs[cl], pcIn{Op: "store", Salts: set})
				case x < 9:
					d := base + r.IntN(900)
					if len(pool) > 0 && r.IntN(2) == 0 {
						d = pool[r.IntN(len(pool))].ValidUntil + []int{-1, 0, 1}[r.IntN(3)]
					}
					progs[cl] = append(progs[cl], pcIn{Op: "get", Deadline: d})
				default:
					progs[cl] = append(progs[cl], pcIn{Op: "reset"})
				}
			}
		}
		var mu sync.Mutex
		var hist []porcupine.Operation
		var wg sync.WaitGroup
		startGate := make(chan struct{})
		gates := make([]atomic.Int32, 8)
		want := make([]int32, 8)
		for cl := range progs {
			for k := range progs[cl] {
				want[k]++
			}
		}
		for cl := range progs {
			wg.Add(1)
			go func(cl int) {
				defer wg.Done()
				<-startGate
				for k, in := range progs[cl] {
					// step barrier: all clients that have a k-th operation issue it together
					gates[k].Add(1)
					for spins := 1; gates[k].Load() < want[k] && spins < 2_000_000; spins++ {
						if spins%4096 == 0 {
							runtime.Gosched() // busy-wait otherwise: the operations take ~100 ns
						}
					}
					var out pcOut
					call := clock.Add(1)
					switch in.Op {
					case "store":
						real.Store(append([]mt.FutureSalt(nil), in.Salts...))
					case "reset":
						real.Reset()
					default:
						out.Salt, out.OK = real.Get(time.Unix(int64(in.Deadline), 0))
					}
					ret := clock.Add(1)
					mu.Lock()
					hist = append(hist, porcupine.Operation{ClientId: cl, Input: in, Call: call, Output: out, Return: ret})
					mu.Unlock()
				}
			}(cl)
		}
		close(startGate)
		wg.Wait()
		for a := range hist {
			for b := range hist {
				if a != b && hist[a].ClientId != hist[b].ClientId && hist[a].Call < hist[b].Return && hist[b].Call < hist[a].Return {
					overlapping++
					goto counted
				}
			}
		}
	counted:
		res := porcupine.CheckOperationsTimeout(saltsModel, hist, 20*time.Second)
		c.Eval(1)
		switch res {
		case porcupine.Ok:
			checked++
			c.Distinct(fmt.Sprintf("porcupine/clients%d/ops%d", clients, len(hist)))
		case porcupine.Illegal:
			c.Violate("unit|history-not-linearizable", map[string]any{"history": describeHist(hist)})
		default:
			c.Add("porcupine_timeouts", 1)
		}
	}
	c.Add("porcupine_histories_ok", int64(checked))
	c.Add("porcupine_histories_with_overlap", int64(overlapping))
	if checked < n/2 {
		c.Inconclusive(fmt.Sprintf("porcupine decided only %d of %d histories", checked, n))
	}
}

func describeHist(h []porcupine.Operation) []map[string]any {
	out := make([]map[string]any, len(h))
	for i, o := range h {
		out[i] = map[string]any{"client": o.ClientId, "call": o.Call, "return": o.Return, "in": o.Input, "out": o.Output}
	}
	return out
}
