package main

import (
	"context"
	"errors"
	"fmt"
	"math/rand/v2"
	"runtime"
	"strings"
	"time"

	"verif/harness/mon"
)

func runC43(c *mon.Ctx) {
	c.Rule("the real mtproto.Conn runs on a fake transport; the harness reads every ping id from the decrypted ping / ping_delay_disconnect frame and plays the " +
		"server. (A) Conn.Ping: 1..4 pings outstanding at once, per ping a fate (matching pong as plain frame / in a container / inside rpc_result / duplicated, " +
		"or never answered and cancelled) preceded by decoys (ping id +-1, inverted, msg_id and ping_id swapped, pong for another outstanding ping, pong for a ping " +
		"of an earlier round, decoy inside rpc_result); decoys and most matches are delivered in a container that ends with a sentinel, so 'consumed' is known. " +
		"Oracle: nil only with its own pong delivered before; no return before cancel without it; after a consumed matching pong the call must not stay parked in " +
		"its select (decided from the goroutine dump, not from a duration) and must return nil. (B) keep-alive: ticks come from the neo fake clock, one tick per " +
		"observed ping frame; pongs are sent synchronously from the transport when the ping frame is seen. Arm 'alive' (ping timeout 45 s real, every ping " +
		"answered): Run must still be running when the next tick's ping is observed. Arm 'dead' (timeout 300 ms): after an unanswered / decoy-only ping Run must " +
		"end on its own with an error; a further ping frame after one more tick means it kept running. Verdicts are outcomes, never measured durations. " +
		"(C) race: on one connection, rounds of Ping A whose context is cancelled before / concurrently with / just after its matching pong is handled (both outcomes of A " +
		"are legitimate), each followed by Ping B that is never answered: B must not return nil; keep-alive variant: 1..3 such races, then an unanswered keep-alive ping must " +
		"end Run with an error and no further ping. distinct non-trivial = (fate, decoy set) classes, keep-alive answer sequences, race order sequences")
	c.Assume("refmodel cipher and generated mt TL encoders trusted; a goroutine whose channel was closed is not reported as parked in [select] by runtime.Stack")
	c.Assume("arm 'alive': a synchronously queued pong is handled within 45 s of real time; arm 'dead' runs whose earlier, answered pings time out under load are discarded, not judged")
	nA := c.N(220, 8000)
	for i := 0; i < nA; i++ {
		if !c43API(c, i) {
			break
		}
	}
	nR := c.N(150, 5000)
	for i := 0; i < nR && c.Violations() < 5; i++ {
		if !c43Race(c, i) {
			break
		}
	}
	nB := c.N(80, 2000)
	discarded := 0
	for i := 0; i < nB && c.Violations() < 5; i++ {
		ok, disc := c43KeepAlive(c, i)
		if disc {
			discarded++
		}
		if !ok {
			break
		}
	}
	// Discarded runs (an answered ping of the 300 ms arm timed out under load) are
	// not asserted, only counted. A quarter of the 'dead' runs have no answered ping
	// at all and cannot be discarded, so the arm always judges some.
	c.Add("keepalive_discarded_early_timeout", int64(discarded))
	if discarded >= (nB+1)/2 {
		c.Inconclusive(fmt.Sprintf("keep-alive: all %d 'dead' runs discarded", discarded))
	}
}

// parkedIn counts goroutines that have fn on their stack and are parked in a select.
func parkedIn(fn string) (parked, total int) {
	buf := make([]byte, 4<<20)
	n := runtime.Stack(buf, true)
	for _, g := range strings.Split(string(buf[:n]), "\n\n") {
		if !strings.Contains(g, fn) {
			continue
		}
		total++
		header, _, _ := strings.Cut(g, "\n")
		if strings.Contains(header, "[select") {
			parked++
		}
	}
	return
}

const pingFn = "mtproto.(*Conn).Ping("

type pingCall struct {
	N        int      `json:"n"`
	ID       int64    `json:"ping_id"`
	MsgID    int64    `json:"msg_id"`
	Fate     string   `json:"fate"`
	Decoys   []string `json:"decoys,omitempty"`
	Matched  bool     `json:"matching_pong_delivered"`
	Canceled bool     `json:"cancelled"`
	Returned bool     `json:"returned"`
	Err      string   `json:"err,omitempty"`
	cancel   context.CancelFunc
	ret      chan error
}

type c43api struct {
	c     *mon.Ctx
	l     *link
	r     *rand.Rand
	idx   int
	calls []*pingCall // all, in launch order
	trace []string
}

func (s *c43api) witness(p *pingCall) map[string]any {
	return map[string]any{"scenario": s.idx, "ping": p, "pings": s.calls, "deliveries": s.trace, "events": s.l.eventsCopy()}
}

func (s *c43api) took(p *pingCall, err error) {
	p.Returned = true
	if err != nil {
		p.Err = err.Error()
	}
	s.c.Eval(1)
	switch {
	case err == nil && !p.Matched:
		s.c.Violate("ping|nil-without-matching-pong|"+p.Fate, s.witness(p))
	case err != nil && !p.Canceled:
		if p.Matched {
			s.c.Violate("ping|error-although-matching-pong-delivered-and-context-alive|"+p.Fate, s.witness(p))
		} else {
			s.c.Violate("ping|returned-before-context-ended-without-matching-pong|"+p.Fate, s.witness(p))
		}
	default:
		key := "api/" + p.Fate
		if len(p.Decoys) > 0 {
			key += "/decoys:" + strings.Join(p.Decoys, "+")
		}
		s.c.Distinct(key)
	}
}

// sweep reports calls that returned although nothing allowed them to.
func (s *c43api) sweep() {
	for i := 0; i < 4; i++ {
		runtime.Gosched()
	}
	for _, p := range s.calls {
		if p.Returned || p.Matched || p.Canceled {
			continue
		}
		select {
		case err := <-p.ret:
			s.took(p, err)
		default:
		}
	}
}

func (s *c43api) outstandingUnmatched() int {
	n := 0
	for _, p := range s.calls {
		if !p.Returned && !p.Matched {
			n++
		}
	}
	return n
}

// awaitReturn waits for the call to return. If consumed is true the matching
// pong is known to have been handled: a call still parked in its select is then
// stuck for good, which the goroutine dump shows without any timing judgement.
func (s *c43api) awaitReturn(p *pingCall, consumed bool) error {
	deadline := time.After(waitLimit)
	for {
		select {
		case err := <-p.ret:
			s.took(p, err)
			return nil
		case <-deadline:
			return errWatchdog
		case <-time.After(2 * time.Millisecond):
		}
		if !consumed {
			continue
		}
		parked, _ := parkedIn(pingFn)
		if parked > s.outstandingUnmatched() {
			select {
			case err := <-p.ret:
				s.took(p, err)
				return nil
			default:
			}
			p.Err = "parked in select"
			s.c.Eval(1)
			s.c.Violate("ping|still-waiting-after-consumed-matching-pong|"+p.Fate, s.witness(p))
			return errors.New("abort")
		}
	}
}

func (s *c43api) decoys(p *pingCall, earlier []*pingCall) [][]byte {
	var out [][]byte
	kinds := []string{"id+1", "id-1", "inverted", "swapped", "earlier", "in-result-id+1", "msgid-as-id"}
	for _, k := range kinds {
		if s.r.IntN(3) != 0 {
			continue
		}
		switch k {
		case "id+1":
			out = append(out, pongTL(p.MsgID, p.ID+1))
		case "id-1":
			out = append(out, pongTL(p.MsgID, p.ID-1))
		case "inverted":
			out = append(out, pongTL(p.MsgID, ^p.ID))
		case "swapped":
			out = append(out, pongTL(p.ID, p.MsgID))
		case "msgid-as-id":
			out = append(out, pongTL(p.MsgID, p.MsgID))
		case "earlier":
			if len(earlier) == 0 {
				continue
			}
			e := earlier[s.r.IntN(len(earlier))]
			out = append(out, pongTL(e.MsgID, e.ID))
		case "in-result-id+1":
			out = append(out, resultTL(p.MsgID, pongTL(p.MsgID, p.ID+1)))
		}
		p.Decoys = append(p.Decoys, k)
	}
	return out
}

func c43API(c *mon.Ctx, idx int) bool {
	r := c.RandN("c43-api", idx)
	s := &c43api{c: c, r: r, idx: idx}
	s.l = newLink(c, r, linkOpts{start: time.Unix(1_650_000_000+int64(r.IntN(1_000_000)), 0), salt: int64(r.Uint64())})
	if err := s.l.start(); err != nil {
		c.Inconclusive("c43 api start: " + err.Error())
		return false
	}
	defer s.l.stop()
	fates := []string{"match-plain", "match-container", "match-in-rpc-result", "match-duplicated", "match-after-decoy-in-same-container", "never-answered"}
	var earlier []*pingCall
	fail := func(err error) bool {
		for _, p := range s.calls {
			if p.cancel != nil {
				p.cancel()
			}
		}
		if err.Error() == "abort" {
			return c.Violations() < 5
		}
		c.Inconclusive(fmt.Sprintf("c43 api scenario %d: %v", idx, err))
		return !errors.Is(err, errWatchdog)
	}
	rounds := 2 + r.IntN(3)
	for round := 0; round < rounds; round++ {
		k := 1 + r.IntN(4)
		var cur []*pingCall
		for i := 0; i < k; i++ {
			ctx, cancel := context.WithCancel(context.Background())
			p := &pingCall{N: len(s.calls), Fate: fates[r.IntN(len(fates))], cancel: cancel, ret: make(chan error, 1)}
			s.calls = append(s.calls, p)
			cur = append(cur, p)
			go func() { p.ret <- s.l.conn.Ping(ctx) }()
			for {
				f, err := s.l.nextFrame()
				if err != nil {
					return fail(err)
				}
				if f.TypeID == typPing {
					p.ID, p.MsgID = f.PingID, f.MsgID
					break
				}
			}
		}
		order := r.Perm(len(cur))
		for _, oi := range order {
			p := cur[oi]
			if d := s.decoys(p, earlier); len(d) > 0 && p.Fate != "match-after-decoy-in-same-container" {
				s.trace = append(s.trace, fmt.Sprintf("decoys for ping %d: %v", p.N, p.Decoys))
				if err := s.l.pushSync(d...); err != nil {
					return fail(err)
				}
				s.sweep()
			} else if p.Fate == "match-after-decoy-in-same-container" {
				if len(d) == 0 {
					d = [][]byte{pongTL(p.MsgID, p.ID+1)}
					p.Decoys = append(p.Decoys, "id+1")
				}
				p.Matched = true
				s.trace = append(s.trace, fmt.Sprintf("container(decoys %v, matching pong) for ping %d", p.Decoys, p.N))
				if err := s.l.pushSync(append(d, pongTL(p.MsgID, p.ID))...); err != nil {
					return fail(err)
				}
				if err := s.awaitReturn(p, true); err != nil {
					return fail(err)
				}
				s.sweep()
				continue
			}
			var err error
			switch p.Fate {
			case "match-plain":
				p.Matched = true
				s.trace = append(s.trace, fmt.Sprintf("plain matching pong for ping %d", p.N))
				s.l.push(pongTL(p.MsgID, p.ID), false)
				err = s.awaitReturn(p, false)
			case "match-container":
				p.Matched = true
				s.trace = append(s.trace, fmt.Sprintf("container(matching pong) for ping %d", p.N))
				if err = s.l.pushSync(pongTL(p.MsgID, p.ID)); err == nil {
					err = s.awaitReturn(p, true)
				}
			case "match-in-rpc-result":
				p.Matched = true
				s.trace = append(s.trace, fmt.Sprintf("container(rpc_result(matching pong)) for ping %d", p.N))
				if err = s.l.pushSync(resultTL(p.MsgID, pongTL(p.MsgID, p.ID))); err == nil {
					err = s.awaitReturn(p, true)
				}
			case "match-duplicated":
				p.Matched = true
				s.trace = append(s.trace, fmt.Sprintf("container(matching pong x2) + plain duplicate for ping %d", p.N))
				if err = s.l.pushSync(pongTL(p.MsgID, p.ID), pongTL(p.MsgID, p.ID)); err == nil {
					s.l.push(pongTL(p.MsgID, p.ID), false)
					err = s.awaitReturn(p, true)
				}
			case "never-answered":
				// cancelled at the end of the round
			}
			if err != nil {
				return fail(err)
			}
			s.sweep()
		}
		// Everything matching has returned; what is left must still be waiting.
		time.Sleep(time.Millisecond) // settle: a wrongly released call gets a chance to report (miss-only)
		s.sweep()
		for _, p := range cur {
			if p.Returned {
				continue
			}
			if p.Matched {
				return fail(fmt.Errorf("harness: matched ping %d not collected", p.N))
			}
			p.Canceled = true
			p.cancel()
			select {
			case err := <-p.ret:
				s.took(p, err)
			case <-time.After(waitLimit):
				return fail(errWatchdog)
			}
		}
		for _, p := range cur {
			p.cancel()
		}
		earlier = append(earlier, cur...)
	}
	if idx < 2 {
		c.Sample("api-scenario", map[string]any{"pings": s.calls, "deliveries": s.trace})
	}
	c.Add("api_scenarios", 1)
	c.Add("api_pings", int64(len(s.calls)))
	return c.Violations() < 5
}

// ---- keep-alive ----

func c43KeepAlive(c *mon.Ctx, idx int) (cont bool, discarded bool) {
	r := c.RandN("c43-keepalive", idx)
	alive := idx%2 == 0
	const interval = 60 * time.Second
	timeout := 300 * time.Millisecond
	if alive {
		timeout = 45 * time.Second
	}
	l := newLink(c, r, linkOpts{start: time.Unix(1_650_000_000+int64(r.IntN(1_000_000)), 0), salt: int64(r.Uint64()),
		pingInterval: interval, pingTimeout: timeout})
	manners := []string{"plain", "container", "in-rpc-result", "duplicated", "decoy-then-match"}
	deadly := []string{"none", "id+1", "id-1", "swapped", "previous-tick", "decoys-in-container"}
	answered := r.IntN(4)
	if alive {
		answered = 3 + r.IntN(4)
	}
	plan := make([]string, 0, answered+1)
	for i := 0; i < answered; i++ {
		plan = append(plan, manners[r.IntN(len(manners))])
	}
	if alive {
		plan = append(plan, "plain") // the extra tick that proves the loop survived the last answered ping
	} else {
		plan = append(plan, deadly[r.IntN(len(deadly))])
	}
	// server reaction, synchronously inside Send
	tick := 0
	var prev *frame
	l.setReact(func(f *frame) {
		if f.TypeID != typPingDelay {
			return
		}
		// react runs on the single ping-loop goroutine: tick/prev need no lock
		m := "none"
		if tick < len(plan) {
			m = plan[tick]
		}
		tick++
		match := pongTL(f.MsgID, f.PingID)
		switch m {
		case "plain":
			l.push(match, false)
		case "container":
			l.push(l.container(match), false)
		case "in-rpc-result":
			l.push(resultTL(f.MsgID, match), true)
		case "duplicated":
			l.push(match, false)
			l.push(match, false)
		case "decoy-then-match":
			l.push(l.container(pongTL(f.MsgID, f.PingID+1), pongTL(f.PingID, f.MsgID), match), false)
		case "id+1":
			l.push(pongTL(f.MsgID, f.PingID+1), false)
		case "id-1":
			l.push(pongTL(f.MsgID, f.PingID-1), false)
		case "swapped":
			l.push(pongTL(f.PingID, f.MsgID), false)
		case "previous-tick":
			if prev != nil {
				l.push(pongTL(prev.MsgID, prev.PingID), false)
			} else {
				l.push(pongTL(f.MsgID, ^f.PingID), false)
			}
		case "decoys-in-container":
			l.push(l.container(pongTL(f.MsgID, f.PingID+1), pongTL(f.MsgID, f.PingID-1), resultTL(f.MsgID, pongTL(f.MsgID, ^f.PingID))), false)
		}
		prev = f
	})
	if err := l.start(); err != nil {
		c.Inconclusive("c43 keep-alive start: " + err.Error())
		return false, false
	}
	stopped := false
	defer func() {
		if !stopped {
			l.stop()
		}
	}()
	// the ping loop must have armed its ticker before the clock moves
	armed := time.After(waitLimit)
	for ok := false; !ok; {
		select {
		case d := <-l.clk.tickers:
			ok = d == interval
		case <-armed:
			c.Inconclusive("c43 keep-alive: ping ticker never created (watchdog)")
			return false, false
		}
	}
	// The server can only answer after the first client frame (session id): the
	// first ping_delay_disconnect is that frame, react answers from it on.
	witness := func(extra string) map[string]any {
		return map[string]any{"scenario": idx, "arm": map[bool]string{true: "alive", false: "dead"}[alive], "plan": plan,
			"ping_timeout": timeout.String(), "note": extra, "events": l.eventsCopy()}
	}
	for i := range plan {
		l.clk.Travel(interval)
		last := i == len(plan)-1
		// one frame per tick: the tick was consumed, the next travel cannot block the fake clock
		var f *frame
		for f == nil {
			select {
			case g := <-l.notify:
				if g.TypeID == typPingDelay {
					f = g
				}
			case err := <-l.runDone:
				l.runDone <- err
				c.Eval(1)
				if alive {
					c.Violate("keepalive|run-ended-although-every-ping-was-answered", witness(fmt.Sprintf("before the ping of tick %d: %v", i+1, err)))
					return true, false
				}
				// an answered ping of the 300 ms arm timed out under load: not judged
				return true, true
			case <-time.After(waitLimit):
				c.Inconclusive(fmt.Sprintf("c43 keep-alive %d: no ping frame after tick %d (watchdog)", idx, i+1))
				return false, false
			}
		}
		if !last || alive {
			continue
		}
		// dead arm, the unanswered ping is on the wire. One more tick: a loop that
		// ignored the failure would send another ping.
		l.clk.Travel(interval)
		for decided := false; !decided; {
			select {
			case err := <-l.runDone:
				l.runDone <- err
				decided = true
				c.Eval(1)
				if err == nil {
					c.Violate("keepalive|run-ended-without-error-after-missed-pong|"+plan[i], witness(""))
				} else {
					c.Distinct(fmt.Sprintf("keepalive/dead/%s", strings.Join(plan, ",")))
					if idx < 6 {
						c.Sample("keepalive-dead", map[string]any{"plan": plan, "run_error": err.Error()})
					}
				}
			case g := <-l.notify:
				if g.TypeID != typPingDelay {
					continue // late acknowledgement of an earlier rpc_result
				}
				decided = true
				c.Eval(1)
				c.Violate("keepalive|kept-running-after-missed-pong|"+plan[i], witness("another keep-alive ping was sent after the unanswered one"))
			case <-time.After(waitLimit):
				c.Inconclusive(fmt.Sprintf("c43 keep-alive %d: neither end of Run nor a further ping (watchdog)", idx))
				return false, false
			}
		}
	}
	if alive {
		c.Eval(1)
		select {
		case err := <-l.runDone:
			l.runDone <- err
			c.Violate("keepalive|run-ended-although-every-ping-was-answered", witness(fmt.Sprintf("after the last tick: %v", err)))
		default:
			c.Distinct(fmt.Sprintf("keepalive/alive/%s", strings.Join(plan, ",")))
			if idx < 6 {
				c.Sample("keepalive-alive", map[string]any{"plan": plan})
			}
		}
	}
	c.Add("keepalive_scenarios", 1)
	stopped = true
	l.stop()
	return c.Violations() < 5, false
}
