package main

import (
	"context"
	"errors"
	"fmt"
	"sort"
	"time"

	"github.com/gotd/td/mt"

	"verif/harness/mon"
)

// c41Named: bad_server_salt names a salt that is (or is not) in the stored
// future-salt set, while stored salts expire shortly: validity ends 1 s .. 6 min
// after the lookahead edge / after now, the clock travels between the send and
// the rejection, or the set arrives after the send. The statement demands that
// the request is re-sent once, with exactly the salt named by the server.
func c41Named(c *mon.Ctx, idx int) bool {
	r := c.RandN("c41-named", idx)
	preset := int64(r.Uint64() | 1)
	l := newLink(c, r, linkOpts{start: time.Unix(1_710_000_000+int64(r.IntN(1_000_000)), 0), salt: preset})
	if err := l.start(); err != nil {
		c.Inconclusive("c41 named start: " + err.Error())
		return false
	}
	defer l.stop()
	fail := func(err error) bool {
		c.Inconclusive(fmt.Sprintf("c41 named %d: %v", idx, err))
		return !errors.Is(err, errWatchdog)
	}
	next := func(pred func(*frame) bool) (*frame, error) {
		for {
			f, err := l.nextFrame()
			if err != nil || pred(f) {
				return f, err
			}
		}
	}
	{
		done := make(chan error, 1)
		go func() { done <- l.conn.Ping(context.Background()) }()
		f, err := next(func(f *frame) bool { return f.TypeID == typPing })
		if err != nil {
			return fail(err)
		}
		l.push(pongTL(f.MsgID, f.PingID), false)
		if _, err := waitErr(l, done); err != nil {
			return fail(err)
		}
	}
	for round := 0; round < 4 && c.Violations() < 8; round++ {
		now := l.clk.Now().Unix()
		// the set: salts ending shortly after the lookahead edge (adoptable now, sliding
		// into the lookahead soon), salts ending shortly after now, and long-lived ones
		var set []mt.FutureSalt
		add := func(vu int64) {
			set = append(set, mt.FutureSalt{ValidSince: int(vu) - 3600, ValidUntil: int(vu), Salt: int64(r.Uint64() | 1)})
		}
		for i, n := 0, 1+r.IntN(3); i < n; i++ {
			add(now + 300 + 1 + int64(r.IntN(360)))
		}
		for i, n := 0, r.IntN(3); i < n; i++ {
			add(now + 1 + int64(r.IntN(360)))
		}
		for i, n := 0, 1+r.IntN(2); i < n; i++ {
			add(now + 1800 + int64(r.IntN(7200)))
		}
		r.Shuffle(len(set), func(i, j int) { set[i], set[j] = set[j], set[i] })
		byVU := append([]mt.FutureSalt(nil), set...)
		sort.Slice(byVU, func(i, j int) bool { return byVU[i].ValidUntil < byVU[j].ValidUntil })
		late := r.IntN(3) == 0
		deliver := func() error {
			return l.pushSync(tl(&mt.FutureSalts{Now: int(l.clk.Now().Unix()), Salts: set}))
		}
		if !late {
			if err := deliver(); err != nil {
				return fail(err)
			}
		}
		n := int64(round + 1)
		done := make(chan error, 1)
		go func() {
			var out hResp
			done <- l.conn.Invoke(context.Background(), &hReq{N: n}, &out)
		}()
		f1, err := next(func(f *frame) bool { return f.TypeID == typReq && f.ReqN == n })
		if err != nil {
			return fail(err)
		}
		if late {
			if err := deliver(); err != nil {
				return fail(err)
			}
		}
		// which salt the server names
		var named int64
		var pos string
		switch x := r.IntN(8); {
		case x == 0:
			named, pos = int64(r.Uint64()|1), "unknown"
		case x <= 2:
			named, pos = byVU[0].Salt, "stored-first"
		case x <= 4:
			named, pos = byVU[len(byVU)-1].Salt, "stored-last"
		default:
			i := r.IntN(len(byVU))
			named, pos = byVU[i].Salt, fmt.Sprintf("stored-%d-of-%d", i+1, len(byVU))
		}
		var namedVU int64
		for _, s := range set {
			if s.Salt == named {
				namedVU = int64(s.ValidUntil)
			}
		}
		// clock between send and rejection: none, small, or so that the named salt is
		// still valid but inside the 5 minute lookahead when the rejection arrives
		var dt, step time.Duration
		var stepped interface{ Load() bool }
		switch x := r.IntN(6); {
		case x >= 4 && namedVU > now+300 && !late:
			// No travel before the rejection: the named salt is still valid past the
			// lookahead when the rejection is decrypted. Time passes between that and the
			// retransmission, so that the
			// named salt is inside the lookahead when the request is encrypted again.
			lo := namedVU - 300 - now
			step = time.Duration(lo+int64(r.IntN(60))) * time.Second
			// The step is bound to the clock reading made while a message is being
			// encrypted (newEncryptedMessage -> session -> updateSalt). The first
			// transmission has left that function before its frame was observed, so the
			// only encryption that can follow is the retransmission. (Binding it to
			// Conn.write was wrong: the first transmission still reads the clock there
			// after Send, and a step of more than 300 s before the rejection is handled
			// makes the client discard the rejection as too old - nothing to wait for.)
			stepped = l.clk.stepInside("mtproto.(*Conn).newEncryptedMessage", step)
		case x == 0:
		case x == 1:
			dt = time.Duration(1+r.IntN(60)) * time.Second
		default:
			if namedVU != 0 {
				lo := namedVU - 300 - now // from here on the salt is inside the lookahead
				if lo < 0 {
					lo = 0
				}
				hi := namedVU - now // expired from here on
				if hi > lo {
					dt = time.Duration(lo+int64(r.IntN(int(hi-lo)))) * time.Second
				}
			} else {
				dt = time.Duration(r.IntN(400)) * time.Second
			}
		}
		if dt > 0 {
			l.clk.Travel(dt)
		}
		at := l.clk.Now().Unix()
		state := "unknown-to-store"
		if namedVU != 0 {
			switch {
			case namedVU <= at:
				state = "expired"
			case namedVU <= at+300:
				state = "inside-lookahead"
			default:
				state = "valid-past-lookahead"
			}
		}
		later := 0
		for _, s := range set {
			if int64(s.ValidUntil) > at+300 && s.Salt != named {
				later++
			}
		}
		l.push(badSaltTL(f1.MsgID, f1.SeqNo, named), false)
		var f2 *frame
		select {
		case f2 = <-l.notify:
		case cerr := <-done:
			select {
			case f2 = <-l.notify:
				done <- cerr
			default:
				c.Eval(1)
				c.Violate("retry|no-retransmission-after-bad-server-salt|named-"+pos, map[string]any{"named": idx, "round": round, "invoke_error": fmt.Sprint(cerr), "frames": l.framesCopy()})
				return true
			}
		case <-time.After(waitLimit):
			return fail(errWatchdog)
		}
		c.Eval(1)
		l.clk.onNow.Store(nil)
		if stepped != nil {
			if !stepped.Load() {
				// cannot happen with a retransmission on the wire; not asserted, only counted
				c.Add("named_clock_step_did_not_fire", 1)
			}
			state = "valid-past-lookahead-at-rejection/inside-lookahead-at-retransmission"
			c.Add("named_clock_stepped_inside_retransmission", 1)
		}
		w := map[string]any{"named": idx, "clock_step_inside_retransmission_s": step.Seconds(), "round": round, "future_salts": set, "set_delivered_after_send": late, "sent_at": now, "rejected_at": at,
			"named_salt": named, "named_position": pos, "named_valid_until": namedVU, "named_state": state, "other_salts_valid_past_lookahead": later,
			"first": f1, "retransmission": f2}
		switch {
		case f2.TypeID != typReq || f2.MsgID != f1.MsgID:
			c.Inconclusive(fmt.Sprintf("c41 named %d: unexpected frame %s", idx, f2.kind()))
			return true
		case f2.Salt == named:
			c.Distinct(fmt.Sprintf("named/%s/%s/later%d/late-set-%t", map[bool]string{true: "stored", false: "unknown"}[namedVU != 0], state, min(later, 2), late))
			c.Add("named_retransmissions_with_named_salt", 1)
			if state == "inside-lookahead" && later > 0 {
				c.Add("named_inside_lookahead_with_later_salt_stored", 1)
			}
		default:
			cls := "other-salt"
			for _, s := range set {
				if s.Salt == f2.Salt {
					cls = "stored-future-salt"
				}
			}
			if f2.Salt == f1.Salt {
				cls = "rejected-salt"
			}
			c.Violate("retry|retransmission-without-new-salt|named-salt-"+state+"|carries-"+cls, w)
		}
		l.push(resultTL(f1.MsgID, respTL(n)), false)
		select {
		case <-done:
		case <-time.After(waitLimit):
			return fail(errWatchdog)
		}
	}
	c.Add("named_scenarios", 1)
	return c.Violations() < 8
}
