package main

import (
	"bytes"
	"encoding/binary"
	"fmt"

	"github.com/gotd/td/bin"
	"github.com/gotd/td/crypto"

	"verif/harness/mon"
	"verif/harness/refmodel"
)

func runC06(c *mon.Ctx) {
	c.Rule("differential: crypto.MessageKey/Keys (v2, both sides), MessageKeyV1/KeysV1/OldKeys (v1) vs refmodel written from the specification formulas on random " +
		"auth keys, msg keys and plaintexts (length 0..4096); EncryptBindMessage output decrypted by the refmodel with the v1 KDF under the permanent key and compared " +
		"field by field; distinct non-trivial = distinct (function, side, plaintext length mod 64) and bind (padding residue, sign pattern) classes")
	c.Assume("refmodel is the specification (formulas quoted in harness/refmodel/mtproto.go); shared base: crypto/sha1, crypto/sha256, crypto/aes")
	r := c.Rand("c06")
	// anchor vector for the refmodel itself: all-zero key / msg key must give the SHA256 based values computed here by hand-independent path
	n := c.N(40000, 3000000)
	for i := 0; i < n; i++ {
		k := randKey(r, []int{0, 0, 3}[i%3])
		var mk bin.Int128
		copy(mk[:], randBytes(r, 16))
		for _, side := range []crypto.Side{crypto.Client, crypto.Server} {
			x := 0
			if side == crypto.Server {
				x = 8
			}
			c.Eval(1)
			key, iv := crypto.Keys(k.Value, mk, side)
			rk, riv := refmodel.KDF2(k.Value[:], mk, x)
			if key != rk || iv != riv {
				c.Violate("kdf2-differs", map[string]any{"auth_key": hx(k.Value[:]), "msg_key": hx(mk[:]), "side": side})
			}
			pl := r.IntN(4097)
			if i%7 == 0 {
				pl = i / 7 % 200
			}
			pt := randBytes(r, pl)
			got := crypto.MessageKey(k.Value, pt, side)
			if got != refmodel.MsgKey2(k.Value[:], pt, x) {
				c.Violate("msgkey2-differs", map[string]any{"auth_key": hx(k.Value[:]), "plaintext": hx(pt), "side": side})
			}
			c.Distinct(fmt.Sprintf("v2/side%d/len%d", side, pl%64))
			ok, oiv := crypto.OldKeys(k.Value, mk, side)
			r1k, r1iv := refmodel.KDF1(k.Value[:], mk, x)
			if ok != r1k || oiv != r1iv {
				c.Violate("kdf1-oldkeys-differs", map[string]any{"auth_key": hx(k.Value[:]), "msg_key": hx(mk[:]), "side": side})
			}
		}
		c.Eval(1)
		k1, iv1 := crypto.KeysV1(k.Value, mk)
		rk, riv := refmodel.KDF1(k.Value[:], mk, 0)
		if k1 != rk || iv1 != riv {
			c.Violate("kdf1-differs", map[string]any{"auth_key": hx(k.Value[:]), "msg_key": hx(mk[:])})
		}
		pt := randBytes(r, r.IntN(300))
		if crypto.MessageKeyV1(pt) != refmodel.MsgKey1(pt) {
			c.Violate("msgkey1-differs", map[string]any{"plaintext": hx(pt)})
		}
		c.Distinct(fmt.Sprintf("v1/len%d", len(pt)%64))
		if i < 3 {
			c.Sample("kdf", map[string]any{"auth_key": hx(k.Value[:16]), "msg_key": hx(mk[:]), "aes_key_v1": hx(k1[:]), "aes_iv_v1": hx(iv1[:])})
		}
	}
	// bind messages
	type heldBind struct{ live, copy []byte }
	var held []heldBind
	nb := c.N(5000, 200000)
	for i := 0; i < nb; i++ {
		perm := randKey(r, 0)
		inner := &crypto.BindAuthKeyInner{
			Nonce: randInt64(r), TempAuthKeyID: randInt64(r), PermAuthKeyID: randInt64(r), TempSessionID: randInt64(r),
			ExpiresAt: int(int32(r.Uint32())),
		}
		msgID := randInt64(r)
		c.Eval(1)
		wire, err := crypto.EncryptBindMessage(&randReader{r: r}, perm, msgID, inner)
		if err != nil {
			c.Violate("bind-error", map[string]any{"err": err.Error()})
			continue
		}
		// a bind message is kept by its caller (it is re-encoded on every resend): results of earlier
		// calls must not change when the function is called again
		for k, h := range held {
			if !bytes.Equal(h.live, h.copy) {
				c.Violate("bind-result-changed-by-a-later-call", map[string]any{"calls_later": len(held) - k, "was": hx(h.copy), "now": hx(h.live)})
				held = nil
				break
			}
		}
		if len(held) >= 6 {
			held = held[1:]
		}
		held = append(held, heldBind{live: wire, copy: append([]byte(nil), wire...)})
		w := map[string]any{"perm_key": hx(perm.Value[:]), "inner": inner, "msg_id": msgID, "wire": hx(wire)}
		id := refmodel.KeyID(perm.Value[:])
		if len(wire) < 24+16 || (len(wire)-24)%16 != 0 || string(wire[:8]) != string(id[:]) {
			c.Violate("bind-envelope", w)
			continue
		}
		var mk [16]byte
		copy(mk[:], wire[8:24])
		key, iv := refmodel.KDF1(perm.Value[:], mk, 0)
		pt := refmodel.IGEDecrypt(key[:], iv[:], wire[24:])
		// random(16) | msg_id | seq_no(0) | len | bind_auth_key_inner
		if len(pt) < 32+40 {
			c.Violate("bind-short", w)
			continue
		}
		gotID := int64(binary.LittleEndian.Uint64(pt[16:]))
		seq := binary.LittleEndian.Uint32(pt[24:])
		ln := int(binary.LittleEndian.Uint32(pt[28:]))
		if gotID != msgID || seq != 0 || ln != 40 || len(pt)-32-ln < 0 || len(pt)-32-ln > 15 {
			c.Violate("bind-header", w)
			continue
		}
		body := pt[32 : 32+ln]
		if binary.LittleEndian.Uint32(body) != 0x75a3f765 ||
			int64(binary.LittleEndian.Uint64(body[4:])) != inner.Nonce ||
			int64(binary.LittleEndian.Uint64(body[12:])) != inner.TempAuthKeyID ||
			int64(binary.LittleEndian.Uint64(body[20:])) != inner.PermAuthKeyID ||
			int64(binary.LittleEndian.Uint64(body[28:])) != inner.TempSessionID ||
			int32(binary.LittleEndian.Uint32(body[36:])) != int32(inner.ExpiresAt) {
			c.Violate("bind-inner-differs", w)
			continue
		}
		// msg_key is SHA1 of the envelope before padding (MTProto 1.0)
		if refmodel.MsgKey1(pt[:32+ln]) != mk {
			c.Violate("bind-msgkey-not-over-unpadded-envelope", w)
			continue
		}
		c.Distinct(fmt.Sprintf("bind/pad%d/neg%v%v", len(pt)-32-ln, inner.Nonce < 0, inner.ExpiresAt < 0))
		if i < 2 {
			c.Sample("bind", map[string]any{"inner": inner, "msg_id": msgID, "wire_len": len(wire)})
		}
	}
}
