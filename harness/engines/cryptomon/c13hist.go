package main

import (
	"fmt"
	"math/big"

	"github.com/gotd/td/crypto"

	"verif/harness/mon"
	"verif/harness/refmodel"
)

// c13History: CheckDH / CheckGP / CheckDHParams / InRange / DecomposePQ in
// call sequences (see hist.go). Reference verdicts come from refmodel.
func c13History(c *mon.Ctx, ms []modulus) {
	r := c.Rand("c13hist")
	safe := ofKind(ms, "safe2048")
	if !c.Quick() {
		safe = safe[:min(len(safe), 6)]
	} else {
		safe = safe[:1]
	}
	checkDH := func(class, name string, g int, p *big.Int, want bool, sim bool) hcall {
		w := "reject"
		if want {
			w = "accept"
		}
		return hcall{Fn: "CheckDH", Class: class, Desc: fmt.Sprintf("g=%d p=%s", g, name), Want: w, Sim: sim,
			Run: func() string { return hverdict(crypto.CheckDH(g, new(big.Int).Set(p)), "") }}
	}
	var calls []hcall
	for _, m := range safe {
		validG := 0
		for g := 2; g <= 7; g++ {
			if g != 4 && refmodel.C2SpecAcceptG(g, m.P) {
				validG = g
				break
			}
		}
		if validG == 0 {
			validG = 4
		}
		// valid, then every invalid g on the SAME p, then valid again
		calls = append(calls, checkDH("valid", m.Name, validG, m.P, true, false))
		for g := -1; g <= 9; g++ {
			if !refmodel.C2SpecAcceptG(g, m.P) {
				calls = append(calls, checkDH("invalid-g", m.Name, g, m.P, false, false))
				calls = append(calls, hcall{Fn: "CheckGP", Class: "invalid-g", Desc: fmt.Sprintf("g=%d p=%s", g, m.Name), Want: "reject",
					Run: func() string { return hverdict(crypto.CheckGP(g, m.P), "") }})
			}
		}
		calls = append(calls, hcall{Fn: "CheckGP", Class: "valid", Desc: fmt.Sprintf("g=%d p=%s", validG, m.Name), Want: "accept",
			Run: func() string { return hverdict(crypto.CheckGP(validG, m.P), "") }})
		p2 := new(big.Int).Add(m.P, big.NewInt(2))
		calls = append(calls, checkDH("composite-modulus", m.Name+"+2", 4, p2, false, true))
		// DH parameter ranges on the same modulus: accept / reject / accept
		one := big.NewInt(1)
		margin := new(big.Int).Lsh(one, 1984)
		mid := new(big.Int).Rsh(m.P, 1)
		params := func(class, desc string, g, ga, gb *big.Int) hcall {
			w := "reject"
			if refmodel.C2SpecAcceptDHParams(m.P, g, ga, gb) {
				w = "accept"
			}
			return hcall{Fn: "CheckDHParams", Class: class, Desc: desc + " p=" + m.Name, Want: w,
				Run: func() string { return hverdict(crypto.CheckDHParams(m.P, g, ga, gb), "") }}
		}
		g3 := big.NewInt(3)
		calls = append(calls,
			params("valid", "g_a=p/2 g_b=p/2+1", g3, mid, new(big.Int).Add(mid, one)),
			params("boundary", "g_a=2^1984", g3, margin, mid),
			params("boundary", "g_b=p-2^1984", g3, mid, new(big.Int).Sub(m.P, margin)),
			params("bad-g", "g=1", one, mid, mid),
			params("valid", "g_a=2^1984+1 g_b=p-2^1984-1", g3, new(big.Int).Add(margin, one), new(big.Int).Sub(new(big.Int).Sub(m.P, margin), one)),
			hcall{Fn: "InRange", Class: "boundary", Desc: "x=min", Want: "reject", Run: func() string {
				if crypto.InRange(margin, margin, m.P) {
					return "accept"
				}
				return "reject"
			}},
			hcall{Fn: "InRange", Class: "valid", Desc: "min<x<max", Want: "accept", Run: func() string {
				if crypto.InRange(mid, one, m.P) {
					return "accept"
				}
				return "reject"
			}})
	}
	// moduli that must be rejected every time they are presented, interleaved with the valid ones above
	for _, kind := range []struct{ kind, class string }{{"prime-only", "prime-modulus-composite-half"}, {"q-only", "composite-modulus-prime-half"},
		{"safe2047", "safe-prime-wrong-size"}, {"safe2049", "safe-prime-wrong-size"}} {
		bad := ofKind(ms, kind.kind)
		if c.Quick() {
			bad = bad[:1]
		}
		for i, m := range bad {
			h := checkDH(kind.class, m.Name, 4, m.P, false, true)
			at := (i*7 + len(kind.kind)) % (len(calls) + 1)
			calls = append(calls[:at], append([]hcall{h}, calls[at:]...)...)
			calls = append(calls, h) // and once more at the end of the list
		}
	}
	// factorisation: same and different products in a row
	for i, pr := range [][2]uint64{{3, 5}, {65537, 65539}, {2, 1000003}, {1048573, 1048573}, {3, 5}} {
		pq := new(big.Int).Mul(new(big.Int).SetUint64(pr[0]), new(big.Int).SetUint64(pr[1]))
		calls = append(calls, hcall{Fn: "DecomposePQ", Class: "semiprime", Desc: pq.String(), Want: fmt.Sprintf("accept:%d,%d", pr[0], pr[1]),
			Run: func() string {
				p, q, err := crypto.DecomposePQ(new(big.Int).Set(pq), &pqReader{r: c.RandN("c13hist-pq", i)})
				if err != nil || p == nil || q == nil {
					return hverdict(fmt.Errorf("error or nil: %v", err), "")
				}
				return "accept:" + p.String() + "," + q.String()
			}})
	}
	runHistory(c, "C13", calls, r, c.N(2, 4))
}
