package main

import (
	"fmt"
	"math/big"

	"github.com/gotd/td/crypto"

	"verif/harness/mon"
	"verif/harness/refmodel"
)

// c13GPWide: CheckGP on moduli wider than one machine word. The residue
// arithmetic must be size-independent, which the sweep over word-sized safe
// primes cannot show.
//
//	(1) every committed modulus that is a prime = 3 mod 4 (safe primes of 2047/2048/2049 bits, primes with composite
//	    (p-1)/2) x g in -1..9: oracle Euler's criterion;
//	(2) random primes = 3 mod 4 of 65..320 bits (cheap to generate) x g: oracle Euler's criterion;
//	(3) random odd numbers of 65, 128, 129, 1024, 2047, 2048, 2049, 4096 .. bits x g: CheckGP looks at p only through
//	    p mod 8/3/5/24/7, so the specification's residue rule itself (big.Int.Mod) is the oracle for any positive p.
func c13GPWide(c *mon.Ctx, ms []modulus) {
	r := c.Rand("c13wide")
	one := func(arm, name string, p *big.Int, g int, want bool) {
		arg := new(big.Int).Set(p)
		var err error
		pv, stack := mon.Try(func() { err = crypto.CheckGP(g, arg) })
		c.Eval(1)
		words := (p.BitLen() + 63) / 64
		w := map[string]any{"arm": arm, "modulus": name, "bits": p.BitLen(), "p_hex": p.Text(16), "g": g, "spec_accepts": want, "err": fmt.Sprint(err)}
		switch {
		case pv != nil:
			w["panic"], w["stack"] = fmt.Sprint(pv), stack
			c.Violate("gp-wide|panic|"+arm, w)
		case err == nil && (g < 2 || g > 7):
			c.Violate("gp-wide|accepted-g-outside-2..7|"+arm, w)
		case err == nil && !want:
			c.Violate(fmt.Sprintf("gp-wide|accepted-failing-g|%s|g=%d", arm, g), w)
		case err != nil && want:
			c.Violate(fmt.Sprintf("gp-wide|rejected-valid-g|%s|g=%d", arm, g), w)
		}
		if arg.Cmp(p) != 0 {
			c.Violate("gp-wide|modulus-modified", w)
		}
		if g >= 2 && g <= 7 {
			c.Distinct(fmt.Sprintf("gp-wide/%s/g%d/words%d/%v", arm, g, min(words, 40), want))
		}
	}
	nCommitted := 0
	for _, m := range ms {
		if m.Kind == "q-only" { // composite
			continue
		}
		nCommitted++
		for g := -1; g <= 9; g++ {
			one("committed-prime", m.Name, m.P, g, refmodel.C2SpecAcceptG(g, m.P))
		}
	}
	c.Set("gp_wide_committed_primes", nCommitted)
	for i := 0; i < c.N(300, 20000); i++ {
		bitsN := []int{65, 66, 96, 127, 128, 129, 191, 192, 193, 256, 257, 320}[i%12]
		var p *big.Int
		for {
			p = new(big.Int).SetBytes(randBytes(r, (bitsN+7)/8))
			p.Rsh(p, uint(8*((bitsN+7)/8)-bitsN))
			p.SetBit(p, bitsN-1, 1).SetBit(p, 0, 1).SetBit(p, 1, 1)
			if p.ProbablyPrime(8) {
				break
			}
		}
		for g := -1; g <= 9; g++ {
			one("random-prime-3-mod-4", fmt.Sprintf("%d-bit", bitsN), p, g, refmodel.C2SpecAcceptG(g, p))
		}
	}
	sizes := []int{65, 127, 128, 129, 192, 193, 1024, 1025, 2047, 2048, 2049, 4096}
	for i := 0; i < c.N(6000, 600000); i++ {
		bitsN := sizes[i%len(sizes)]
		p := new(big.Int).SetBytes(randBytes(r, (bitsN+7)/8))
		p.Rsh(p, uint(8*((bitsN+7)/8)-bitsN))
		p.SetBit(p, bitsN-1, 1).SetBit(p, 0, 1)
		if i%5 == 0 { // low word all ones / all zeros but the last bit: carries between words
			for b := 1; b < 64; b++ {
				p.SetBit(p, b, uint(i/5)&1)
			}
		}
		for g := -1; g <= 9; g++ {
			one("random-odd", fmt.Sprintf("%d-bit", bitsN), p, g, refmodel.C2SpecResidueRule(g, p))
		}
		if i < 3 {
			c.Sample("gp-wide", map[string]any{"bits": bitsN, "p_mod_840": new(big.Int).Mod(p, big.NewInt(840)).Int64()})
		}
	}
}
