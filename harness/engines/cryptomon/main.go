// Engine cryptomon: monitors for the pure cryptographic properties
// (C04 C05 C06 C11 C13 C14 C15).
package main

import (
	"verif/harness/mon"
)

func main() {
	mon.Main("cryptomon", map[string]mon.PropFunc{
		"C04": runC04,
		"C05": runC05,
		"C06": runC06,
		"C11": runC11,
		"C13": runC13,
		"C14": runC14,
		"C15": runC15,
	})
}
