package main

import (
	"bytes"
	"crypto/sha1"
	"fmt"

	"github.com/gotd/td/crypto"

	"verif/harness/mon"
	"verif/harness/refmodel"
)

// refGuess: the data d such that the decrypted bytes are SHA1(d) | d | 0..15 padding bytes.
func refGuess(pt []byte) []byte {
	if len(pt) <= 20 {
		return nil
	}
	for pad := 0; pad < 16 && len(pt)-pad >= 20; pad++ {
		d := pt[20 : len(pt)-pad]
		if h := sha1.Sum(d); bytes.Equal(h[:], pt[:20]) {
			return d
		}
	}
	return nil
}

var c11Held [][2][]byte

func runC11(c *mon.Ctx) {
	c.Rule("DecryptExchangeAnswer on (a) random block-aligned ciphertexts 16..1024 bytes, (b) answers from EncryptExchangeAnswer, intact and with 1..8 flipped bits, " +
		"(c) non-aligned lengths; oracle: independent IGE decrypt + SHA1 prefix search decides whether embedded data exists; the call must return exactly that data or an error, " +
		"never (nil/empty, nil); distinct non-trivial = distinct (class, length/16, outcome)")
	c.Assume("refmodel IGE over crypto/aes is correct (cross-checked against the real encryptor in arm b)")
	r := c.Rand("c11")
	n := c.N(60000, 4000000)
	check := func(class string, ct, key, iv []byte) {
		c.Eval(1)
		var got []byte
		var err error
		pv, stack := mon.Try(func() { got, err = crypto.DecryptExchangeAnswer(ct, key, iv) })
		w := map[string]any{"class": class, "ct": hx(ct), "key": hx(key), "iv": hx(iv)}
		if pv != nil {
			w["panic"], w["stack"] = fmt.Sprint(pv), stack
			c.Violate("panic|"+class, w)
			return
		}
		if len(ct)%16 != 0 {
			if err == nil {
				c.Violate("unaligned-accepted", w)
			}
			c.Distinct(fmt.Sprintf("%s/%d/err", class, len(ct)%16))
			return
		}
		want := refGuess(refmodel.IGEDecrypt(key, iv, ct))
		switch {
		case err == nil && want == nil:
			w["returned_len"] = len(got)
			c.Violate("success-without-matching-hash", w)
		case err == nil && !bytes.Equal(got, want):
			c.Violate("wrong-data", w)
		case err != nil && want != nil:
			c.Violate("valid-answer-rejected", w)
		}
		for _, h := range c11Held {
			if !bytes.Equal(h[0], h[1]) {
				c.Violate("earlier-result-changed-by-a-later-call", map[string]any{"was": hx(h[1]), "now": hx(h[0])})
				c11Held = nil
				break
			}
		}
		if len(c11Held) >= 6 {
			c11Held = c11Held[1:]
		}
		if err == nil && len(got) > 0 {
			c11Held = append(c11Held, [2][]byte{got, append([]byte(nil), got...)})
		}
		c.Distinct(fmt.Sprintf("%s/%d/%v", class, len(ct)/16, want != nil))
		c.Sample(class, map[string]any{"ct_len": len(ct), "has_data": want != nil, "err": fmt.Sprint(err)})
	}
	for i := 0; i < n; i++ {
		key, iv := randBytes(r, 32), randBytes(r, 32)
		switch i % 4 {
		case 0:
			check("random", randBytes(r, 16*(1+r.IntN(64))), key, iv)
		case 1, 2:
			ans := randBytes(r, r.IntN(700))
			ct, err := crypto.EncryptExchangeAnswer(&randReader{r: r}, ans, key, iv)
			if err != nil {
				c.Inconclusive("EncryptExchangeAnswer: " + err.Error())
				return
			}
			if i%4 == 1 {
				check("valid", ct, key, iv)
			} else {
				for f := 1 + r.IntN(8); f > 0; f-- {
					ct[r.IntN(len(ct))] ^= 1 << r.IntN(8)
				}
				check("flipped", ct, key, iv)
			}
		case 3:
			if i%8 == 3 {
				check("unaligned", randBytes(r, 1+r.IntN(400)), key, iv)
			} else {
				check("short", randBytes(r, 16*r.IntN(3)), key, iv)
			}
		}
	}
}
