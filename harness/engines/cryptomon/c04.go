package main

import (
	"bytes"
	"fmt"

	"github.com/gotd/td/bin"
	"github.com/gotd/td/crypto"

	"verif/harness/mon"
	"verif/harness/refmodel"
)

type c04Case struct {
	Key        string `json:"auth_key_prefix"`
	Salt       int64  `json:"salt"`
	Session    int64  `json:"session"`
	MsgID      int64  `json:"msg_id"`
	SeqNo      int32  `json:"seq_no"`
	PayloadLen int    `json:"payload_len"`
	RandByte   int    `json:"forced_padding_byte"`
	FromServer bool   `json:"from_server"`
	ViaMessage bool   `json:"via_message_encoder"`
	StreamSeed string `json:"stream"`
}

type c04Hold struct {
	what       string
	live, copy []byte
}

var c04Held []c04Hold

type rawEnc []byte

func (r rawEnc) Encode(b *bin.Buffer) error { b.Put(r); return nil }

// oneC04 encrypts with the real cipher of one side, decrypts with the real
// cipher of the other side AND with the reference model, and compares.
func oneC04(c *mon.Ctx, k crypto.AuthKey, cs c04Case, payload []byte, stream *randReader) (padLen int) {
	enc, dec := crypto.NewClientCipher(stream), crypto.NewServerCipher(nil)
	if cs.FromServer {
		enc, dec = crypto.NewServerCipher(stream), crypto.NewClientCipher(nil)
	}
	data := crypto.EncryptedMessageData{
		Salt: cs.Salt, SessionID: cs.Session, MessageID: cs.MsgID, SeqNo: cs.SeqNo,
	}
	if cs.ViaMessage {
		data.Message = rawEnc(payload)
	} else {
		data.MessageDataLen = int32(len(payload))
		data.MessageDataWithPadding = payload
	}
	var b bin.Buffer
	c.Eval(1)
	if err := enc.Encrypt(k, data, &b); err != nil {
		c.Violate("encrypt-error", map[string]any{"case": cs, "err": err.Error()})
		return -1
	}
	wire := append([]byte(nil), b.Buf...)
	if (len(wire)-24)%16 != 0 {
		c.Violate("body-not-multiple-of-16", map[string]any{"case": cs, "body": len(wire) - 24})
	}
	// independent decrypt
	ref, err := refmodel.Decrypt(k.Value[:], wire, cs.FromServer)
	if err != nil {
		c.Violate("refmodel-cannot-decrypt", map[string]any{"case": cs, "err": err.Error()})
		return -1
	}
	if !ref.MsgKeyOK {
		c.Violate("refmodel-msg-key-mismatch", map[string]any{"case": cs})
	}
	if ref.Salt != cs.Salt || ref.Session != cs.Session || ref.MsgID != cs.MsgID || ref.SeqNo != cs.SeqNo ||
		int(ref.Len) != len(payload) || ref.PaddingLen < 0 || !bytes.Equal(ref.Padded[:len(payload)], payload) {
		c.Violate("refmodel-fields-differ", map[string]any{"case": cs, "ref": ref.Header})
		return -1
	}
	if ref.PaddingLen < 12 || ref.PaddingLen > 1024 {
		c.Violate("padding-out-of-12..1024", map[string]any{"case": cs, "padding": ref.PaddingLen})
	}
	// peer decrypt with the real code
	got, err := dec.DecryptFromBuffer(k, &bin.Buffer{Buf: append([]byte(nil), wire...)})
	if err != nil {
		c.Violate("peer-decrypt-error", map[string]any{"case": cs, "err": err.Error()})
		return ref.PaddingLen
	}
	if got.Salt != cs.Salt || got.SessionID != cs.Session || got.MessageID != cs.MsgID || got.SeqNo != cs.SeqNo ||
		int(got.MessageDataLen) != len(payload) || !bytes.Equal(got.Data(), payload) {
		c.Violate("peer-fields-differ", map[string]any{"case": cs, "got_len": got.MessageDataLen})
	}
	// history: what earlier calls returned (decrypted payloads, ciphertexts) must not change when the
	// cipher is used again (no shared scratch memory behind returned slices)
	for _, h := range c04Held {
		if !bytes.Equal(h.live, h.copy) {
			c.Violate("earlier-result-changed-by-a-later-call|"+h.what, map[string]any{"case": cs, "was": hx(h.copy), "now": hx(h.live)})
			c04Held = nil
			break
		}
	}
	if len(c04Held) >= 8 {
		c04Held = c04Held[2:]
	}
	if len(payload) > 0 && len(payload) <= 4096 {
		c04Held = append(c04Held, c04Hold{"decrypted-payload", got.Data(), append([]byte(nil), got.Data()...)},
			c04Hold{"ciphertext", b.Buf, append([]byte(nil), b.Buf...)})
	}
	return ref.PaddingLen
}

func runC04(c *mon.Ctx) {
	c.Rule("real Cipher.Encrypt (client and server side) -> independent refmodel decrypt (msg_key recomputed, padding measured) and real peer DecryptFromBuffer; " +
		"payload lengths: every multiple of 4 in 0..4096, the 16x16 grid (len mod 16 x forced padding nibble), random lengths up to 1 MiB (thorough: 16 MiB); " +
		"distinct non-trivial = distinct (payload_len mod 16, observed padding length, direction) triples plus length buckets")
	c.Assume("refmodel (harness/refmodel/mtproto.go) is the MTProto 2.0 specification; shared base: crypto/aes, crypto/sha256")
	r := c.Rand("c04")
	key := func(i int) crypto.AuthKey { return randKey(r, []int{0, 0, 0, 1, 7}[i%5]) }
	run := func(n int, forced int, fromServer, via bool, i int) {
		k := key(i)
		cs := c04Case{
			Key: hx(k.Value[:8]), Salt: randInt64(r), Session: randInt64(r), MsgID: randInt64(r), SeqNo: int32(r.Uint32()),
			PayloadLen: n, RandByte: forced, FromServer: fromServer, ViaMessage: via,
		}
		stream := &randReader{r: r}
		if forced >= 0 {
			stream.force = []byte{byte(forced)}
		}
		payload := randBytes(r, n)
		pad := oneC04(c, k, cs, payload, stream)
		if pad >= 0 {
			c.Distinct(fmt.Sprintf("mod%d/pad%d/srv%v", n%16, pad, fromServer))
			bucket := 0
			for x := n; x > 0; x >>= 1 {
				bucket++
			}
			c.Distinct(fmt.Sprintf("lenbucket%d/via%v", bucket, via))
			cs.StreamSeed = fmt.Sprintf("observed padding %d", pad)
			c.Sample(fmt.Sprintf("srv=%v", fromServer), cs)
		}
	}
	i := 0
	// exhaustive: every multiple of 4 in 0..4096, both directions
	for n := 0; n <= 4096; n += 4 {
		for _, srv := range []bool{false, true} {
			run(n, -1, srv, i%2 == 0, i)
			i++
		}
	}
	// exhaustive grid: payload residue mod 16 (multiples of 4: 0,4,8,12) x all 256 forced bytes
	for _, n := range []int{0, 4, 8, 12, 16, 1020, 1024, 1028} {
		for fb := 0; fb < 256; fb++ {
			run(n, fb, fb%2 == 0, false, i)
			i++
		}
	}
	// random lengths
	maxLen := 1 << 20
	big := 6
	if !c.Quick() {
		maxLen = 16<<20 - 2048
		big = 200
	}
	for j := 0; j < c.N(20000, 1500000); j++ {
		n := r.IntN(8192) &^ 3
		run(n, -1, r.IntN(2) == 0, r.IntN(2) == 0, i)
		i++
	}
	for j := 0; j < big; j++ {
		n := r.IntN(maxLen) &^ 3
		if j == 0 {
			n = maxLen &^ 3
		}
		run(n, -1, j%2 == 0, j%3 == 0, i)
		i++
	}
	c.Exhaustive(false)
}
