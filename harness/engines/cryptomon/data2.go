package main

import (
	"bufio"
	"fmt"
	"math/big"
	"os"
	"path/filepath"
	"runtime"
	"strings"
	"sync"

	"verif/harness/mon"
	"verif/harness/refmodel"
)

// Committed input data for C13/C14/C15 (data/cryptomon). Every claim made by a
// data file is re-verified at run time; a claim that does not verify makes the
// run inconclusive (harness error), never a verdict.

func dataDir() string {
	d := os.Getenv("VERIF_DIR")
	if d == "" {
		d = "/verif"
	}
	return filepath.Join(d, "data", "cryptomon")
}

// Miller-Rabin rounds (plus Baillie-PSW) for re-verifying the committed constants.
const dataPrimeRounds = 20

type modulus struct {
	Name string
	Kind string // safe2048 | safe2047 | safe2049 | prime-only | q-only
	P    *big.Int
}

func halfOf(p *big.Int) *big.Int {
	q := new(big.Int).Sub(p, big.NewInt(1))
	return q.Rsh(q, 1)
}

// loadModuli reads and re-verifies data/cryptomon/moduli.txt. ok=false after c.Inconclusive.
func loadModuli(c *mon.Ctx) (ms []modulus, ok bool) {
	f, err := os.Open(filepath.Join(dataDir(), "moduli.txt"))
	if err != nil {
		c.Inconclusive("data: " + err.Error())
		return nil, false
	}
	defer f.Close()
	sc := bufio.NewScanner(f)
	sc.Buffer(make([]byte, 1<<20), 1<<20)
	for sc.Scan() {
		line := strings.TrimSpace(sc.Text())
		if line == "" || strings.HasPrefix(line, "#") {
			continue
		}
		fs := strings.Fields(line)
		if len(fs) != 3 {
			c.Inconclusive("data: malformed moduli.txt line: " + line[:min(len(line), 40)])
			return nil, false
		}
		p, good := new(big.Int).SetString(fs[2], 16)
		if !good {
			c.Inconclusive("data: bad hex for " + fs[0])
			return nil, false
		}
		ms = append(ms, modulus{Name: fs[0], Kind: fs[1], P: p})
	}
	bad := make([]string, len(ms))
	parallel(len(ms), func(i int) {
		m := ms[i]
		pPrime, qPrime := m.P.ProbablyPrime(dataPrimeRounds), halfOf(m.P).ProbablyPrime(dataPrimeRounds)
		var want [3]any // bitlen, p prime, (p-1)/2 prime
		switch m.Kind {
		case "safe2048":
			want = [3]any{2048, true, true}
		case "safe2047":
			want = [3]any{2047, true, true}
		case "safe2049":
			want = [3]any{2049, true, true}
		case "prime-only":
			want = [3]any{2048, true, false}
		case "q-only":
			want = [3]any{2048, false, true}
		default:
			bad[i] = "unknown kind " + m.Kind
			return
		}
		if got := [3]any{m.P.BitLen(), pPrime, qPrime}; got != want {
			bad[i] = fmt.Sprintf("%s claims %s but bitlen/p prime/(p-1)/2 prime = %v", m.Name, m.Kind, got)
		}
	})
	for _, b := range bad {
		if b != "" {
			c.Inconclusive("data: wrong constant in moduli.txt: " + b)
			ok = true
		}
	}
	if ok {
		return nil, false
	}
	return ms, true
}

func ofKind(ms []modulus, kind string) []modulus {
	var out []modulus
	for _, m := range ms {
		if m.Kind == kind {
			out = append(out, m)
		}
	}
	return out
}

type rsaTestKey struct {
	Name string
	refmodel.C2RSAPriv
}

func loadRSAKeys(c *mon.Ctx) (keys []*rsaTestKey, ok bool) {
	f, err := os.Open(filepath.Join(dataDir(), "rsa_keys.txt"))
	if err != nil {
		c.Inconclusive("data: " + err.Error())
		return nil, false
	}
	defer f.Close()
	sc := bufio.NewScanner(f)
	sc.Buffer(make([]byte, 1<<20), 1<<20)
	var cur *rsaTestKey
	for sc.Scan() {
		fs := strings.Fields(sc.Text())
		if len(fs) != 2 || strings.HasPrefix(fs[0], "#") {
			continue
		}
		if fs[0] == "key" {
			cur = &rsaTestKey{Name: fs[1]}
			keys = append(keys, cur)
			continue
		}
		if cur == nil {
			c.Inconclusive("data: rsa_keys.txt field before key")
			return nil, false
		}
		base := 16
		if fs[0] == "e" {
			base = 10
		}
		v, good := new(big.Int).SetString(fs[1], base)
		if !good {
			c.Inconclusive("data: bad number in rsa_keys.txt for " + cur.Name)
			return nil, false
		}
		switch fs[0] {
		case "n":
			cur.N = v
		case "e":
			cur.E = v.Int64()
		case "d":
			cur.D = v
		case "p":
			cur.P = v
		case "q":
			cur.Q = v
		}
	}
	if len(keys) < 2 {
		c.Inconclusive("data: fewer than 2 RSA test keys")
		return nil, false
	}
	for _, k := range keys {
		if k.N == nil || k.D == nil || k.P == nil || k.Q == nil || k.E == 0 {
			c.Inconclusive("data: incomplete RSA test key " + k.Name)
			return nil, false
		}
		if err := k.Valid(); err != nil {
			c.Inconclusive("data: inconsistent RSA test key " + k.Name + ": " + err.Error())
			return nil, false
		}
	}
	return keys, true
}

// parallel runs f(0..n-1) on all CPUs. f must only touch index-local state and
// the (thread-safe) mon.Ctx; randomness comes from c.RandN(stream, i) inside f.
func parallel(n int, f func(i int)) {
	workers := runtime.NumCPU()
	if workers > n {
		workers = n
	}
	var wg sync.WaitGroup
	var mu sync.Mutex
	next := 0
	for w := 0; w < workers; w++ {
		wg.Add(1)
		go func() {
			defer wg.Done()
			for {
				mu.Lock()
				i := next
				next++
				mu.Unlock()
				if i >= n {
					return
				}
				f(i)
			}
		}()
	}
	wg.Wait()
}
