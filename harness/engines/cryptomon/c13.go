package main

import (
	"errors"
	"fmt"
	"math"
	"math/big"
	"math/rand/v2"
	"sync/atomic"
	"time"

	"github.com/gotd/td/crypto"

	"verif/harness/mon"
	"verif/harness/refmodel"
)

// runC13: CheckGP / CheckDH / InRange / CheckDHParams / DecomposePQ against the
// specification's acceptance conditions (refmodel/crypto2_dh.go).
func runC13(c *mon.Ctx) {
	c.Rule("(a) CheckGP on EVERY safe prime 7 < p < L (L = 2e6 quick / 5e7 thorough) and every prime p = 3 mod 4 below L/8, each with g in -1..9 and a few far-out g; oracle: g in 2..7 and Euler's criterion g^((p-1)/2) = 1 mod p. " +
		"(a') CheckGP on multi-word moduli: every committed prime (2047..2049 bits) and random primes = 3 mod 4 of 65..320 bits x g in -1..9 vs Euler's criterion; random odd numbers of 65..4096 bits x g vs the specification's residue rule computed with big.Int.Mod (CheckGP sees p only through p mod 8/3/5/24/7). " +
		"(b) CheckDH on the committed 2048-bit safe primes (Telegram production, RFC 3526 group 14, RFC 7919 ffdhe2048, 8 generated; re-verified at start) with g in -1..9, and on mutated moduli: p+-2, bit flips, 2p+1, (p-1)/2, 3p, -p, 2047/2049-bit safe primes, primes with composite (p-1)/2, composites with prime (p-1)/2, 2^2047, 2^2048-1 ...; oracle: 2^2047 < p < 2^2048, p and (p-1)/2 prime, g as in (a). " +
		"(c) CheckDHParams on the complete cross product of 19 boundary values for g_a and g_b (0, 1, 2, p-2, p-1, p, 2^1984-1.., p-2^1984+1.., random inside) x 10 values of g for random 2048-bit moduli and degenerate moduli; InRange on random triples with x at and next to the bounds; oracle: the spec inequalities, strict. " +
		"(d) DecomposePQ on all pairs of the first 300 primes (complete, includes squares and 2q), random balanced 32x32-bit semiprimes just below 2^63, squares, unbalanced, 2q and near-limit products; oracle: exactly (min, max) of the two primes the product was built from. " +
		"(e) history: the same functions called in sequences inside one process (valid-then-every-invalid-g on the same p, every rejected modulus presented 3 times, interleaved with valid ones, from 2-4 goroutines with shuffled orders and at the same instant); oracle: the reference verdict regardless of position. " +
		"distinct non-trivial = distinct (arm, g / boundary label / factor bit lengths, residue class or modulus class, expected outcome)")
	c.Assume("math/big (Exp, ProbablyPrime, GCD) is correct; refmodel/crypto2_dh.go transcribes the inequalities of core.telegram.org/mtproto/auth_key")
	c.Assume("DecomposePQ draws fresh randomness per attempt from the supplied source (seeded PCG here); a call that makes more than 512 attempts is reported as not returning (per-attempt failure probability is at most 0.75, measured exhaustively for pq=4, the worst case)")
	c.Exhaustive(false)
	ms, ok := loadModuli(c)
	if !ok {
		return
	}
	for _, arm := range []struct {
		name string
		f    func()
	}{{"gp", func() { c13GP(c) }}, {"gp-wide", func() { c13GPWide(c, ms) }}, {"dh", func() { c13DH(c, ms) }}, {"range", func() { c13Range(c, ms) }}, {"history", func() { c13History(c, ms) }}, {"pq", func() { c13PQ(c) }}} {
		t0 := time.Now()
		arm.f()
		c.Set("wall_s_arm_"+arm.name, math.Round(time.Since(t0).Seconds()*10)/10) // informational only
	}
}

// ---------------------------------------------------------------- (a) CheckGP

var c13FarG = []int{10, 11, 16, 25, 49, 64, -2, -3, -7, 1 << 20, math.MaxInt32, math.MinInt32, math.MaxInt64, math.MinInt64}

func c13ResidueModulus(g int) uint64 {
	switch g {
	case 2:
		return 8
	case 3:
		return 3
	case 5:
		return 5
	case 6:
		return 24
	case 7:
		return 7
	}
	return 1
}

func c13GP(c *mon.Ctx) {
	limit := c.N(2_000_000, 50_000_000)
	blumLimit := limit / 8
	composite := refmodel.C2Sieve(limit)
	var gs []int
	for g := -1; g <= 9; g++ {
		gs = append(gs, g)
	}
	gs = append(gs, c13FarG...)
	var nSafe, nBlum int64
	for p := 11; p < limit; p += 4 { // p = 3 mod 4
		if composite[p] {
			continue
		}
		safe := !composite[(p-1)/2]
		if !safe && p >= blumLimit {
			continue
		}
		kind := "safe"
		if safe {
			nSafe++
		} else {
			kind = "blum"
			nBlum++
		}
		bp := big.NewInt(int64(p))
		for _, g := range gs {
			inRange := g >= 2 && g <= 7
			want := inRange && refmodel.C2EulerQR64(uint64(g), uint64(p))
			var err error
			pv, stack := mon.Try(func() { err = crypto.CheckGP(g, bp) })
			c.Eval(1)
			w := map[string]any{"p": p, "g": g, "kind": kind, "spec_accepts": want, "err": fmt.Sprint(err)}
			gl := fmt.Sprint(g)
			if g < -9 || g > 99 {
				gl = "far"
			}
			switch {
			case pv != nil:
				w["panic"], w["stack"] = fmt.Sprint(pv), stack
				c.Violate("gp|panic|g="+gl, w)
			case err == nil && !inRange:
				c.Violate("gp|accepted-g-outside-2..7|g="+gl, w)
			case err == nil && !want:
				c.Violate(fmt.Sprintf("gp|accepted-non-residue|%s|g=%d", kind, g), w)
			case err != nil && want:
				c.Violate(fmt.Sprintf("gp|rejected-residue|%s|g=%d", kind, g), w)
			}
			if bp.Int64() != int64(p) {
				c.Violate("gp|modulus-modified", w)
				bp.SetInt64(int64(p))
			}
			if inRange {
				c.Distinct(fmt.Sprintf("gp/%s/g%d/p%%%d=%d/%v", kind, g, c13ResidueModulus(g), uint64(p)%c13ResidueModulus(g), want))
				if p > 1000 {
					c.Sample("gp", map[string]any{"kind": kind, "p": p, "g": g, "accepted": err == nil, "euler": want})
				}
			} else {
				c.Distinct("gp/" + kind + "/g-out/" + gl)
			}
		}
	}
	c.Set("gp_safe_primes_enumerated", nSafe)
	c.Set("gp_safe_prime_limit", limit)
	c.Set("gp_blum_primes_enumerated", nBlum)
	if nSafe < 1000 {
		c.Inconclusive(fmt.Sprintf("only %d safe primes enumerated", nSafe))
	}
}

// ---------------------------------------------------------------- (b) CheckDH

type c13DHCase struct {
	Name  string
	Class string
	P     *big.Int
}

func c13DH(c *mon.Ctx, ms []modulus) {
	r := c.Rand("c13dh")
	one := big.NewInt(1)
	pow := func(n uint) *big.Int { return new(big.Int).Lsh(one, n) }
	var mods []c13DHCase
	add := func(name, class string, p *big.Int) { mods = append(mods, c13DHCase{name, class, p}) }
	nSafe := 0
	for _, m := range ms {
		if m.Kind == "safe2048" {
			// each accepting CheckDH call costs 128 Miller-Rabin rounds at 2048 bits: the quick tier takes the
			// three published primes and one generated one, the thorough tier all of them
			if nSafe++; nSafe > c.N(4, 1000) {
				continue
			}
		}
		add(m.Name, m.Kind, m.P)
		if m.Kind != "safe2048" {
			continue
		}
		p := m.P
		add(m.Name+"+2", "p+2", new(big.Int).Add(p, big.NewInt(2)))
		add(m.Name+"-2", "p-2", new(big.Int).Sub(p, big.NewInt(2)))
		add(m.Name+"+1", "p+1", new(big.Int).Add(p, one))
		add(m.Name+"*2+1", "2p+1", new(big.Int).Add(new(big.Int).Lsh(p, 1), one))
		add(m.Name+"/2", "(p-1)/2", halfOf(p))
		add(m.Name+"*3", "3p", new(big.Int).Mul(p, big.NewInt(3)))
		add(m.Name+"neg", "-p", new(big.Int).Neg(p))
		add(m.Name+"+2^2048", "p+2^2048", new(big.Int).Add(p, pow(2048)))
		bitsToFlip := []int{0, 1, 2, 3, 7, 63, 64, 1024, 2046, 2047}
		for i := 0; i < 4; i++ {
			bitsToFlip = append(bitsToFlip, r.IntN(2048))
		}
		for _, b := range bitsToFlip {
			f := new(big.Int).Set(p)
			f.SetBit(f, b, f.Bit(b)^1)
			cls := "flip-bit"
			if b == 2047 {
				cls = "flip-top-bit"
			} else if b == 0 {
				cls = "flip-bit0"
			}
			add(fmt.Sprintf("%s^bit%d", m.Name, b), cls, f)
		}
	}
	add("0", "special", big.NewInt(0))
	add("1", "special", big.NewInt(1))
	add("23", "small-safe-prime", big.NewInt(23))
	add("2879", "small-safe-prime", big.NewInt(2879))
	add("2^2047", "special", pow(2047))
	add("2^2047+1", "special", new(big.Int).Add(pow(2047), one))
	add("2^2047-1", "special", new(big.Int).Sub(pow(2047), one))
	add("2^2048-1", "special", new(big.Int).Sub(pow(2048), one))
	add("2^2048", "special", pow(2048))
	add("2^2048+1", "special", new(big.Int).Add(pow(2048), one))
	for i := 0; i < c.N(8, 200); i++ {
		x := new(big.Int).SetBytes(randBytes(r, 256))
		x.SetBit(x, 2047, 1)
		x.SetBit(x, 0, 1)
		x.SetBit(x, 1, 1)
		add(fmt.Sprintf("rnd%d", i), "random-odd-2048", x)
	}

	// reference decision on the modulus alone (cached per modulus)
	good := make([]bool, len(mods))
	parallel(len(mods), func(i int) { good[i] = refmodel.C2Is2048(mods[i].P) && refmodel.C2IsSafePrime(mods[i].P, 32) })
	type job struct{ m, g int }
	var jobs []job
	for i := range mods {
		for g := -1; g <= 9; g++ {
			if mods[i].Class != "safe2048" && (g < 2 || g > 7) {
				continue
			}
			jobs = append(jobs, job{i, g})
		}
	}
	var accepted atomic.Int64
	parallel(len(jobs), func(j int) {
		m, g := mods[jobs[j].m], jobs[j].g
		want := good[jobs[j].m] && refmodel.C2SpecAcceptG(g, m.P)
		p := new(big.Int).Set(m.P)
		var err error
		pv, stack := mon.Try(func() { err = crypto.CheckDH(g, p) })
		c.Eval(1)
		w := map[string]any{"modulus": m.Name, "class": m.Class, "g": g, "p_hex": p.Text(16), "spec_accepts": want, "err": fmt.Sprint(err)}
		switch {
		case pv != nil:
			w["panic"], w["stack"] = fmt.Sprint(pv), stack
			c.Violate("dh|panic|"+m.Class, w)
		case err == nil && !want:
			what := "bad-modulus"
			if good[jobs[j].m] {
				what = fmt.Sprintf("bad-g=%d", g)
			}
			c.Violate("dh|accepted|"+m.Class+"|"+what, w)
		case err != nil && want:
			c.Violate(fmt.Sprintf("dh|rejected-valid|%s|g=%d", m.Class, g), w)
		}
		if p.Cmp(m.P) != 0 {
			c.Violate("dh|modulus-modified", w)
		}
		if err == nil {
			accepted.Add(1)
		}
		c.Distinct(fmt.Sprintf("dh/%s/g%d/%v", m.Class, g, want))
		if m.Class != "safe2048" || want {
			c.Sample("dh", map[string]any{"class": m.Class, "modulus": m.Name, "g": g, "accepted": err == nil})
		}
	})
	c.Set("dh_moduli", len(mods))
	c.Set("dh_accepted", accepted.Load())
	if accepted.Load() == 0 {
		c.Inconclusive("CheckDH accepted nothing: the accepting side of the equivalence was not observed")
	}
}

// ---------------------------------------------------------------- (c) ranges

type c13Val struct {
	L string
	V *big.Int
}

func c13Range(c *mon.Ctx, ms []modulus) {
	r := c.Rand("c13range")
	one := big.NewInt(1)
	margin := new(big.Int).Lsh(one, 1984)
	type mod struct {
		class string
		p     *big.Int
	}
	var mods []mod
	for i, m := range ofKind(ms, "safe2048") {
		if i < 3 {
			mods = append(mods, mod{"safe2048", m.P})
		}
	}
	for i := 0; i < c.N(8, 200); i++ {
		x := new(big.Int).SetBytes(randBytes(r, 256))
		x.SetBit(x, 2047, 1)
		if i%4 == 3 { // moduli barely wider than the two margins
			x.Rsh(x, uint(50+r.IntN(12)))
		}
		mods = append(mods, mod{"random", x})
	}
	for _, d := range []int64{-1, 0, 1, 2, 3, 5} { // p - 2^1984 at and around 2^1984: the safety window is empty or a single value
		mods = append(mods, mod{"window-edge", new(big.Int).Add(new(big.Int).Lsh(one, 1985), big.NewInt(d))})
	}
	mods = append(mods, mod{"tiny", big.NewInt(5)}, mod{"tiny", big.NewInt(23)}, mod{"narrow", new(big.Int).Add(margin, big.NewInt(7))})

	rel := func(p *big.Int, base *big.Int, d int64) *big.Int { return new(big.Int).Add(base, big.NewInt(d)) }
	for mi, m := range mods {
		p := m.p
		pm := new(big.Int).Sub(p, margin)
		zero := big.NewInt(0)
		rnd := func() *big.Int {
			x := new(big.Int).SetBytes(randBytes(r, 260))
			return x.Mod(x, p)
		}
		inside := func() *big.Int { // random value strictly inside the safety window when there is one
			w := new(big.Int).Sub(pm, margin)
			w.Sub(w, one)
			if w.Sign() <= 0 {
				return rnd()
			}
			x := new(big.Int).SetBytes(randBytes(r, 260))
			x.Mod(x, w)
			return x.Add(x, margin).Add(x, one)
		}
		vals := []c13Val{
			{"0", zero}, {"1", one}, {"2", big.NewInt(2)}, {"3", big.NewInt(3)},
			{"p-3", rel(p, p, -3)}, {"p-2", rel(p, p, -2)}, {"p-1", rel(p, p, -1)}, {"p", p}, {"p+1", rel(p, p, 1)},
			{"2^1984-1", rel(p, margin, -1)}, {"2^1984", margin}, {"2^1984+1", rel(p, margin, 1)},
			{"p-2^1984-1", rel(p, pm, -1)}, {"p-2^1984", pm}, {"p-2^1984+1", rel(p, pm, 1)},
			{"p/2", new(big.Int).Rsh(p, 1)}, {"inside", inside()}, {"random", rnd()}, {"-1", big.NewInt(-1)},
		}
		gvals := []c13Val{
			{"-1", big.NewInt(-1)}, {"0", zero}, {"1", one}, {"2", big.NewInt(2)}, {"3", big.NewInt(3)}, {"7", big.NewInt(7)},
			{"p-2", rel(p, p, -2)}, {"p-1", rel(p, p, -1)}, {"p", p}, {"2^1984", margin},
		}
		// immutability: the arguments are shared by all calls of this modulus; snapshot them now, compare after the loops
		var snapshot []string
		for _, v := range append(append([]c13Val{{"p", p}}, vals...), gvals...) {
			snapshot = append(snapshot, v.V.Text(16))
		}
		gOK := func(x *big.Int) bool { return refmodel.C2SpecInRange(x, one, rel(p, p, -1)) }
		abOK := func(x *big.Int) bool { return gOK(x) && refmodel.C2SpecInRange(x, margin, pm) }
		for _, ga := range vals {
			for _, gb := range vals {
				for _, g := range gvals {
					want := refmodel.C2SpecAcceptDHParams(p, g.V, ga.V, gb.V)
					var err error
					pv, stack := mon.Try(func() { err = crypto.CheckDHParams(p, g.V, ga.V, gb.V) })
					c.Eval(1)
					if pv != nil || (err == nil) != want {
						w := map[string]any{"modulus_class": m.class, "modulus_index": mi, "p_hex": p.Text(16), "g": g.L, "g_a": ga.L, "g_b": gb.L,
							"g_a_hex": ga.V.Text(16), "g_b_hex": gb.V.Text(16), "spec_accepts": want, "err": fmt.Sprint(err)}
						switch {
						case pv != nil:
							w["panic"], w["stack"] = fmt.Sprint(pv), stack
							c.Violate("dhparams|panic", w)
						case err == nil:
							culprit := "g=" + g.L
							if gOK(g.V) {
								culprit = "g_a=" + ga.L
								if abOK(ga.V) {
									culprit = "g_b=" + gb.L
								}
							}
							c.Violate("dhparams|accepted|"+m.class+"|bad-"+culprit, w)
						default:
							c.Violate(fmt.Sprintf("dhparams|rejected-valid|%s|g=%s|g_a=%s|g_b=%s", m.class, g.L, ga.L, gb.L), w)
						}
					}
					c.Distinct(fmt.Sprintf("dhparams/%s/ga=%s/gb=%s/%v", m.class, ga.L, gb.L, want))
					if want {
						c.Add("dhparams_accepted", 1)
						c.Sample("dhparams", map[string]any{"modulus_class": m.class, "g": g.L, "g_a": ga.L, "g_b": gb.L})
					}
				}
			}
		}
		for i, v := range append(append([]c13Val{{"p", p}}, vals...), gvals...) {
			if v.V.Text(16) != snapshot[i] {
				c.Violate("immutability|CheckDHParams|argument-modified", map[string]any{"argument": v.L, "before": snapshot[i], "after": v.V.Text(16), "modulus_class": m.class})
			}
		}
	}
	// InRange directly
	n := c.N(20000, 1000000)
	for i := 0; i < n; i++ {
		bitsN := 1 + r.IntN(2100)
		if i%3 == 0 {
			bitsN = 1 + r.IntN(70)
		}
		lo := new(big.Int).SetBytes(randBytes(r, (bitsN+7)/8))
		span := new(big.Int).SetBytes(randBytes(r, 1+r.IntN((bitsN+7)/8)))
		if i%16 == 0 {
			span.SetInt64(int64(r.IntN(4)))
		}
		hi := new(big.Int).Add(lo, span)
		if i%7 == 0 {
			lo.Neg(lo)
		}
		if i%11 == 0 {
			lo, hi = hi, lo // empty range
		}
		mid := new(big.Int).Add(lo, hi)
		mid.Rsh(mid, 1)
		xs := []c13Val{
			{"lo-1", new(big.Int).Sub(lo, one)}, {"lo", lo}, {"lo+1", new(big.Int).Add(lo, one)},
			{"hi-1", new(big.Int).Sub(hi, one)}, {"hi", hi}, {"hi+1", new(big.Int).Add(hi, one)}, {"mid", mid},
		}
		for _, x := range xs {
			want := refmodel.C2SpecInRange(x.V, lo, hi)
			got := crypto.InRange(x.V, lo, hi)
			c.Eval(1)
			if got != want {
				w := map[string]any{"x": x.L, "x_hex": x.V.Text(16), "lo_hex": lo.Text(16), "hi_hex": hi.Text(16), "spec": want, "got": got}
				if got {
					c.Violate("inrange|accepted|x="+x.L, w)
				} else {
					c.Violate("inrange|rejected|x="+x.L, w)
				}
			}
			c.Distinct(fmt.Sprintf("inrange/%s/%v/span%d", x.L, want, min(span.BitLen(), 3)))
		}
	}
}

// ---------------------------------------------------------------- (d) DecomposePQ

var errPQBudget = errors.New("harness: random source budget exhausted (more than 512 attempts)")

// pqReader feeds DecomposePQ from a seeded stream and counts reads (two reads
// per attempt of the outer loop). After the budget it fails, which makes
// DecomposePQ return the error: a logical, not a wall-clock, watchdog.
type pqReader struct {
	r     *rand.Rand
	reads atomic.Int64
}

const pqReadBudget = 2 * 512

func (p *pqReader) Read(b []byte) (int, error) {
	if p.reads.Add(1) > pqReadBudget {
		return 0, errPQBudget
	}
	for i := range b {
		b[i] = byte(p.r.Uint32())
	}
	return len(b), nil
}

type pqCase struct {
	Class string `json:"class"`
	P     uint64 `json:"p"`
	Q     uint64 `json:"q"`
}

const pqSqrtLimit = 3037000499 // floor(sqrt(2^63))

func randPrimeIn(r *rand.Rand, lo, hi uint64) uint64 { // prime in [lo, hi], hi-lo large enough
	for {
		x := lo + r.Uint64N(hi-lo+1)
		x |= 1
		for x <= hi {
			if refmodel.C2IsPrime64(x) {
				return x
			}
			x += 2
		}
	}
}

func randPrimeBits(r *rand.Rand, bitsN int) uint64 {
	switch bitsN {
	case 1, 2:
		return []uint64{2, 3}[r.IntN(2)]
	case 3:
		return []uint64{5, 7}[r.IntN(2)]
	}
	return randPrimeIn(r, 1<<(bitsN-1), 1<<bitsN-1)
}

func c13PQ(c *mon.Ctx) {
	r := c.Rand("c13pq")
	var cases []pqCase
	add := func(class string, a, b uint64) {
		if a > b {
			a, b = b, a
		}
		hi, lo := new(big.Int).SetUint64(a), new(big.Int).SetUint64(b)
		if hi.Mul(hi, lo).BitLen() > 63 {
			return
		}
		cases = append(cases, pqCase{class, a, b})
	}
	// expensive classes first (better packing on the worker pool)
	for i := 0; i < c.N(20, 12000); i++ {
		add("balanced-32x32", randPrimeIn(r, 1<<31, pqSqrtLimit), randPrimeIn(r, 1<<31, pqSqrtLimit))
	}
	var top []uint64
	for x := uint64(pqSqrtLimit); len(top) < c.N(3, 6); x-- {
		if refmodel.C2IsPrime64(x) {
			top = append(top, x)
		}
	}
	for i, a := range top {
		for _, b := range top[i:] {
			add("near-2^63", a, b)
		}
	}
	for _, a := range []uint64{2, 3, 5, 7, 65537, 1<<31 - 1}[c.N(3, 0):] {
		x := (uint64(1)<<63 - 1) / a
		for !refmodel.C2IsPrime64(x) {
			x--
		}
		add("near-2^63", a, x)
	}
	for i := 0; i < c.N(24, 1500); i++ {
		b := 8 + r.IntN(24)
		p := randPrimeBits(r, b)
		if b == 31 && i%2 == 0 {
			p = randPrimeIn(r, 1<<31, pqSqrtLimit)
		}
		add("square", p, p)
	}
	for i := 0; i < c.N(150, 30000); i++ {
		a := 2 + r.IntN(30)
		b := a + r.IntN(63-2*a+1)
		add("mixed", randPrimeBits(r, a), randPrimeBits(r, b))
	}
	for i := 0; i < c.N(600, 50000); i++ {
		a := 2 + r.IntN(23)
		b := 63 - a - r.IntN(8)
		add("unbalanced", randPrimeBits(r, a), randPrimeBits(r, b))
	}
	for i := 0; i < c.N(200, 10000); i++ {
		add("2q", 2, randPrimeBits(r, 2+r.IntN(61)))
	}
	small := refmodel.C2PrimesBelow(2000)[:300]
	for i, a := range small {
		for _, b := range small[i:] {
			add("first-300-primes-all-pairs", a, b)
		}
	}
	c.Set("pq_cases", len(cases))
	c.Set("pq_all_pairs_of_first_300_primes", 300*301/2)

	const wallWatchdog = 5 * time.Minute // generous; firing is INCONCLUSIVE, never a verdict
	var stuck atomic.Int64
	var maxAttempts atomic.Int64
	parallel(len(cases), func(i int) {
		if stuck.Load() > 0 {
			return // a call is spinning: do not pile more work on a run that is already inconclusive
		}
		cs := cases[i]
		pq := new(big.Int).Mul(new(big.Int).SetUint64(cs.P), new(big.Int).SetUint64(cs.Q))
		// the truth is known by construction; for small products it is re-derived by trial division
		if pq.BitLen() <= 40 {
			if f := refmodel.C2TrialFactor(pq.Uint64()); len(f) != 2 || f[0] != cs.P || f[1] != cs.Q {
				c.Inconclusive(fmt.Sprintf("harness: %d*%d is not a product of exactly two primes according to trial division (%v)", cs.P, cs.Q, f))
				return
			}
		}
		rd := &pqReader{r: c.RandN("c13pq-src", i)}
		type res struct {
			p, q  *big.Int
			err   error
			pv    any
			stack string
		}
		done := make(chan res, 1)
		arg := new(big.Int).Set(pq)
		go func() {
			var o res
			o.pv, o.stack = mon.Try(func() { o.p, o.q, o.err = crypto.DecomposePQ(arg, rd) })
			done <- o
		}()
		var o res
		select {
		case o = <-done:
		case <-time.After(wallWatchdog):
			stuck.Add(1)
			c.Inconclusive(fmt.Sprintf("DecomposePQ(%s = %d*%d) did not return within %v (wall-clock watchdog; %d attempts so far)", pq, cs.P, cs.Q, wallWatchdog, rd.reads.Load()/2))
			return
		}
		c.Eval(1)
		attempts := (rd.reads.Load() + 1) / 2
		for {
			m := maxAttempts.Load()
			if attempts <= m || maxAttempts.CompareAndSwap(m, attempts) {
				break
			}
		}
		w := map[string]any{"case": cs, "pq": pq.String(), "attempts": attempts, "src_index": i}
		switch {
		case o.pv != nil:
			w["panic"], w["stack"] = fmt.Sprint(o.pv), o.stack
			c.Violate("pq|panic|"+cs.Class, w)
		case errors.Is(o.err, errPQBudget):
			c.Violate("pq|no-result-after-512-attempts|"+cs.Class, w)
		case o.err != nil:
			w["err"] = o.err.Error()
			c.Violate("pq|error|"+cs.Class, w)
		case o.p == nil || o.q == nil:
			c.Violate("pq|nil-factor|"+cs.Class, w)
		default:
			w["got_p"], w["got_q"] = o.p.String(), o.q.String()
			wantP, wantQ := new(big.Int).SetUint64(cs.P), new(big.Int).SetUint64(cs.Q)
			switch {
			case o.p.Cmp(wantP) == 0 && o.q.Cmp(wantQ) == 0:
			case o.p.Cmp(wantQ) == 0 && o.q.Cmp(wantP) == 0:
				c.Violate("pq|descending-order|"+cs.Class, w)
			default:
				c.Violate("pq|wrong-factors|"+cs.Class, w)
			}
		}
		if arg.Cmp(pq) != 0 {
			c.Violate("pq|input-modified", w)
		}
		c.Distinct(fmt.Sprintf("pq/%s/%d x %d bits", cs.Class, new(big.Int).SetUint64(cs.P).BitLen(), new(big.Int).SetUint64(cs.Q).BitLen()))
		if cs.Class != "first-300-primes-all-pairs" || cs.P > 1000 {
			c.Sample("pq", map[string]any{"class": cs.Class, "p": cs.P, "q": cs.Q, "attempts": attempts})
		}
	})
	c.Set("pq_max_attempts_in_one_call", maxAttempts.Load())
}
