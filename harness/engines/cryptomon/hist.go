package main

import (
	"fmt"
	"math/rand/v2"
	"strings"
	"sync"

	"verif/harness/mon"
)

// History arms (C13/C14/C15): the validation and decoding functions are
// supposed to be pure, so the verdict for an input must not depend on which
// calls were made earlier in the process or are running concurrently. A history
// arm executes a list of calls, each with a reference verdict, in several
// orders inside this one process:
//
//	listed      the order crafted by the caller (valid-then-invalid on the same p, ...)
//	reversed    the reverse order, every call whose reference verdict is "reject" made 3 times in a row
//	concurrent  G goroutines, each running its own shuffled copy of the list, released together
//	same-time   for calls marked Sim: G goroutines make the SAME call at the same instant
//
// Oracle: every result equals the reference verdict, whatever its position.

type hcall struct {
	Fn    string        // function under test, e.g. "CheckDH"
	Class string        // input class, e.g. "valid", "invalid-g", "prime-only-modulus"
	Desc  string        // short description for the witness
	Want  string        // reference verdict: "reject", "accept" or "accept:<result>"
	Sim   bool          // also make this call from G goroutines at the same instant
	Run   func() string // the real call, verdict in the same vocabulary ("panic:..." for a panic)
}

func hverdict(err error, result string) string {
	if err != nil {
		return "reject"
	}
	if result == "" {
		return "accept"
	}
	return "accept:" + result
}

func houtcome(got, want string) string {
	switch {
	case strings.HasPrefix(got, "panic"):
		return "panicked"
	case got == "reject":
		return "rejected"
	case want == "reject":
		return "accepted"
	}
	return "gave-another-result"
}

type hstep struct {
	Call string `json:"call"`
	Got  string `json:"got"`
	Want string `json:"want"`
}

func short(s string) string {
	if len(s) > 80 {
		return s[:80] + "..."
	}
	return s
}

func runHistory(c *mon.Ctx, arm string, calls []hcall, r *rand.Rand, goroutines int) {
	exec := func(pass string, seq []hcall, concurrent bool) {
		prev := "no-call" // coarse class of the previous call in this goroutine: keeps the signature set small and stable
		var trail []hstep
		for _, h := range seq {
			var got string
			if pv, _ := mon.Try(func() { got = h.Run() }); pv != nil {
				got = "panic: " + fmt.Sprint(pv)
			}
			c.Eval(1)
			trail = append(trail, hstep{h.Fn + " " + h.Desc, short(got), short(h.Want)})
			if len(trail) > 16 {
				trail = trail[1:]
			}
			after := prev
			if concurrent {
				after = "concurrent-calls"
			}
			if got != h.Want {
				c.Violate(fmt.Sprintf("history|%s|%s-%s-after-%s", h.Fn, h.Class, houtcome(got, h.Want), after),
					map[string]any{"arm": arm, "pass": pass, "call": h.Fn + " " + h.Desc, "class": h.Class, "got": got, "reference": h.Want,
						"calls_made_before_in_this_goroutine": append([]hstep(nil), trail...)})
			}
			c.Distinct(fmt.Sprintf("history/%s/%s/%s-after-%s", pass, h.Fn, h.Class, after))
			c.Add("history_calls", 1)
			prev = "accepted-call"
			if h.Want == "reject" {
				prev = "rejected-call"
			}
		}
	}
	exec("listed", calls, false)
	var rev []hcall
	for i := len(calls) - 1; i >= 0; i-- {
		n := 1
		if calls[i].Want == "reject" {
			n = 3
		}
		for ; n > 0; n-- {
			rev = append(rev, calls[i])
		}
	}
	exec("reversed", rev, false)
	// concurrent: shuffled copies
	seqs := make([][]hcall, goroutines)
	for g := range seqs {
		seqs[g] = append([]hcall(nil), calls...)
		r.Shuffle(len(seqs[g]), func(i, j int) { seqs[g][i], seqs[g][j] = seqs[g][j], seqs[g][i] })
	}
	var wg sync.WaitGroup
	start := make(chan struct{})
	for g := range seqs {
		wg.Add(1)
		go func() {
			defer wg.Done()
			<-start
			exec("concurrent", seqs[g], true)
		}()
	}
	close(start)
	wg.Wait()
	// the same call at the same instant
	for _, h := range calls {
		if !h.Sim {
			continue
		}
		start := make(chan struct{})
		for g := 0; g < goroutines; g++ {
			wg.Add(1)
			go func() {
				defer wg.Done()
				<-start
				exec("same-time", []hcall{h}, true)
			}()
		}
		close(start)
		wg.Wait()
	}
	c.Sample("history", map[string]any{"arm": arm, "calls_in_list": len(calls), "first": calls[0].Fn + " " + calls[0].Desc, "goroutines": goroutines})
}
