package main

import (
	"bytes"
	"crypto/rsa"
	"fmt"
	"math/big"
	"math/rand/v2"

	"github.com/gotd/td/crypto"

	"verif/harness/mon"
	"verif/harness/refmodel"
)

// recReader hands out a seeded stream and records every byte it handed out.
type recReader struct {
	r     *rand.Rand
	log   []byte
	reads int
}

func (r *recReader) Read(p []byte) (int, error) {
	for i := range p {
		p[i] = byte(r.r.Uint32())
	}
	r.log = append(r.log, p...)
	r.reads++
	return len(p), nil
}

func c14Data(r *rand.Rand, n, variant int) []byte {
	d := randBytes(r, n)
	switch variant % 8 {
	case 5:
		for i := range d {
			d[i] = 0
		}
	case 6:
		for i := range d {
			d[i] = 0xff
		}
	case 7: // leading zeros: the reversed block then ends with zeros
		for i := 0; i < len(d)/2; i++ {
			d[i] = 0
		}
	}
	return d
}

func flipBit(r *rand.Rand, b []byte) []byte {
	out := append([]byte(nil), b...)
	out[r.IntN(len(out))] ^= 1 << r.IntN(8)
	return out
}

func runC14(c *mon.Ctx) {
	c.Rule("for each of 3 committed 2048-bit test keys (ordinary; modulus just above 2^2047 so that about half of all key_aes_encrypted values are >= N and force the retry; modulus near 2^2048 with e=17) " +
		"and EVERY data length 0..144: several seeded random streams; the real RSAPad output must (1) equal byte for byte the output of the reference RSA_PAD encoder (nine spec steps) given the same padding and temp_key candidates, " +
		"with the same number of temp_keys consumed, (2) decode with the real DecodeRSAPad and (3) with the reference decoder to data || padding-bytes-consumed; lengths 145..1000 must be refused; " +
		"RSAEncryptHashed/RSADecryptHashed: every length 0..235 round-trips and the reference decrypt shows SHA1(data) || data || ...; lengths > 235 refused; " +
		"every ciphertext is also decoded with one flipped bit and under another key and must fail; random 256-byte garbage must fail; " +
		"history arm: valid ciphertexts decoded after rejected ones (flipped bit, other key, garbage) and vice versa, rejected ones 3 times in a row, interleaved over all keys and both schemes, sequentially and from 3-4 goroutines; the verdict and the decoded bytes must equal the reference regardless of position; " +
		"distinct non-trivial = distinct (scheme, key, data length, number of temp_keys consumed / outcome)")
	c.Assume("RSAPad draws the random padding first and then 32 bytes per temp_key candidate from the supplied source (observed at the io.Reader boundary); refmodel/crypto2_rsapad.go transcribes the nine RSA_PAD steps; math/big, crypto/aes, crypto/sha256, crypto/sha1 are shared")
	c.Assume("acceptance of a mutated ciphertext by a 2^-256 (SHA256) or 2^-160 (SHA1) coincidence is not a realistic false alarm")
	c.Exhaustive(false)
	keys, ok := loadRSAKeys(c)
	if !ok {
		return
	}
	priv := make([]*rsa.PrivateKey, len(keys))
	for i, k := range keys {
		priv[i] = &rsa.PrivateKey{PublicKey: rsa.PublicKey{N: k.N, E: int(k.E)}, D: k.D, Primes: []*big.Int{k.P, k.Q}}
	}

	keySnap := make([][2]string, len(keys))
	for i, k := range keys {
		keySnap[i] = [2]string{k.N.Text(16), k.D.Text(16)}
	}
	type job struct {
		scheme string
		key    int
		n      int
		s      int
	}
	var jobs []job
	streams := c.N(4, 250)
	for k := range keys {
		for n := 0; n <= 144; n++ {
			for s := 0; s < streams; s++ {
				jobs = append(jobs, job{"pad", k, n, s})
			}
		}
		for _, n := range []int{145, 146, 147, 150, 160, 176, 191, 192, 193, 200, 223, 224, 255, 256, 257, 1000} {
			jobs = append(jobs, job{"pad-too-long", k, n, 0})
		}
		hs := c.N(2, 60)
		for n := 0; n <= 235; n++ {
			for s := 0; s < hs; s++ {
				jobs = append(jobs, job{"hashed", k, n, s})
			}
		}
		for _, n := range []int{236, 237, 240, 255, 256, 257, 1000} {
			jobs = append(jobs, job{"hashed-too-long", k, n, 0})
		}
		for s := 0; s < c.N(30, 2000); s++ {
			jobs = append(jobs, job{"garbage", k, 0, s})
		}
	}

	parallel(len(jobs), func(ji int) {
		j := jobs[ji]
		r := c.RandN("c14", ji)
		key, pk := keys[j.key], priv[j.key]
		other := priv[(j.key+1)%len(priv)]
		base := map[string]any{"scheme": j.scheme, "key": key.Name, "len": j.n, "stream": j.s, "job": ji}
		wit := func(kv ...any) map[string]any {
			w := map[string]any{}
			for k, v := range base {
				w[k] = v
			}
			for i := 0; i+1 < len(kv); i += 2 {
				w[kv[i].(string)] = kv[i+1]
			}
			return w
		}
		mustFail := func(what string, f func() ([]byte, error), ct []byte) {
			var out []byte
			var err error
			pv, stack := mon.Try(func() { out, err = f() })
			c.Eval(1)
			switch {
			case pv != nil:
				c.Violate(j.scheme+"|panic|"+what, wit("ct", hx(ct), "panic", fmt.Sprint(pv), "stack", stack))
			case err == nil:
				c.Violate(j.scheme+"|accepted|"+what, wit("ct", hx(ct), "returned_len", len(out)))
			default:
				c.Distinct(fmt.Sprintf("%s/%s/%s/rejected", j.scheme, key.Name, what))
			}
		}

		switch j.scheme {
		case "pad", "pad-too-long":
			data := c14Data(r, j.n, j.s)
			rd := &recReader{r: r}
			var ct []byte
			var err error
			dataCopy := append([]byte(nil), data...)
			pv, stack := mon.Try(func() { ct, err = crypto.RSAPad(data, &pk.PublicKey, rd) })
			c.Eval(1)
			if !bytes.Equal(data, dataCopy) {
				c.Violate("immutability|RSAPad|data-modified", wit("before", hx(dataCopy), "after", hx(data)))
				copy(data, dataCopy)
			}
			if pv != nil {
				c.Violate("pad|panic|encode", wit("panic", fmt.Sprint(pv), "stack", stack, "data", hx(data)))
				return
			}
			if j.n > 144 {
				if err == nil {
					c.Violate("pad|accepted|data-longer-than-144", wit("ct", hx(ct)))
				}
				c.Distinct(fmt.Sprintf("pad/%s/too-long/%d", key.Name, min(j.n, 257)))
				return
			}
			if err != nil || len(ct) != 256 {
				c.Violate("pad|valid-length-refused-or-bad-size", wit("err", fmt.Sprint(err), "ct_len", len(ct)))
				return
			}
			padLen := 192 - j.n
			if len(rd.log) < padLen+32 || (len(rd.log)-padLen)%32 != 0 {
				c.Violate("pad|random-consumption-not-padding-plus-temp-keys", wit("consumed", len(rd.log)))
				return
			}
			padding := rd.log[:padLen]
			var tempKeys [][]byte
			for o := padLen; o < len(rd.log); o += 32 {
				tempKeys = append(tempKeys, rd.log[o:o+32])
			}
			want192 := append(append([]byte(nil), data...), padding...)
			ref, rerr := refmodel.C2RSAPadEncode(data, padding, tempKeys, key.N, key.E)
			switch {
			case rerr != nil:
				// every candidate the real code drew is >= N per spec, yet it produced a ciphertext
				c.Violate("pad|encrypted-a-value-not-below-modulus", wit("temp_keys", len(tempKeys), "ref_err", rerr.Error(), "ct", hx(ct)))
			case ref.KeysUsed != len(tempKeys):
				c.Violate("pad|retry-rule", wit("temp_keys_consumed", len(tempKeys), "spec_uses", ref.KeysUsed))
			case !bytes.Equal(ref.Encrypted, ct):
				sig := "pad|ciphertext-differs-from-spec"
				if ref.KeysUsed > 1 {
					sig += "|after-retry"
				}
				c.Violate(sig, wit("ct", hx(ct), "spec_ct", hx(ref.Encrypted), "data", hx(data), "temp_keys", len(tempKeys)))
			}
			if len(tempKeys) > 1 {
				c.Add("pad_retries_observed", int64(len(tempKeys)-1))
			}
			// reference decoder on the real ciphertext
			got, derr := refmodel.C2RSAPadDecode(ct, &key.C2RSAPriv)
			if derr != nil {
				c.Violate("pad|spec-decoder-rejects", wit("ct", hx(ct), "ref_err", derr.Error()))
			} else if !bytes.Equal(got, want192) {
				c.Violate("pad|spec-decoder-gives-other-plaintext", wit("ct", hx(ct), "got", hx(got), "want", hx(want192)))
			}
			// real decoder
			var dec []byte
			ctIn := append(make([]byte, 0, 256+64), ct...) // spare capacity behind the ciphertext
			pv, stack = mon.Try(func() { dec, err = crypto.DecodeRSAPad(ctIn, pk) })
			c.Eval(1)
			if !bytes.Equal(ctIn, ct) || !bytes.Equal(ctIn[256:256+64], make([]byte, 64)) {
				c.Violate("immutability|DecodeRSAPad|ciphertext-buffer-modified", wit("ct", hx(ct)))
			}
			switch {
			case pv != nil:
				c.Violate("pad|panic|decode", wit("panic", fmt.Sprint(pv), "stack", stack, "ct", hx(ct)))
			case err != nil:
				c.Violate("pad|roundtrip-rejected", wit("ct", hx(ct), "err", err.Error()))
			case !bytes.Equal(dec, want192):
				sig := "pad|roundtrip-mismatch"
				if len(dec) == 192 && bytes.Equal(dec[:j.n], data) {
					sig += "|padding"
				}
				c.Violate(sig, wit("ct", hx(ct), "got", hx(dec), "want", hx(want192)))
			}
			c.Distinct(fmt.Sprintf("pad/%s/len%d/keys%d", key.Name, j.n, min(len(tempKeys), 4)))
			c.Sample("pad-"+key.Name, map[string]any{"len": j.n, "temp_keys_consumed": len(tempKeys), "ct": hx(ct[:16])})
			// mutation arm
			if !c.Quick() || ji%2 == 0 { // one private-key operation each: the quick tier alternates
				fl := flipBit(r, ct)
				mustFail("flipped-bit", func() ([]byte, error) { return crypto.DecodeRSAPad(fl, pk) }, fl)
			}
			if !c.Quick() || ji%2 == 1 {
				mustFail("other-key", func() ([]byte, error) { return crypto.DecodeRSAPad(ct, other) }, ct)
			}
			// observation only (not a verdict): c + N is the same residue in a non-canonical encoding
			if j.s%4 == 0 {
				cn := new(big.Int).Add(new(big.Int).SetBytes(ct), key.N)
				if cn.BitLen() <= 2048 {
					b := make([]byte, 256)
					cn.FillBytes(b)
					if _, e := crypto.DecodeRSAPad(b, pk); e == nil {
						c.Add("observation_noncanonical_c_plus_N_decodes", 1)
					} else {
						c.Add("observation_noncanonical_c_plus_N_rejected", 1)
					}
				}
			}

		case "hashed", "hashed-too-long":
			data := c14Data(r, j.n, j.s)
			rd := &recReader{r: r}
			var ct []byte
			var err error
			pv, stack := mon.Try(func() { ct, err = crypto.RSAEncryptHashed(data, &pk.PublicKey, rd) })
			c.Eval(1)
			if pv != nil {
				c.Violate("hashed|panic|encode", wit("panic", fmt.Sprint(pv), "stack", stack, "data", hx(data)))
				return
			}
			if j.n > 235 {
				if err == nil {
					c.Violate("hashed|accepted|data-longer-than-235", wit("ct", hx(ct)))
				}
				c.Distinct(fmt.Sprintf("hashed/%s/too-long/%d", key.Name, min(j.n, 257)))
				return
			}
			if err != nil || len(ct) != 256 {
				c.Violate("hashed|valid-length-refused-or-bad-size", wit("err", fmt.Sprint(err), "ct_len", len(ct)))
				return
			}
			dwh, derr := refmodel.C2HashedDecode255(ct, &key.C2RSAPriv)
			if derr != nil {
				c.Violate("hashed|spec-decoder-rejects", wit("ct", hx(ct), "ref_err", derr.Error()))
			} else if !refmodel.C2HashedCheck(dwh, data) {
				c.Violate("hashed|not-sha1-data-padding", wit("ct", hx(ct), "decrypted", hx(dwh), "data", hx(data)))
			} else if len(rd.log) == 255 {
				// byte-identical construction when the tail is taken from the same stream positions
				if ref, e := refmodel.C2HashedEncode(data, rd.log[20+j.n:], key.N, key.E); e == nil && !bytes.Equal(ref, ct) {
					c.Add("observation_hashed_tail_not_from_stream_position", 1)
				}
			}
			var dec []byte
			ctIn := append(make([]byte, 0, 256+64), ct...)
			pv, stack = mon.Try(func() { dec, err = crypto.RSADecryptHashed(ctIn, pk) })
			c.Eval(1)
			if !bytes.Equal(ctIn, ct) || !bytes.Equal(ctIn[256:256+64], make([]byte, 64)) {
				c.Violate("immutability|RSADecryptHashed|ciphertext-buffer-modified", wit("ct", hx(ct)))
			}
			switch {
			case pv != nil:
				c.Violate("hashed|panic|decode", wit("panic", fmt.Sprint(pv), "stack", stack, "ct", hx(ct)))
			case err != nil:
				c.Violate("hashed|roundtrip-rejected", wit("ct", hx(ct), "err", err.Error()))
			case !bytes.Equal(dec, data):
				c.Violate("hashed|roundtrip-mismatch", wit("ct", hx(ct), "got", hx(dec), "want", hx(data)))
			}
			c.Distinct(fmt.Sprintf("hashed/%s/len%d", key.Name, j.n))
			c.Sample("hashed", map[string]any{"key": key.Name, "len": j.n, "ct": hx(ct[:16])})
			if !c.Quick() || ji%2 == 0 {
				fl := flipBit(r, ct)
				mustFail("flipped-bit", func() ([]byte, error) { return crypto.RSADecryptHashed(fl, pk) }, fl)
			}
			if !c.Quick() || ji%2 == 1 {
				mustFail("other-key", func() ([]byte, error) { return crypto.RSADecryptHashed(ct, other) }, ct)
			}

		case "garbage":
			n := 256
			switch j.s % 10 {
			case 7:
				n = r.IntN(256)
			case 8:
				n = 0
			case 9:
				n = 257 + r.IntN(64)
			}
			g := randBytes(r, n)
			base["len"] = n
			mustFail("garbage-pad", func() ([]byte, error) { return crypto.DecodeRSAPad(g, pk) }, g)
			mustFail("garbage-hashed", func() ([]byte, error) { return crypto.RSADecryptHashed(g, pk) }, g)
		}
	})
	c14History(c, keys, priv)
	for i, k := range keys {
		if k.N.Text(16) != keySnap[i][0] || k.D.Text(16) != keySnap[i][1] || int64(priv[i].E) != k.E {
			c.Violate("immutability|rsa-key-modified", map[string]any{"key": k.Name})
		}
	}
}
