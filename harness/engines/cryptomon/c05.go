package main

import (
	"fmt"

	"github.com/gotd/td/bin"
	"github.com/gotd/td/crypto"

	"verif/harness/mon"
)

// runC05: mutation oracle. Every mutant of a valid ciphertext, every reflected
// message and every message under a foreign key must be rejected, and the
// returned message pointer must be nil.
func runC05(c *mon.Ctx) {
	c.Rule("valid ciphertexts from the real Cipher.Encrypt; mutants: all 192 single-bit flips of auth_key_id+msg_key, single-bit flips over the body " +
		"(every byte for short bodies, 256 random positions otherwise), 2..8-bit flips, truncations and extensions by bytes and blocks, block swaps, splices, " +
		"reflection (same side decrypts), foreign key with and without forged key id; oracle: err != nil AND result == nil; " +
		"distinct non-trivial = distinct (mutation class, body-length bucket) pairs with a rejected mutant")
	r := c.Rand("c05")
	bases := c.N(150, 12000)
	type mut struct {
		Class string `json:"class"`
		Pos   int    `json:"pos"`
		Len   int    `json:"payload_len"`
		Srv   bool   `json:"from_server"`
	}
	var original []byte
	var originalKey crypto.AuthKey
	try := func(dec crypto.Cipher, k crypto.AuthKey, wire []byte, m mut) {
		if string(wire) == string(original) && k == originalKey && m.Class != "reflection" {
			return // the mutation was not effective (e.g. the same bit flipped twice)
		}
		c.Eval(1)
		var got *crypto.EncryptedMessageData
		var err error
		pv, stack := mon.Try(func() {
			got, err = dec.DecryptFromBuffer(k, &bin.Buffer{Buf: wire})
		})
		if pv != nil {
			c.Violate("panic|"+m.Class, map[string]any{"mut": m, "panic": fmt.Sprint(pv), "stack": stack, "wire": hx(wire)})
			return
		}
		if err == nil || got != nil {
			c.Violate("accepted|"+m.Class, map[string]any{"mut": m, "wire": hx(wire), "err_nil": err == nil, "result_nil": got == nil})
			return
		}
		b := 0
		for x := m.Len; x > 0; x >>= 2 {
			b++
		}
		c.Distinct(fmt.Sprintf("%s/len%d", m.Class, b))
		c.Sample(m.Class, m)
	}
	for bi := 0; bi < bases; bi++ {
		k := randKey(r, 0)
		srv := bi%2 == 1
		n := []int{0, 4, 16, 64, 256, 1024, 4096}[bi%7]
		if bi%5 == 0 {
			n = r.IntN(20000) &^ 3
		}
		enc, dec := crypto.NewClientCipher(&randReader{r: r}), crypto.NewServerCipher(nil)
		same := crypto.NewClientCipher(nil)
		if srv {
			enc, dec = crypto.NewServerCipher(&randReader{r: r}), crypto.NewClientCipher(nil)
			same = crypto.NewServerCipher(nil)
		}
		payload := randBytes(r, n)
		var b bin.Buffer
		if err := enc.Encrypt(k, crypto.EncryptedMessageData{
			Salt: randInt64(r), SessionID: randInt64(r), MessageID: randInt64(r), SeqNo: int32(r.Uint32()),
			MessageDataLen: int32(n), MessageDataWithPadding: payload,
		}, &b); err != nil {
			c.Inconclusive("encrypt failed: " + err.Error())
			return
		}
		wire := append([]byte(nil), b.Buf...)
		original, originalKey = wire, k
		// control: the unmodified message must be accepted (else the mutants prove nothing)
		if got, err := dec.DecryptFromBuffer(k, &bin.Buffer{Buf: append([]byte(nil), wire...)}); err != nil || got == nil {
			c.Violate("control-rejected", map[string]any{"len": n, "err": fmt.Sprint(err)})
			continue
		}
		c.Add("controls_accepted", 1)
		cp := func() []byte { return append([]byte(nil), wire...) }
		// header bit flips (exhaustive)
		for bit := 0; bit < 192; bit++ {
			w := cp()
			w[bit/8] ^= 1 << (bit % 8)
			cls := "flip-msg-key"
			if bit < 64 {
				cls = "flip-key-id"
			}
			try(dec, k, w, mut{cls, bit, n, srv})
		}
		body := len(wire) - 24
		if body <= 512 {
			for p := 0; p < body; p++ {
				w := cp()
				w[24+p] ^= 1 << r.IntN(8)
				try(dec, k, w, mut{"flip-body", p, n, srv})
			}
		} else {
			for j := 0; j < 256; j++ {
				p := r.IntN(body)
				if j < 32 {
					p = j // header region of the plaintext
				} else if j < 64 {
					p = body - 1 - (j - 32) // padding region
				}
				w := cp()
				w[24+p] ^= 1 << r.IntN(8)
				try(dec, k, w, mut{"flip-body", p, n, srv})
			}
		}
		for j := 0; j < 16; j++ {
			w := cp()
			for f := 2 + r.IntN(7); f > 0; f-- {
				w[r.IntN(len(w))] ^= 1 << r.IntN(8)
			}
			try(dec, k, w, mut{"flip-multi", j, n, srv})
		}
		for cut := 1; cut <= 32; cut++ {
			if cut < len(wire) {
				try(dec, k, cp()[:len(wire)-cut], mut{"truncate-bytes", cut, n, srv})
			}
			try(dec, k, append(cp(), randBytes(r, cut)...), mut{"extend-bytes", cut, n, srv})
		}
		for blk := 1; blk <= 4; blk++ {
			if blk*16 < body {
				try(dec, k, cp()[:len(wire)-blk*16], mut{"truncate-blocks", blk, n, srv})
				try(dec, k, cp()[:24+blk*16], mut{"keep-first-blocks", blk, n, srv})
			}
			try(dec, k, append(cp(), randBytes(r, blk*16)...), mut{"extend-blocks", blk, n, srv})
			try(dec, k, append(cp(), wire[len(wire)-blk*16:]...), mut{"repeat-last-blocks", blk, n, srv})
		}
		if body >= 48 {
			for j := 0; j < 8; j++ {
				w := cp()
				a, bb := r.IntN(body/16), r.IntN(body/16)
				if a == bb {
					continue
				}
				tmp := append([]byte(nil), w[24+a*16:24+a*16+16]...)
				copy(w[24+a*16:], w[24+bb*16:24+bb*16+16])
				copy(w[24+bb*16:], tmp)
				if string(w) == string(wire) {
					continue
				}
				try(dec, k, w, mut{"swap-blocks", a*1000 + bb, n, srv})
			}
		}
		try(dec, k, cp()[:24], mut{"empty-body", 0, n, srv})
		try(dec, k, cp()[:8], mut{"only-key-id", 0, n, srv})
		try(dec, k, []byte{}, mut{"empty", 0, n, srv})
		// a receiver key whose cached id is unset (AuthKey{Value: k}) must not make the auth_key_id check vanish:
		// flipped key ids are still different bytes from what the peer produced
		noID := crypto.AuthKey{Value: k.Value}
		for _, bit := range []int{0, 7, 31, 63} {
			w := cp()
			w[bit/8] ^= 1 << (bit % 8)
			try(dec, noID, w, mut{"flip-key-id/receiver-key-without-cached-id", bit, n, srv})
		}
		// reflection: the encrypting side decrypts its own message
		try(same, k, cp(), mut{"reflection", 0, n, srv})
		// foreign key: receiver holds another key
		k2 := randKey(r, 0)
		try(dec, k2, cp(), mut{"foreign-key", 0, n, srv})
		w := cp()
		copy(w[:8], k2.ID[:])
		try(dec, k2, w, mut{"foreign-key-forged-id", 0, n, srv})
		// a key with the same id but different value (id collision forged by the attacker)
		k3 := k2
		k3.ID = k.ID
		try(dec, k3, cp(), mut{"foreign-key-same-id", 0, n, srv})
		// splice: header of this message with the body of another valid message under the same key
		var b2 bin.Buffer
		_ = enc.Encrypt(k, crypto.EncryptedMessageData{MessageDataLen: int32(n), MessageDataWithPadding: randBytes(r, n)}, &b2)
		if len(b2.Buf) > 24 && string(b2.Buf) != string(wire) {
			sp := append(cp()[:24], b2.Buf[24:]...)
			try(dec, k, sp, mut{"splice-body", 0, n, srv})
		}
	}
}
