package main

import (
	"encoding/hex"
	"math/rand/v2"

	"github.com/gotd/td/crypto"
)

// randReader is an io.Reader over a seeded PCG stream. When force is non-nil
// its bytes are returned first (used to force the padding-selection byte).
type randReader struct {
	r     *rand.Rand
	force []byte
	taken int
}

func (r *randReader) Read(p []byte) (int, error) {
	for i := range p {
		if len(r.force) > 0 {
			p[i] = r.force[0]
			r.force = r.force[1:]
		} else {
			p[i] = byte(r.r.Uint32())
		}
	}
	r.taken += len(p)
	return len(p), nil
}

func randBytes(r *rand.Rand, n int) []byte {
	b := make([]byte, n)
	for i := range b {
		b[i] = byte(r.Uint32())
	}
	return b
}

func randKey(r *rand.Rand, leadingZeros int) crypto.AuthKey {
	var k crypto.Key
	copy(k[:], randBytes(r, 256))
	for i := 0; i < leadingZeros && i < 256; i++ {
		k[i] = 0
	}
	return k.WithID()
}

var extremes64 = []int64{0, 1, -1, 1<<63 - 1, -1 << 63, 0x0102030405060708}

func randInt64(r *rand.Rand) int64 {
	if r.IntN(4) == 0 {
		return extremes64[r.IntN(len(extremes64))]
	}
	return int64(r.Uint64())
}

func hx(b []byte) string {
	if len(b) > 96 {
		return hex.EncodeToString(b[:96]) + "..."
	}
	return hex.EncodeToString(b)
}
