package main

import (
	"encoding/hex"
	"fmt"
	"math/big"

	"github.com/gotd/td/crypto/srp"

	"verif/harness/mon"
	"verif/harness/refmodel"
)

// c15History: SRP.Hash / SRP.NewHash in call sequences (see hist.go): a valid
// (g, p), then EVERY inadmissible g on the same p (Hash and NewHash), moduli
// that must be refused each time they are presented, then the valid group
// again; reversed with repeats; from several goroutines. The answer of a valid
// call must equal the reference (A, M1) at every position.
func c15History(c *mon.Ctx, ms []modulus) {
	r := c.Rand("c15hist")
	safe := ofKind(ms, "safe2048")
	safe = safe[:min(len(safe), c.N(1, 6))]
	pw, salt1, salt2 := []byte("history password"), randBytes(r, 40), randBytes(r, 16)
	secret := randBytes(r, 256)
	var calls []hcall
	for _, m := range safe {
		validG := 0
		for g := 2; g <= 7; g++ {
			if g != 4 && refmodel.C2SpecAcceptG(g, m.P) {
				validG = g
				break
			}
		}
		if validG == 0 {
			validG = 4
		}
		gr := refmodel.C2SRPGroup{G: int64(validG), P: m.P}
		x := refmodel.C2SRPX(pw, salt1, salt2)
		ver := refmodel.C2NewSRPVerifier(gr, x, salt1, salt2, new(big.Int).SetBytes(randBytes(r, 256)))
		B := refmodel.C2Pad2048(ver.B)
		refA, refM1 := refmodel.C2SRPClient(gr, x, salt1, salt2, new(big.Int).SetBytes(secret), ver.B)
		hash := func(class string, g int, pName string, p []byte, want string) hcall {
			return hcall{Fn: "SRP.Hash", Class: class, Desc: fmt.Sprintf("g=%d p=%s", g, pName), Want: want, Run: func() string {
				ans, err := srp.NewSRP(&randReader{r: c.RandN("c15hist-rnd", 1)}).Hash(pw, B, secret, srp.Input{Salt1: salt1, Salt2: salt2, G: g, P: p})
				if err == nil && ans.A == nil && ans.M1 == nil {
					return "accept:empty-answer"
				}
				return hverdict(err, hex.EncodeToString(ans.A)+"/"+hex.EncodeToString(ans.M1))
			}}
		}
		newHash := func(class string, g int, pName string, p []byte, want string) hcall {
			return hcall{Fn: "SRP.NewHash", Class: class, Desc: fmt.Sprintf("g=%d p=%s", g, pName), Want: want, Run: func() string {
				h, s, err := srp.NewSRP(&randReader{r: c.RandN("c15hist-rnd", 2)}).NewHash(pw, srp.Input{Salt1: salt1, Salt2: salt2, G: g, P: p})
				return hverdict(err, hex.EncodeToString(h)+"/"+hex.EncodeToString(s))
			}}
		}
		// reference for NewHash: new salt = salt1 || the 32 bytes the seeded reader hands out
		rnd := make([]byte, 32)
		(&randReader{r: c.RandN("c15hist-rnd", 2)}).Read(rnd)
		newSalt := append(append([]byte(nil), salt1...), rnd...)
		v := new(big.Int).Exp(big.NewInt(int64(validG)), refmodel.C2SRPX(pw, newSalt, salt2), m.P)
		pb := m.P.Bytes()
		validHash := hash("valid-group", validG, m.Name, pb, "accept:"+hex.EncodeToString(refA)+"/"+hex.EncodeToString(refM1))
		validNew := newHash("valid-group", validG, m.Name, pb, "accept:"+hex.EncodeToString(refmodel.C2Pad2048(v))+"/"+hex.EncodeToString(newSalt))

		calls = append(calls, validHash)
		for g := -1; g <= 9; g++ {
			if !refmodel.C2SpecAcceptG(g, m.P) {
				calls = append(calls, hash("invalid-g-on-valid-p", g, m.Name, pb, "reject"))
				if g%2 == 0 || !c.Quick() {
					calls = append(calls, newHash("invalid-g-on-valid-p", g, m.Name, pb, "reject"))
				}
			}
		}
		calls = append(calls, hash("composite-modulus", 4, m.Name+"+2", new(big.Int).Add(m.P, big.NewInt(2)).Bytes(), "reject"))
		calls = append(calls, validNew)
	}
	for _, kind := range []struct{ kind, class string }{{"prime-only", "prime-modulus-composite-half"}, {"q-only", "composite-modulus-prime-half"}, {"safe2049", "safe-prime-wrong-size"}} {
		bad := ofKind(ms, kind.kind)
		if c.Quick() {
			bad = bad[:1]
		}
		for i, m := range bad {
			h := hcall{Fn: "SRP.Hash", Class: kind.class, Desc: "g=4 p=" + m.Name, Want: "reject", Sim: true, Run: func() string {
				ans, err := srp.NewSRP(&randReader{r: c.RandN("c15hist-rnd", 1)}).Hash(pw, randBytes(c.RandN("c15hist-B", i), 256), secret, srp.Input{Salt1: salt1, Salt2: salt2, G: 4, P: m.P.Bytes()})
				return hverdict(err, hex.EncodeToString(ans.M1))
			}}
			at := (i*5 + len(kind.kind)) % (len(calls) + 1)
			calls = append(calls[:at], append([]hcall{h}, calls[at:]...)...)
		}
	}
	runHistory(c, "C15", calls, r, c.N(2, 3))
}
