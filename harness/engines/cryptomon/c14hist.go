package main

import (
	"crypto/rsa"
	"encoding/hex"
	"fmt"

	"github.com/gotd/td/crypto"

	"verif/harness/mon"
	"verif/harness/refmodel"
)

// c14History: decoders and encoders in call sequences (see hist.go): a valid
// ciphertext after a rejected one (flipped bit, other key, garbage) and vice
// versa, the same rejected ciphertext repeatedly, interleaved over all keys and
// both schemes, sequentially and from several goroutines.
func c14History(c *mon.Ctx, keys []*rsaTestKey, priv []*rsa.PrivateKey) {
	r := c.Rand("c14hist")
	var calls []hcall
	for round := 0; round < c.N(1, 12); round++ {
		for k, key := range keys {
			pk, other := priv[k], priv[(k+1)%len(priv)]
			dec := func(class, desc string, ct []byte, with *rsa.PrivateKey, want string) hcall {
				return hcall{Fn: "DecodeRSAPad", Class: class, Desc: fmt.Sprintf("%s key=%s", desc, key.Name), Want: want, Sim: class != "valid-ciphertext",
					Run: func() string {
						out, err := crypto.DecodeRSAPad(append([]byte(nil), ct...), with)
						return hverdict(err, hex.EncodeToString(out))
					}}
			}
			var valid []hcall
			var cts [][]byte
			for _, n := range []int{0, 144, 1 + r.IntN(143)} {
				data := randBytes(r, n)
				seed := r.Uint64()
				ct, err := crypto.RSAPad(data, &pk.PublicKey, &randReader{r: c.RandN("c14hist-enc", int(seed%1e9))})
				if err != nil {
					c.Inconclusive("history: RSAPad failed: " + err.Error())
					return
				}
				want192, derr := refmodel.C2RSAPadDecode(ct, &key.C2RSAPriv)
				if derr != nil {
					c.Inconclusive("history: reference decoder rejects a real ciphertext (see the main arm): " + derr.Error())
					return
				}
				cts = append(cts, ct)
				valid = append(valid, dec("valid-ciphertext", fmt.Sprintf("len=%d", n), ct, pk, "accept:"+hex.EncodeToString(want192)))
				// the encoder itself: refused length, then the same valid call again must give the same ciphertext
				calls = append(calls,
					hcall{Fn: "RSAPad", Class: "too-long", Desc: "len=145", Want: "reject", Run: func() string {
						_, e := crypto.RSAPad(make([]byte, 145), &pk.PublicKey, &randReader{r: c.RandN("c14hist-enc", 1)})
						return hverdict(e, "")
					}},
					hcall{Fn: "RSAPad", Class: "valid", Desc: fmt.Sprintf("len=%d key=%s", n, key.Name), Want: "accept:" + hex.EncodeToString(ct), Run: func() string {
						out, e := crypto.RSAPad(data, &pk.PublicKey, &randReader{r: c.RandN("c14hist-enc", int(seed%1e9))})
						return hverdict(e, hex.EncodeToString(out))
					}})
			}
			flipped := dec("flipped-bit-ciphertext", "flip", flipBit(r, cts[0]), pk, "reject")
			otherKey := dec("other-key-ciphertext", "other key", cts[1], other, "reject")
			garbage := dec("garbage-ciphertext", "garbage", randBytes(r, 256), pk, "reject")
			calls = append(calls, valid[0], flipped, valid[0], otherKey, valid[1], garbage, valid[2], flipped, flipped, valid[1], otherKey, valid[2])

			// hashed scheme
			hdec := func(class, desc string, ct []byte, with *rsa.PrivateKey, want string) hcall {
				return hcall{Fn: "RSADecryptHashed", Class: class, Desc: fmt.Sprintf("%s key=%s", desc, key.Name), Want: want,
					Run: func() string {
						out, err := crypto.RSADecryptHashed(append([]byte(nil), ct...), with)
						return hverdict(err, hex.EncodeToString(out))
					}}
			}
			var hvalid []hcall
			var hcts [][]byte
			for _, n := range []int{0, 235, 1 + r.IntN(234)} {
				data := randBytes(r, n)
				ct, err := crypto.RSAEncryptHashed(data, &pk.PublicKey, &randReader{r: r})
				if err != nil {
					c.Inconclusive("history: RSAEncryptHashed failed: " + err.Error())
					return
				}
				hcts = append(hcts, ct)
				want := "accept:" + hex.EncodeToString(data)
				if n == 0 {
					want = "accept"
				}
				hvalid = append(hvalid, hdec("valid-ciphertext", fmt.Sprintf("len=%d", n), ct, pk, want))
			}
			hf := hdec("flipped-bit-ciphertext", "flip", flipBit(r, hcts[1]), pk, "reject")
			ho := hdec("other-key-ciphertext", "other key", hcts[2], other, "reject")
			calls = append(calls, hvalid[0], hf, hvalid[1], ho, hvalid[2], hf, hvalid[0], valid[0], hf, valid[1])
		}
	}
	runHistory(c, "C14", calls, r, c.N(3, 4))
}
