package main

import (
	"bytes"
	"fmt"
	"math/big"

	"github.com/gotd/td/crypto/srp"

	"verif/harness/mon"
	"verif/harness/refmodel"
)

// c15Alias: Hash / NewHash with inputs that live in shared, oversized buffers.
// Salt1, Salt2, password, B and the client secret are carved from ONE backing
// array, adjacent to each other, or have spare capacity (make(n, n+64)).
// Oracle: (1) the whole backing array is unchanged by every call; (2) results
// returned earlier are not changed by later calls; (3) results equal the
// reference computed from private copies of the inputs; (4) the FIRST NewHash
// result (verifier v + new salt) still verifies a login after a SECOND NewHash
// on the same Input, checked end-to-end with the reference SRP verifier.
func c15Alias(c *mon.Ctx, ms []modulus) {
	r := c.Rand("c15alias")
	safe := ofKind(ms, "safe2048")
	for round := 0; round < c.N(1, 8); round++ {
		m := safe[round%len(safe)]
		g := 4
		for x := 2; x <= 7; x++ {
			if x != 4 && refmodel.C2SpecAcceptG(x, m.P) {
				g = x
				break
			}
		}
		gr := refmodel.C2SRPGroup{G: int64(g), P: m.P}
		for _, layout := range []string{"adjacent-in-one-buffer", "spare-capacity"} {
			n1, n2 := []int{8, 40, 0, 16}[(round+len(layout))%4], []int{16, 40, 64, 33}[round%4]
			pwLen := 1 + r.IntN(24)
			// one backing array: password | salt1 | salt2 | B | secret | slack
			buf := randBytes(r, pwLen+n1+n2+256+256+64)
			var pw, salt1, salt2, B, secret []byte
			switch layout {
			case "adjacent-in-one-buffer":
				o := 0
				pw, o = buf[o:o+pwLen], o+pwLen
				salt1, o = buf[o:o+n1], o+n1 // cap(salt1) reaches over salt2, B, secret
				salt2, o = buf[o:o+n2], o+n2
				B, o = buf[o:o+256], o+256
				secret = buf[o : o+256]
			default:
				mk := func(n int) []byte {
					b := make([]byte, n, n+64)
					copy(b, randBytes(r, n))
					copy(b[n:n+64], bytes.Repeat([]byte{0xA5}, 64))
					return b
				}
				pw, salt1, salt2, B, secret = mk(pwLen), mk(n1), mk(n2), mk(256), mk(256)
			}
			full := func(b []byte) []byte { return b[:cap(b)] }
			views := map[string][]byte{"buffer": buf, "password": full(pw), "salt1": full(salt1), "salt2": full(salt2), "B": full(B), "secret": full(secret)}
			snap := map[string][]byte{}
			for k, v := range views {
				snap[k] = append([]byte(nil), v...)
			}
			// private copies for the reference
			cpw, cs1, cs2, cSecret := append([]byte(nil), pw...), append([]byte(nil), salt1...), append([]byte(nil), salt2...), append([]byte(nil), secret...)
			base := map[string]any{"layout": layout, "group": m.Name, "g": g, "salt1_len": n1, "salt2_len": n2, "cap_salt1": cap(salt1)}
			wit := func(kv ...any) map[string]any {
				w := map[string]any{}
				for k, v := range base {
					w[k] = v
				}
				for i := 0; i+1 < len(kv); i += 2 {
					w[kv[i].(string)] = kv[i+1]
				}
				return w
			}
			unchanged := func(fn string) bool {
				ok := true
				for k, v := range views {
					if !bytes.Equal(v, snap[k]) {
						ok = false
						c.Violate("immutability|"+fn+"|caller-memory-modified|"+layout, wit("region", k, "before", hx(snap[k]), "after", hx(v)))
						copy(v, snap[k]) // restore so that later steps are judged on their own
					}
				}
				return ok
			}
			in := srp.Input{Salt1: salt1, Salt2: salt2, G: g, P: m.P.Bytes()}
			type nh struct{ hash, salt, hashCopy, saltCopy []byte }
			var res []nh
			for call := 1; call <= 2; call++ {
				rd := &recReader{r: c.RandN("c15alias-rnd", round*10+call)}
				var h, s []byte
				var err error
				pv, stack := mon.Try(func() { h, s, err = srp.NewSRP(rd).NewHash(pw, in) })
				c.Eval(1)
				if pv != nil || err != nil {
					c.Violate("alias|SRP.NewHash|panic-or-error-on-valid-input|"+layout, wit("panic", fmt.Sprint(pv), "stack", stack, "err", fmt.Sprint(err)))
					return
				}
				unchanged("SRP.NewHash")
				wantSalt := append(append([]byte(nil), cs1...), rd.log...)
				wantV := refmodel.C2Pad2048(new(big.Int).Exp(big.NewInt(int64(g)), refmodel.C2SRPX(cpw, wantSalt, cs2), m.P))
				if len(rd.log) != 32 || !bytes.Equal(s, wantSalt) || !bytes.Equal(h, wantV) {
					c.Violate("alias|SRP.NewHash|result-differs-from-spec|"+layout, wit("call", call, "salt", hx(s), "spec_salt", hx(wantSalt), "hash", hx(h), "spec_hash", hx(wantV)))
				}
				res = append(res, nh{h, s, append([]byte(nil), h...), append([]byte(nil), s...)})
				for i, e := range res[:len(res)-1] {
					if !bytes.Equal(e.hash, e.hashCopy) || !bytes.Equal(e.salt, e.saltCopy) {
						c.Violate("history|SRP.NewHash|earlier-result-changed-by-later-call|"+layout, wit("earlier_call", i+1, "later_call", call, "salt_then", hx(e.saltCopy), "salt_now", hx(e.salt)))
					}
				}
				c.Distinct(fmt.Sprintf("alias/newhash/%s/call%d/s1=%d/s2=%d", layout, call, n1, n2))
			}
			// login against the FIRST registration, using the first result as the caller holds it now
			first := res[0]
			ver := &refmodel.C2SRPVerifier{Group: gr, Salt1: first.saltCopy, Salt2: cs2, V: new(big.Int).SetBytes(first.hashCopy)}
			ver.SetSecret(new(big.Int).SetBytes(randBytes(r, 256)))
			copy(B, refmodel.C2Pad2048(ver.B)) // the server's B arrives in the caller's buffer
			for k, v := range views {
				snap[k] = append(snap[k][:0], v...)
			}
			var ans srp.Answer
			var err error
			pv, stack := mon.Try(func() {
				ans, err = srp.NewSRP(&randReader{r: r}).Hash(pw, B, secret, srp.Input{Salt1: first.salt, Salt2: salt2, G: g, P: m.P.Bytes()})
			})
			c.Eval(1)
			if pv != nil || err != nil {
				c.Violate("alias|SRP.Hash|panic-or-error-on-valid-input|"+layout, wit("panic", fmt.Sprint(pv), "stack", stack, "err", fmt.Sprint(err)))
				return
			}
			unchanged("SRP.Hash")
			x := refmodel.C2SRPX(cpw, first.saltCopy, cs2)
			rA, rM := refmodel.C2SRPClient(gr, x, first.saltCopy, cs2, new(big.Int).SetBytes(cSecret), ver.B)
			if !bytes.Equal(ans.A, rA) || !bytes.Equal(ans.M1, rM) {
				c.Violate("alias|SRP.Hash|answer-differs-from-spec|"+layout, wit("M1", hx(ans.M1), "spec_M1", hx(rM)))
			}
			if !ver.Check(ans.A, ans.M1) {
				c.Violate("history|SRP.NewHash|first-registration-no-longer-verifies-after-second-NewHash|"+layout, wit("first_salt_then", hx(first.saltCopy), "first_salt_now", hx(first.salt)))
			} else {
				c.Add("alias_first_registration_verifies", 1)
			}
			c.Distinct(fmt.Sprintf("alias/login/%s/s1=%d/s2=%d", layout, n1, n2))
			c.Sample("alias", map[string]any{"layout": layout, "group": m.Name, "g": g, "salt1_len": n1, "cap_salt1": cap(salt1), "salt2_len": n2})
		}
	}
}
