package main

import (
	"bytes"
	"fmt"
	"math/big"
	"math/rand/v2"
	"sync/atomic"

	"github.com/gotd/td/crypto/srp"

	"verif/harness/mon"
	"verif/harness/refmodel"
)

type c15Group struct {
	Name string
	G    int
	P    *big.Int
}

func (g c15Group) ref() refmodel.C2SRPGroup { return refmodel.C2SRPGroup{G: int64(g.G), P: g.P} }

func c15Password(r *rand.Rand, cls int) (string, []byte) {
	switch cls % 8 {
	case 0:
		return "empty", nil
	case 1:
		return "ascii", []byte("correct horse battery staple")[:1+r.IntN(28)]
	case 2:
		return "long", randBytes(r, 200+r.IntN(1800))
	case 3:
		return "nul", make([]byte, 1+r.IntN(3))
	case 4:
		return "utf8", []byte("пароль-密码-🔑")
	default:
		return "bytes", randBytes(r, 1+r.IntN(40)) // mostly not valid UTF-8
	}
}

func c15WrongPassword(r *rand.Rand, pw []byte) (string, []byte) {
	switch k := r.IntN(4); {
	case len(pw) == 0:
		return "nonempty-for-empty", []byte{byte(r.Uint32())}
	case k == 0:
		out := append([]byte(nil), pw...)
		out[r.IntN(len(out))] ^= 1 << r.IntN(8)
		return "one-bit", out
	case k == 1:
		return "appended-nul", append(append([]byte(nil), pw...), 0)
	case k == 2:
		return "truncated", append([]byte(nil), pw[:len(pw)-1]...)
	default:
		out := randBytes(r, len(pw))
		if bytes.Equal(out, pw) {
			out[0] ^= 1
		}
		return "other", out
	}
}

func c15Secret(r *rand.Rand, cls int, p *big.Int) (string, []byte) {
	switch cls % 10 {
	case 0:
		return "small", randBytes(r, 1+r.IntN(8))
	case 1:
		b := randBytes(r, 256)
		for i := 0; i < 8+r.IntN(200); i++ {
			b[i] = 0
		}
		return "leading-zeros", b
	case 2:
		return "above-p", bytes.Repeat([]byte{0xff}, 256)
	case 3:
		return "longer-than-2048-bit", randBytes(r, 257+r.IntN(64))
	case 4:
		return "one", []byte{1}
	default:
		return "2048-bit", randBytes(r, 256)
	}
}

func lenBucket(n int) int {
	switch {
	case n == 0:
		return 0
	case n <= 8:
		return 8
	case n <= 16:
		return 16
	case n <= 32:
		return 32
	case n <= 40:
		return 40
	}
	return 64
}

func runC15(c *mon.Ctx) {
	c.Rule("groups: every committed 2048-bit safe prime (Telegram production, RFC 3526 group 14, RFC 7919 ffdhe2048, 8 generated; re-verified at start) x every g in 2..7 that Euler's criterion admits. " +
		"main arm: random password (empty / ascii / long / NUL / UTF-8 / random bytes), salts of 0..64 bytes, client secret (2048-bit, small, leading zeros, above p, longer), " +
		"a reference server registers the password (v = g^x), picks b and sends B = k*v + g^b; the real SRP.Hash answer must equal the reference client's (A, M1) byte for byte AND be accepted by the reference verifier (S = (A*v^u)^b); " +
		"then the real answer for a different password (one bit, appended NUL, truncated, other) must be rejected by the same verifier. B is presented padded, stripped, or with extra leading zeros. " +
		"hostile-B arm: B = empty, 0, 1, p-1, p, 2p, k*v (t = 0), 2^2048-1, 300 random bytes: no panic, and for B < 2^2048 the spec formula still decides (A, M1). " +
		"bad-group arm: non-2048-bit safe primes, primes with composite (p-1)/2, composites, p+2, bit flips, empty/zero p, g outside 2..7 and non-residue g: Hash and NewHash must return an error and an empty answer. " +
		"history arm: Hash/NewHash with a valid (g, p), then EVERY inadmissible g on the same p, refused moduli presented repeatedly, the valid group again (answers must still equal the reference), reversed with 3x repeats, from 2-3 goroutines; and after the main arm every inadmissible g of every prime is presented again. " +
		"alias arm: password/salt1/salt2/B/secret carved adjacent from ONE buffer or with 64 bytes of spare capacity: caller memory (full capacity) unchanged after every call, earlier NewHash results unchanged by a second NewHash, and the FIRST registration still verifies a login (reference verifier) after the second. " +
		"new-hash arm: NewHash = pad2048(g^PH2(password, salt1 || 32 random bytes, salt2)). distinct non-trivial = distinct (arm, group, g, password class, secret class, B encoding, salt length buckets, outcome)")
	c.Assume("refmodel/crypto2_srp.go transcribes core.telegram.org/api/srp (own PBKDF2-HMAC-SHA512 per RFC 8018 over crypto/hmac); math/big, crypto/sha256, crypto/sha512 are shared with the code under test")
	c.Assume("a wrong password passing the verifier by a SHA256 collision is not a realistic false alarm")
	c.Exhaustive(false)
	ms, ok := loadModuli(c)
	if !ok {
		return
	}
	var groups []c15Group
	safe := ofKind(ms, "safe2048")
	for _, m := range safe {
		for g := 2; g <= 7; g++ {
			if refmodel.C2SpecAcceptG(g, m.P) {
				groups = append(groups, c15Group{m.Name, g, m.P})
			}
		}
	}
	if len(groups) < 10 {
		c.Inconclusive(fmt.Sprintf("only %d admissible (p, g) groups", len(groups)))
		return
	}
	c.Set("groups", len(groups))

	type job struct {
		arm string
		i   int
	}
	var jobs []job
	// bad groups: enumerated, not sampled
	type badGroup struct {
		class string
		g     int
		p     []byte
	}
	var bad []badGroup
	for _, m := range ms {
		if m.Kind == "safe2048" {
			for g := -1; g <= 9; g++ {
				if !refmodel.C2SpecAcceptG(g, m.P) {
					cls := "g-outside-2..7"
					if g >= 2 && g <= 7 {
						cls = "g-non-residue"
					}
					bad = append(bad, badGroup{cls, g, m.P.Bytes()})
				}
			}
			continue
		}
		for _, g := range []int{3, 4} { // g=3 and g=4 pass the residue test for every (p-1)/2-prime shape, so primality decides
			bad = append(bad, badGroup{m.Kind, g, m.P.Bytes()})
		}
	}
	br := c.Rand("c15bad")
	for i, m := range safe {
		g := 4
		p2 := new(big.Int).Add(m.P, big.NewInt(2))
		bad = append(bad, badGroup{"p+2", g, p2.Bytes()})
		fl := m.P.Bytes()
		fl[br.IntN(len(fl))] ^= 1 << br.IntN(8)
		bad = append(bad, badGroup{"flipped-bit", g, fl})
		if i == 0 {
			bad = append(bad, badGroup{"empty-p", 3, nil}, badGroup{"zero-p", 3, make([]byte, 256)},
				badGroup{"p-truncated", 4, m.P.Bytes()[:255]}, badGroup{"p-extended", 4, append(m.P.Bytes(), 0x01)})
		}
	}
	// Order matters: the well-formed invalid groups run first. If the group check is found broken there, the
	// degenerate moduli (p = 0 or empty, for which an unguarded g^a mod 0 would never finish) are skipped, so a
	// broken guard is reported as a violation instead of hanging the run.
	degenerate := func(b badGroup) bool { return b.class == "empty-p" || b.class == "zero-p" }
	for i := range bad {
		if !degenerate(bad[i]) {
			jobs = append(jobs, job{"bad-group", i})
		}
	}
	for i := 0; i < c.N(32, 6000); i++ {
		jobs = append(jobs, job{"main", i})
	}
	for i := 0; i < c.N(9, 450); i++ {
		jobs = append(jobs, job{"hostile-B", i})
	}
	for i := 0; i < c.N(4, 400); i++ {
		jobs = append(jobs, job{"new-hash", i})
	}
	for i := range bad {
		if degenerate(bad[i]) {
			jobs = append(jobs, job{"bad-group", i})
		}
	}
	var guardBroken atomic.Bool
	// history: once every prime has been used in valid calls (main arm), all its inadmissible g are presented again
	var late []job
	for i := range bad {
		if bad[i].class == "g-outside-2..7" || bad[i].class == "g-non-residue" {
			late = append(late, job{"bad-group-after-valid-use", i})
		}
	}
	histDone := make(chan struct{})
	go func() {
		defer close(histDone)
		defer func() {
			if p := recover(); p != nil {
				c.Inconclusive(fmt.Sprintf("history arm panicked in the harness: %v", p))
			}
		}()
		c15History(c, ms)
		c15Alias(c, ms)
	}()

	var accepted, rejectedWrong atomic.Int64
	runJob := func(jobs []job, ji int) {
		j := jobs[ji]
		r := c.RandN("c15-"+j.arm, j.i)
		gr := groups[(j.i*7+ji)%len(groups)]
		if j.arm == "main" {
			gr = groups[j.i%len(groups)]
		}
		pwClass, pw := c15Password(r, r.IntN(8))
		if j.i%16 == 3 {
			pwClass, pw = c15Password(r, j.i/16) // make sure every class appears even in short runs
		}
		salt1, salt2 := randBytes(r, []int{0, 8, 16, 32, 40, 64, r.IntN(65)}[r.IntN(7)]), randBytes(r, []int{0, 8, 16, 32, 64, r.IntN(65)}[r.IntN(6)])
		in := srp.Input{Salt1: salt1, Salt2: salt2, G: gr.G, P: gr.P.Bytes()}
		base := map[string]any{"arm": j.arm, "index": j.i, "group": gr.Name, "g": gr.G, "password": hx(pw), "password_class": pwClass, "salt1": hx(salt1), "salt2": hx(salt2)}
		wit := func(kv ...any) map[string]any {
			w := map[string]any{}
			for k, v := range base {
				w[k] = v
			}
			for i := 0; i+1 < len(kv); i += 2 {
				w[kv[i].(string)] = kv[i+1]
			}
			return w
		}
		hash := func(s srp.SRP, password, B, secret []byte, input srp.Input) (ans srp.Answer, err error, panicked bool) {
			pv, stack := mon.Try(func() { ans, err = s.Hash(password, B, secret, input) })
			c.Eval(1)
			if pv != nil {
				c.Violate("srp|panic|"+j.arm, wit("panic", fmt.Sprint(pv), "stack", stack, "B", hx(B), "secret", hx(secret)))
				return ans, err, true
			}
			return ans, err, false
		}
		client := srp.NewSRP(&randReader{r: r})

		switch j.arm {
		case "main":
			aClass, secret := c15Secret(r, r.IntN(10), gr.P)
			if j.i%16 == 5 {
				aClass, secret = c15Secret(r, j.i/16, gr.P)
			}
			a := new(big.Int).SetBytes(secret)
			x := refmodel.C2SRPX(pw, salt1, salt2)
			ver := refmodel.C2NewSRPVerifier(gr.ref(), x, salt1, salt2, new(big.Int).SetBytes(randBytes(r, 256)))
			B := refmodel.C2Pad2048(ver.B)
			bEnc := "padded"
			switch r.IntN(4) {
			case 0:
				bEnc, B = "minimal", ver.B.Bytes()
			case 1:
				bEnc, B = "extra-leading-zeros", append(make([]byte, 1+r.IntN(4)), B...)
			}
			base["secret"], base["secret_class"], base["B"], base["B_encoding"] = hx(secret), aClass, hx(B), bEnc
			ans, err, panicked := hash(client, pw, B, secret, in)
			if panicked {
				return
			}
			if err != nil {
				c.Violate("srp|valid-input-refused", wit("err", err.Error()))
				return
			}
			refA, refM1 := refmodel.C2SRPClient(gr.ref(), x, salt1, salt2, a, ver.B)
			switch {
			case !bytes.Equal(ans.A, refA):
				c.Violate("srp|A-differs-from-spec|secret-"+aClass, wit("A", hx(ans.A), "spec_A", hx(refA)))
			case !bytes.Equal(ans.M1, refM1):
				c.Violate("srp|M1-differs-from-spec|B-"+bEnc, wit("M1", hx(ans.M1), "spec_M1", hx(refM1)))
			}
			vOK := ver.Check(ans.A, ans.M1)
			zeroA := new(big.Int).SetBytes(refA).Sign() == 0
			if !vOK && !zeroA {
				c.Violate("srp|correct-password-rejected-by-verifier", wit("A", hx(ans.A), "M1", hx(ans.M1)))
			}
			if vOK {
				accepted.Add(1)
			}
			c.Distinct(fmt.Sprintf("main/%s/g%d/pw-%s/a-%s/B-%s/s%d-%d", gr.Name, gr.G, pwClass, aClass, bEnc, lenBucket(len(salt1)), lenBucket(len(salt2))))
			c.Sample("main", map[string]any{"group": gr.Name, "g": gr.G, "password_class": pwClass, "password_len": len(pw), "salt1_len": len(salt1), "salt2_len": len(salt2), "secret_class": aClass,
				"B_encoding": bEnc, "M1": hx(ans.M1), "verifier_accepts": vOK})
			if j.i%2 == 0 {
				wClass, pw2 := c15WrongPassword(r, pw)
				ans2, err2, panicked := hash(client, pw2, B, secret, in)
				if panicked {
					return
				}
				if err2 != nil {
					c.Violate("srp|valid-input-refused", wit("err", err2.Error(), "wrong_password", hx(pw2)))
					return
				}
				if ver.Check(ans2.A, ans2.M1) {
					c.Violate("srp|wrong-password-accepted-by-verifier|"+wClass, wit("wrong_password", hx(pw2), "A", hx(ans2.A), "M1", hx(ans2.M1)))
				} else {
					rejectedWrong.Add(1)
				}
				// differential for the second answer as well
				x2 := refmodel.C2SRPX(pw2, salt1, salt2)
				rA, rM := refmodel.C2SRPClient(gr.ref(), x2, salt1, salt2, a, ver.B)
				if !bytes.Equal(ans2.A, rA) || !bytes.Equal(ans2.M1, rM) {
					c.Violate("srp|M1-differs-from-spec|B-"+bEnc, wit("wrong_password", hx(pw2), "M1", hx(ans2.M1), "spec_M1", hx(rM)))
				}
				c.Distinct(fmt.Sprintf("wrong/%s/pw-%s", wClass, pwClass))
			}

		case "hostile-B":
			x := refmodel.C2SRPX(pw, salt1, salt2)
			secret := randBytes(r, 256)
			kv := refmodel.C2NewSRPVerifier(gr.ref(), x, salt1, salt2, big.NewInt(0)).B // b = 0: B = k*v + 1
			kv.Sub(kv, big.NewInt(1))
			kv.Mod(kv, gr.P)
			two2048 := new(big.Int).Lsh(big.NewInt(1), 2048)
			type hb struct {
				name string
				b    []byte
			}
			all := []hb{
				{"empty", nil}, {"zero", make([]byte, 256)}, {"one", []byte{1}}, {"p-1", new(big.Int).Sub(gr.P, big.NewInt(1)).Bytes()},
				{"p", gr.P.Bytes()}, {"2p", new(big.Int).Lsh(gr.P, 1).Bytes()}, {"k*v", kv.Bytes()},
				{"2^2048-1", new(big.Int).Sub(two2048, big.NewInt(1)).Bytes()}, {"300-random-bytes", randBytes(r, 300)},
			}
			h := all[j.i%len(all)]
			base["B"], base["B_class"] = hx(h.b), h.name
			ans, err, panicked := hash(client, pw, h.b, secret, in)
			if panicked {
				return
			}
			outcome := "error"
			if err == nil {
				outcome = "answer"
				if Bn := new(big.Int).SetBytes(h.b); Bn.BitLen() <= 2048 {
					rA, rM := refmodel.C2SRPClient(gr.ref(), x, salt1, salt2, new(big.Int).SetBytes(secret), Bn)
					if !bytes.Equal(ans.A, rA) || !bytes.Equal(ans.M1, rM) {
						c.Violate("srp|answer-differs-from-spec|hostile-B="+h.name, wit("A", hx(ans.A), "M1", hx(ans.M1), "spec_A", hx(rA), "spec_M1", hx(rM)))
					}
				}
			}
			c.Distinct(fmt.Sprintf("hostile/%s/%s", h.name, outcome))
			c.Sample("hostile-B", map[string]any{"B": h.name, "outcome": outcome, "err": fmt.Sprint(err)})

		case "new-hash":
			rd := &recReader{r: r}
			var hsh, newSalt []byte
			var err error
			pv, stack := mon.Try(func() { hsh, newSalt, err = srp.NewSRP(rd).NewHash(pw, in) })
			c.Eval(1)
			switch {
			case pv != nil:
				c.Violate("newhash|panic", wit("panic", fmt.Sprint(pv), "stack", stack))
			case err != nil:
				c.Violate("newhash|valid-input-refused", wit("err", err.Error()))
			case len(rd.log) != 32 || !bytes.Equal(newSalt, append(append([]byte(nil), salt1...), rd.log...)):
				c.Violate("newhash|new-salt-is-not-salt1-plus-32-random-bytes", wit("new_salt", hx(newSalt), "random_consumed", hx(rd.log)))
			default:
				x := refmodel.C2SRPX(pw, newSalt, salt2)
				want := refmodel.C2Pad2048(new(big.Int).Exp(big.NewInt(int64(gr.G)), x, gr.P))
				if !bytes.Equal(hsh, want) {
					c.Violate("newhash|v-differs-from-spec", wit("hash", hx(hsh), "spec", hx(want)))
				}
				c.Distinct(fmt.Sprintf("newhash/%s/g%d/pw-%s/s%d", gr.Name, gr.G, pwClass, lenBucket(len(salt1))))
				c.Sample("new-hash", map[string]any{"group": gr.Name, "g": gr.G, "new_salt_len": len(newSalt)})
			}

		case "bad-group", "bad-group-after-valid-use":
			b := bad[j.i]
			if degenerate(b) && guardBroken.Load() {
				c.Add("degenerate_moduli_skipped_after_guard_violation", 1)
				return
			}
			inBad := srp.Input{Salt1: salt1, Salt2: salt2, G: b.g, P: b.p}
			base["group"], base["g"], base["p"], base["bad_class"] = b.class, b.g, fmt.Sprintf("%x", b.p), b.class
			ans, err, panicked := hash(client, pw, randBytes(r, 256), randBytes(r, 256), inBad)
			if panicked {
				return
			}
			if err == nil || ans.A != nil || ans.M1 != nil {
				guardBroken.Store(true)
				if j.arm == "bad-group-after-valid-use" {
					c.Violate("history|SRP.Hash|valid-p-then-invalid-g-accepted|"+b.class, wit("err", fmt.Sprint(err), "A", hx(ans.A), "M1", hx(ans.M1)))
					return
				}
				c.Violate("srp|invalid-group-not-refused|"+b.class, wit("err", fmt.Sprint(err), "A", hx(ans.A), "M1", hx(ans.M1)))
			}
			if j.i%3 == 0 || b.class == "empty-p" || b.class == "zero-p" {
				var h2, s2 []byte
				var e2 error
				pv, stack := mon.Try(func() { h2, s2, e2 = client.NewHash(pw, inBad) })
				c.Eval(1)
				if pv != nil {
					c.Violate("newhash|panic|invalid-group", wit("panic", fmt.Sprint(pv), "stack", stack))
				} else if e2 == nil || h2 != nil || s2 != nil {
					c.Violate("newhash|invalid-group-not-refused|"+b.class, wit("err", fmt.Sprint(e2)))
				}
			}
			c.Distinct(fmt.Sprintf("%s/%s/g%d", j.arm, b.class, b.g))
			c.Sample("bad-group", map[string]any{"class": b.class, "g": b.g, "err": fmt.Sprint(err)})
		}
	}
	parallel(len(jobs), func(ji int) { runJob(jobs, ji) })
	parallel(len(late), func(ji int) { runJob(late, ji) })
	<-histDone
	c.Set("correct_password_accepted", accepted.Load())
	c.Set("wrong_password_rejected", rejectedWrong.Load())
	c.Set("bad_groups", len(bad))
	if accepted.Load() == 0 || rejectedWrong.Load() == 0 {
		c.Inconclusive("the verifier never accepted a correct or never rejected a wrong password: end-to-end arm observed nothing")
	}
}
