module verif/harness

go 1.25.0

require (
	github.com/anishathalye/porcupine v1.3.0
	github.com/gotd/td v0.0.0
)

require (
	github.com/go-faster/errors v0.8.0 // indirect
	github.com/go-faster/jx v1.2.0 // indirect
	github.com/go-faster/xor v1.0.0 // indirect
	github.com/gotd/ige v0.3.0 // indirect
	github.com/gotd/log v0.1.0 // indirect
	github.com/segmentio/asm v1.2.1 // indirect
	golang.org/x/sys v0.47.0 // indirect
)

replace github.com/gotd/td => /repo
